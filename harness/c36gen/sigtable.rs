// Shared (via include!) by c36gen/build.rs, c36gen/src/main.rs and harness/src/bin/c36.rs:
// the fixed set of host signatures, the #host types they mention, and the dynamic value type.

#[derive(Clone, Debug, PartialEq)]
pub enum Ty {
    Int,
    Float,
    Bool,
    Str,
    Unit,
    Opt(Box<Ty>),
    Res(Box<Ty>, Box<Ty>),
    Arr(Box<Ty>),
    Tup(Vec<Ty>),
    Named(&'static str),
}

#[derive(Clone, Debug)]
pub enum V {
    Int(i64),
    Float(f64),
    Bool(bool),
    Str(String),
    Unit,
    Some(Box<V>),
    None,
    Ok(Box<V>),
    Err(Box<V>),
    Arr(Vec<V>),
    Tup(Vec<V>),
    Variant(usize, Option<Box<V>>),
}

impl PartialEq for V {
    fn eq(&self, o: &V) -> bool {
        match (self, o) {
            (V::Int(a), V::Int(b)) => a == b,
            (V::Float(a), V::Float(b)) => a.to_bits() == b.to_bits(),
            (V::Bool(a), V::Bool(b)) => a == b,
            (V::Str(a), V::Str(b)) => a == b,
            (V::Unit, V::Unit) | (V::None, V::None) => true,
            (V::Some(a), V::Some(b)) | (V::Ok(a), V::Ok(b)) | (V::Err(a), V::Err(b)) => a == b,
            (V::Arr(a), V::Arr(b)) | (V::Tup(a), V::Tup(b)) => a == b,
            (V::Variant(i, a), V::Variant(j, b)) => i == j && a == b,
            _ => false,
        }
    }
}

pub struct StructDef {
    /// "" = declared in sigs.abra itself, otherwise the module file that declares it
    pub module: &'static str,
    pub name: &'static str,
    pub fields: Vec<(&'static str, Ty)>,
}
pub struct EnumDef {
    pub module: &'static str,
    pub name: &'static str,
    pub variants: Vec<(&'static str, Vec<Ty>)>,
}
pub struct Sig {
    pub params: Vec<Ty>,
    pub ret: Ty,
}

fn o(t: Ty) -> Ty {
    Ty::Opt(Box::new(t))
}
fn r(t: Ty, e: Ty) -> Ty {
    Ty::Res(Box::new(t), Box::new(e))
}
fn a(t: Ty) -> Ty {
    Ty::Arr(Box::new(t))
}
fn t(ts: &[Ty]) -> Ty {
    Ty::Tup(ts.to_vec())
}
fn n(s: &'static str) -> Ty {
    Ty::Named(s)
}

pub fn struct_defs() -> Vec<StructDef> {
    use Ty::*;
    vec![
        StructDef { module: "", name: "Point", fields: vec![("x", Int), ("y", Float)] },
        StructDef {
            module: "",
            name: "Rec",
            fields: vec![("name", Str), ("dummy", Unit), ("tags", a(Str)), ("pos", n("Point")), ("o", o(Int)), ("gap", Unit)],
        },
        StructDef { module: "", name: "Wrap", fields: vec![("inner", r(n("Shape"), Str)), ("c", n("Color"))] },
        // #host types declared in other modules, imported by sigs.abra in the four import forms
        StructDef { module: "geo", name: "Vec2", fields: vec![("x", Float), ("y", Float)] },
        StructDef { module: "pkg/inner", name: "Tag", fields: vec![("label", Str), ("w", Unit), ("n", Int)] },
        StructDef { module: "extra", name: "Pair", fields: vec![("a", Int), ("b", Str)] },
        StructDef { module: "extra", name: "Skip", fields: vec![("z", Int)] },
    ]
}

pub fn enum_defs() -> Vec<EnumDef> {
    use Ty::*;
    vec![
        EnumDef { module: "", name: "Color", variants: vec![("Red", vec![]), ("Green", vec![]), ("Blue", vec![])] },
        EnumDef { module: "geo", name: "Hue", variants: vec![("Warm", vec![]), ("Cold", vec![Int])] },
        EnumDef { module: "al", name: "Shade", variants: vec![("Dark", vec![]), ("Light", vec![Float]), ("Mixed", vec![Int, Str])] },
        EnumDef {
            module: "",
            name: "Shape",
            variants: vec![
                ("Circle", vec![Float]),
                ("Rect", vec![Float, Float]),
                ("Empty", vec![]),
                ("Tagged", vec![Str, n("Point")]),
                ("Many", vec![a(Int)]),
            ],
        },
    ]
}

/// host functions f00, f01, …: arities 0–4, every type constructor, nesting to depth 3
pub fn sigs() -> Vec<Sig> {
    use Ty::*;
    let s = |params: Vec<Ty>, ret: Ty| Sig { params, ret };
    vec![
        // arity 0
        s(vec![], Int),
        s(vec![], Unit),
        s(vec![], t(&[Int, Str])),
        s(vec![], o(a(Str))),
        s(vec![], n("Rec")),
        // arity 1: echo
        s(vec![Int], Int),
        s(vec![Float], Float),
        s(vec![Bool], Bool),
        s(vec![Str], Str),
        s(vec![o(Int)], o(Int)),
        s(vec![o(Str)], o(Str)),
        s(vec![o(Unit)], o(Unit)),
        s(vec![r(Int, Str)], r(Int, Str)),
        s(vec![r(Unit, Str)], r(Unit, Str)),
        s(vec![a(Int)], a(Int)),
        s(vec![a(Str)], a(Str)),
        s(vec![a(a(Int))], a(a(Int))),
        s(vec![t(&[Int, Str])], t(&[Int, Str])),
        s(vec![t(&[Int, Float, Bool])], t(&[Int, Float, Bool])),
        s(vec![t(&[Int, Str, Bool, Float])], t(&[Int, Str, Bool, Float])),
        s(vec![o(o(Int))], o(o(Int))),
        s(vec![a(o(t(&[Int, Bool])))], a(o(t(&[Int, Bool])))),
        s(vec![r(a(Str), o(Float))], r(a(Str), o(Float))),
        s(vec![o(r(t(&[Int, Int]), a(Bool)))], o(r(t(&[Int, Int]), a(Bool)))),
        s(vec![t(&[a(Int), o(Str)])], t(&[a(Int), o(Str)])),
        s(vec![n("Point")], n("Point")),
        s(vec![n("Rec")], n("Rec")),
        s(vec![n("Color")], n("Color")),
        s(vec![n("Shape")], n("Shape")),
        s(vec![n("Wrap")], n("Wrap")),
        s(vec![a(n("Shape"))], a(n("Shape"))),
        s(vec![o(n("Rec"))], o(n("Rec"))),
        // arity 2
        s(vec![Int, Int], t(&[Int, Int])),
        s(vec![Int, Str], t(&[Int, Str])),
        s(vec![Str, a(Int)], t(&[Str, a(Int)])),
        s(vec![o(Int), r(Str, Int)], t(&[o(Int), r(Str, Int)])),
        s(vec![Int, Unit], Int),
        s(vec![n("Point"), n("Color")], t(&[n("Point"), n("Color")])),
        // empty containers next to non-empty siblings (a value left on the stack corrupts the NEXT conversion)
        s(vec![a(Int), a(Int)], t(&[a(Int), a(Int)])),
        s(vec![Int, a(Str)], t(&[Int, a(Str)])),
        s(vec![a(Str), Str], t(&[a(Str), Str])),
        s(vec![t(&[Int, a(Int)])], t(&[Int, a(Int)])),
        s(vec![t(&[a(Int), Int, a(Str)])], t(&[a(Int), Int, a(Str)])),
        s(vec![a(t(&[a(Int), Str]))], a(t(&[a(Int), Str]))),
        s(vec![o(a(Int)), a(o(Str))], t(&[o(a(Int)), a(o(Str))])),
        // several places for one and the same array object
        s(vec![a(Str), a(Str), Int], t(&[a(Str), a(Str), Int])),
        s(vec![o(a(Int)), t(&[a(Int), a(Int)])], t(&[o(a(Int)), t(&[a(Int), a(Int)])])),
        s(vec![a(a(Int)), a(Int)], t(&[a(a(Int)), a(Int)])),
        // arity 3
        s(vec![Int, Float, Str], t(&[Int, Float, Str])),
        s(vec![Str, Unit, Int], t(&[Str, Int])),
        s(vec![a(Str), o(Bool), t(&[Int, Int])], t(&[a(Str), o(Bool), t(&[Int, Int])])),
        s(vec![Bool, Bool, Bool], Unit),
        // arity 4
        s(vec![Int, Int, Int, Int], t(&[Int, Int, Int, Int])),
        s(vec![Str, Float, Bool, Int], t(&[Str, Float, Bool, Int])),
        s(vec![Unit, a(Float), Unit, r(Int, Int)], t(&[a(Float), r(Int, Int)])),
        s(vec![n("Shape"), a(n("Point")), o(n("Color")), Str], t(&[n("Shape"), a(n("Point")), o(n("Color")), Str])),
        s(vec![a(Int), a(a(Str)), Str, a(Float)], t(&[a(Int), a(a(Str)), Str, a(Float)])),
        // wide tuples (the VmType tuple impls go up to width 12; the prelude can print up to width 4, wider
        // results are destructured and printed component by component)
        s(vec![t(&[Int, Str, Bool, Float, Int])], t(&[Int, Str, Bool, Float, Int])),
        s(vec![t(&[a(Int), Int, o(Str), Str, Bool, Float, Int])], t(&[a(Int), Int, o(Str), Str, Bool, Float, Int])),
        s(vec![Int, t(&[Int, Int, Str, Int, Int, Bool, Int, Int, Float, Int, Str, Int])], t(&[Int, Int, Str, Int, Int, Bool, Int, Int, Float, Int, Str, Int])),
        // types from imported modules: `use geo`, `use pkg/inner.(Tag)`, `use extra except Skip`, `use al as p` (D95)
        s(vec![n("Vec2")], n("Vec2")),
        s(vec![n("Hue"), n("Tag")], t(&[n("Hue"), n("Tag")])),
        s(vec![n("Pair"), a(n("Pair"))], t(&[n("Pair"), a(n("Pair"))])),
        s(vec![n("Shade")], n("Shade")),
        s(vec![o(n("Shade")), n("Vec2"), Int], t(&[o(n("Shade")), n("Vec2"), Int])),
    ]
}

pub fn abra_ty(t: &Ty) -> String {
    match t {
        Ty::Int => "int".into(),
        Ty::Float => "float".into(),
        Ty::Bool => "bool".into(),
        Ty::Str => "string".into(),
        Ty::Unit => "void".into(),
        Ty::Opt(x) => format!("option<{}>", abra_ty(x)),
        Ty::Res(x, e) => format!("result<{}, {}>", abra_ty(x), abra_ty(e)),
        Ty::Arr(x) => format!("array<{}>", abra_ty(x)),
        Ty::Tup(xs) => format!("({})", xs.iter().map(abra_ty).collect::<Vec<_>>().join(", ")),
        Ty::Named(s) => s.to_string(),
    }
}

pub fn rust_ty(t: &Ty) -> String {
    match t {
        Ty::Int => "i64".into(),
        Ty::Float => "f64".into(),
        Ty::Bool => "bool".into(),
        Ty::Str => "String".into(),
        Ty::Unit => "()".into(),
        Ty::Opt(x) => format!("Option<{}>", rust_ty(x)),
        Ty::Res(x, e) => format!("Result<{}, {}>", rust_ty(x), rust_ty(e)),
        Ty::Arr(x) => format!("Vec<{}>", rust_ty(x)),
        Ty::Tup(xs) => format!("({},)", xs.iter().map(rust_ty).collect::<Vec<_>>().join(", ")),
        Ty::Named(s) => rust_path(s),
    }
}

/// the Rust path of a generated #host type as seen from the crate root after `use generated::*;`
/// (every module of the signature set is a `pub mod` of the generated code)
pub fn rust_path(name: &str) -> String {
    let m = module_of(name);
    if m.is_empty() { name.to_string() } else { format!("{}::{}", m.replace('/', "::"), name) }
}

/// how sigs.abra imports each module (one of every import form of the language)
pub const IMPORTS: &[(&str, &str)] = &[
    ("geo", "use geo"),
    ("pkg/inner", "use pkg/inner.(Tag)"),
    ("extra", "use extra except Skip"),
    ("al", "use al as p"),
];

fn module_of(name: &str) -> &'static str {
    for d in struct_defs() {
        if d.name == name {
            return d.module;
        }
    }
    for d in enum_defs() {
        if d.name == name {
            return d.module;
        }
    }
    ""
}

/// the type as sigs.abra has to write it (a type of the aliased module needs its qualifier)
pub fn abra_ty_sigs(t: &Ty) -> String {
    match t {
        Ty::Opt(x) => format!("option<{}>", abra_ty_sigs(x)),
        Ty::Res(x, e) => format!("result<{}, {}>", abra_ty_sigs(x), abra_ty_sigs(e)),
        Ty::Arr(x) => format!("array<{}>", abra_ty_sigs(x)),
        Ty::Tup(xs) => format!("({})", xs.iter().map(abra_ty_sigs).collect::<Vec<_>>().join(", ")),
        Ty::Named(s) if module_of(s) == "al" => format!("p.{s}"),
        t => abra_ty(t),
    }
}

fn type_defs_text(module: &str) -> String {
    let mut s = String::new();
    for d in struct_defs().iter().filter(|d| d.module == module) {
        s.push_str(&format!("#host\ntype {} = {{\n", d.name));
        for (f, t) in &d.fields {
            s.push_str(&format!("    {}: {}\n", f, abra_ty(t)));
        }
        s.push_str("}\n\n");
    }
    for d in enum_defs().iter().filter(|d| d.module == module) {
        s.push_str(&format!("#host\ntype {} =\n", d.name));
        for (v, fs) in &d.variants {
            if fs.is_empty() {
                s.push_str(&format!("    | {}\n", v));
            } else {
                s.push_str(&format!("    | {}({})\n", v, fs.iter().map(abra_ty).collect::<Vec<_>>().join(", ")));
            }
        }
        s.push('\n');
    }
    // how the Abra side shows values of the #host types
    for d in struct_defs().iter().filter(|d| d.module == module) {
        s.push_str(&format!("implement ToString for {} {{\n    fn str(v) {{\n        \"{}(\"", d.name, d.name));
        let mut first = true;
        for (f, t) in &d.fields {
            if *t == Ty::Unit {
                continue;
            }
            if !first {
                s.push_str(" .. \", \"");
            }
            first = false;
            s.push_str(&format!(" .. v.{}", f));
        }
        s.push_str(" .. \")\"\n    }\n}\n\n");
    }
    for d in enum_defs().iter().filter(|d| d.module == module) {
        s.push_str(&format!("implement ToString for {} {{\n    fn str(v) {{\n        match v {{\n", d.name));
        for (v, fs) in &d.variants {
            if fs.is_empty() {
                s.push_str(&format!("            .{} -> \"{}.{}\"\n", v, d.name, v));
            } else {
                let names: Vec<String> = (0..fs.len()).map(|i| format!("p{i}")).collect();
                s.push_str(&format!("            .{}({}) -> \"{}.{}(\" .. {} .. \")\"\n", v, names.join(", "), d.name, v, names.join(" .. \", \" .. ")));
            }
        }
        s.push_str("        }\n    }\n}\n\n");
    }
    s
}

/// the Abra source declaring the #host types and functions (the input of the real generator)
pub fn sigs_abra() -> String {
    let mut s = String::new();
    for (_, line) in IMPORTS {
        s.push_str(line);
        s.push('\n');
    }
    s.push('\n');
    s.push_str(&type_defs_text(""));
    for (i, sig) in sigs().iter().enumerate() {
        let ps: Vec<String> = sig.params.iter().enumerate().map(|(j, t)| format!("a{}: {}", j, abra_ty_sigs(t))).collect();
        s.push_str(&format!("#host\nfn f{:02}({}) -> {}\n\n", i, ps.join(", "), abra_ty_sigs(&sig.ret)));
    }
    s
}

/// every Abra file of the signature set: (path, text)
pub fn abra_files() -> Vec<(String, String)> {
    let mut v = vec![("sigs.abra".to_string(), sigs_abra())];
    for (m, _) in IMPORTS {
        let mut text = type_defs_text(m);
        if *m == "pkg/inner" {
            text.push_str("fn not_a_host_item() = 1\n");
        }
        v.push((format!("{m}.abra"), text));
    }
    v
}

/// what a test program has to import to name every type
pub fn program_header() -> String {
    let mut s = String::from("use sigs\n");
    for (m, _) in IMPORTS {
        s.push_str(&format!("use {m}\n"));
    }
    s
}

// ------------------------------------------------------------ text form of values (one line, prefix tokens)
pub fn hex(b: &[u8]) -> String {
    if b.is_empty() {
        return "-".into();
    }
    b.iter().map(|x| format!("{:02x}", x)).collect()
}
pub fn unhex(s: &str) -> Vec<u8> {
    if s == "-" {
        return vec![];
    }
    (0..s.len() / 2).map(|i| u8::from_str_radix(&s[2 * i..2 * i + 2], 16).unwrap()).collect()
}

pub fn v_tokens(v: &V, out: &mut Vec<String>) {
    match v {
        V::Int(n) => out.push(format!("I {n}")),
        V::Float(f) => out.push(format!("F {}", f.to_bits())),
        V::Bool(b) => out.push(format!("B {}", *b as u8)),
        V::Str(s) => out.push(format!("S {}", hex(s.as_bytes()))),
        V::Unit => out.push("U".into()),
        V::Some(x) => {
            out.push("some".into());
            v_tokens(x, out)
        }
        V::None => out.push("none".into()),
        V::Ok(x) => {
            out.push("ok".into());
            v_tokens(x, out)
        }
        V::Err(x) => {
            out.push("err".into());
            v_tokens(x, out)
        }
        V::Arr(xs) => {
            out.push(format!("arr {}", xs.len()));
            for x in xs {
                v_tokens(x, out)
            }
        }
        V::Tup(xs) => {
            out.push(format!("tup {}", xs.len()));
            for x in xs {
                v_tokens(x, out)
            }
        }
        V::Variant(tag, p) => match p {
            None => out.push(format!("var {tag} 0")),
            Some(x) => {
                out.push(format!("var {tag} 1"));
                v_tokens(x, out)
            }
        },
    }
}
pub fn v_text(v: &V) -> String {
    let mut o = vec![];
    v_tokens(v, &mut o);
    o.join(" ")
}
pub fn v_parse(toks: &mut std::slice::Iter<&str>) -> V {
    let t = *toks.next().unwrap();
    match t {
        "I" => V::Int(toks.next().unwrap().parse().unwrap()),
        "F" => V::Float(f64::from_bits(toks.next().unwrap().parse().unwrap())),
        "B" => V::Bool(*toks.next().unwrap() == "1"),
        "S" => V::Str(String::from_utf8(unhex(toks.next().unwrap())).unwrap()),
        "U" => V::Unit,
        "some" => V::Some(Box::new(v_parse(toks))),
        "none" => V::None,
        "ok" => V::Ok(Box::new(v_parse(toks))),
        "err" => V::Err(Box::new(v_parse(toks))),
        "arr" => {
            let n: usize = toks.next().unwrap().parse().unwrap();
            V::Arr((0..n).map(|_| v_parse(toks)).collect())
        }
        "tup" => {
            let n: usize = toks.next().unwrap().parse().unwrap();
            V::Tup((0..n).map(|_| v_parse(toks)).collect())
        }
        "var" => {
            let tag: usize = toks.next().unwrap().parse().unwrap();
            if *toks.next().unwrap() == "1" { V::Variant(tag, Some(Box::new(v_parse(toks)))) } else { V::Variant(tag, None) }
        }
        x => panic!("bad value token {x}"),
    }
}
pub fn v_from_text(s: &str) -> V {
    let toks: Vec<&str> = s.split_whitespace().collect();
    v_parse(&mut toks.iter())
}

/// canonical one-token rendering used in answers (floats as bits, strings as hex)
pub fn canon(v: &V) -> String {
    match v {
        V::Int(n) => format!("I{n}"),
        V::Float(f) => format!("F{}", f.to_bits()),
        V::Bool(b) => if *b { "Bt".into() } else { "Bf".into() },
        V::Str(s) => format!("S{}", hex(s.as_bytes())),
        V::Unit => "U".into(),
        V::Some(x) => format!("some({})", canon(x)),
        V::None => "none".into(),
        V::Ok(x) => format!("ok({})", canon(x)),
        V::Err(x) => format!("err({})", canon(x)),
        V::Arr(xs) => format!("[{}]", xs.iter().map(canon).collect::<Vec<_>>().join(",")),
        V::Tup(xs) => format!("({})", xs.iter().map(canon).collect::<Vec<_>>().join(",")),
        V::Variant(t, None) => format!("#{t}"),
        V::Variant(t, Some(x)) => format!("#{t}({})", canon(x)),
    }
}
