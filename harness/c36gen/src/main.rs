//! Child process of the C36 harness.  stdin: one case per line `<k>\t<ret value text>\t<program hex>`;
//! stdout: `R\t<k seen>\t<args the host read, canonical>\t<everything the Abra program printed, hex>\t<status>`.
//! The arguments are read with the *generated* `HostFunctionArgs::from_vm`, the result is written with
//! the *generated* `HostFunctionRet::into_vm` (build.rs runs the real generator of /repo).
#![allow(dead_code, unused_imports)]
include!("../sigtable.rs");

use abra_core::vm::{Runtime, RuntimeStatusKind, VmGreenThread, VmStatus};
use std::io::{BufRead, Write};

pub mod generated {
    include!(concat!(env!("OUT_DIR"), "/gen/mod.rs"));
}
// the documented embedding (as in /repo/e2e_tests/test_host_funcs): a private module, glob-imported at the root
use generated::*;

pub trait Dyn: Sized {
    fn to_v(&self) -> V;
    fn from_v(v: &V) -> Self;
}
impl Dyn for i64 {
    fn to_v(&self) -> V { V::Int(*self) }
    fn from_v(v: &V) -> Self { let V::Int(n) = v else { panic!("int expected") }; *n }
}
impl Dyn for f64 {
    fn to_v(&self) -> V { V::Float(*self) }
    fn from_v(v: &V) -> Self { let V::Float(n) = v else { panic!("float expected") }; *n }
}
impl Dyn for bool {
    fn to_v(&self) -> V { V::Bool(*self) }
    fn from_v(v: &V) -> Self { let V::Bool(n) = v else { panic!("bool expected") }; *n }
}
impl Dyn for String {
    fn to_v(&self) -> V { V::Str(self.clone()) }
    fn from_v(v: &V) -> Self { let V::Str(n) = v else { panic!("string expected") }; n.clone() }
}
impl Dyn for () {
    fn to_v(&self) -> V { V::Unit }
    fn from_v(_: &V) -> Self {}
}
impl<T: Dyn> Dyn for Option<T> {
    fn to_v(&self) -> V { match self { Some(x) => V::Some(Box::new(x.to_v())), None => V::None } }
    fn from_v(v: &V) -> Self { match v { V::Some(x) => Some(T::from_v(x)), V::None => None, _ => panic!("option expected") } }
}
impl<T: Dyn, E: Dyn> Dyn for Result<T, E> {
    fn to_v(&self) -> V { match self { Ok(x) => V::Ok(Box::new(x.to_v())), Err(x) => V::Err(Box::new(x.to_v())) } }
    fn from_v(v: &V) -> Self { match v { V::Ok(x) => Ok(T::from_v(x)), V::Err(x) => Err(E::from_v(x)), _ => panic!("result expected") } }
}
impl<T: Dyn> Dyn for Vec<T> {
    fn to_v(&self) -> V { V::Arr(self.iter().map(|x| x.to_v()).collect()) }
    fn from_v(v: &V) -> Self { let V::Arr(xs) = v else { panic!("array expected") }; xs.iter().map(T::from_v).collect() }
}
macro_rules! tuple_dyn {
    ($(($($n:ident $i:tt),+))*) => {$(
        impl<$($n: Dyn),+> Dyn for ($($n,)+) {
            fn to_v(&self) -> V { V::Tup(vec![$(self.$i.to_v()),+]) }
            fn from_v(v: &V) -> Self { let V::Tup(f) = v else { panic!("tuple expected") }; ($($n::from_v(&f[$i]),)+) }
        }
    )*};
}
tuple_dyn!((A 0) (A 0, B 1) (A 0, B 1, C 2) (A 0, B 1, C 2, D 3) (A 0, B 1, C 2, D 3, E 4) (A 0, B 1, C 2, D 3, E 4, F 5)
    (A 0, B 1, C 2, D 3, E 4, F 5, G 6) (A 0, B 1, C 2, D 3, E 4, F 5, G 6, H 7) (A 0, B 1, C 2, D 3, E 4, F 5, G 6, H 7, I 8)
    (A 0, B 1, C 2, D 3, E 4, F 5, G 6, H 7, I 8, J 9) (A 0, B 1, C 2, D 3, E 4, F 5, G 6, H 7, I 8, J 9, K 10)
    (A 0, B 1, C 2, D 3, E 4, F 5, G 6, H 7, I 8, J 9, K 10, L 11));

include!(concat!(env!("OUT_DIR"), "/glue.rs"));

fn run_case(k: usize, ret: &V, program: &str) -> (String, String, String, String) {
    let mut files: std::collections::HashMap<std::path::PathBuf, String> = std::collections::HashMap::new();
    files.insert("main.abra".into(), program.to_string());
    for (path, text) in abra_files() {
        files.insert(path.into(), text);
    }
    // both entry points: the plain one (main.abra imports sigs) and the one that takes the host-function file as
    // a second root
    let second_root = program.len() % 2 == 0;
    let prog = match std::panic::catch_unwind(|| {
        if second_root {
            abra_core::compile_bytecode_with_host_funcs("main.abra", "sigs.abra", abra_core::MockFileProvider::new(files))
        } else {
            abra_core::compile_bytecode("main.abra", abra_core::MockFileProvider::new(files))
        }
    }) {
        Ok(Ok(p)) => p,
        Ok(Err(e)) => return ("-".into(), "-".into(), hex(b""), format!("rejected:{}", hex(e.to_string().as_bytes()))),
        Err(e) => return ("-".into(), "-".into(), hex(b""), format!("crash:{}", hex(format!("compiler panic: {}", panic_text(e)).as_bytes()))),
    };
    let mut rt = Runtime::new(prog);
    let mut printed = String::new();
    let mut seen_k = String::from("-");
    let mut seen_args = String::from("-");
    // the VM run, the host-side from_vm/into_vm servicing: a host panic belongs to THIS case
    let r = std::panic::catch_unwind(std::panic::AssertUnwindSafe(|| drive(&mut rt, k, ret, &mut printed, &mut seen_k, &mut seen_args)));
    match r {
        Ok(status) => {
            // dropping the runtime frees the heap: also part of the case
            match std::panic::catch_unwind(std::panic::AssertUnwindSafe(move || drop(rt))) {
                Ok(()) => (seen_k, seen_args, hex(printed.as_bytes()), status),
                Err(e) => (seen_k, seen_args, hex(printed.as_bytes()), format!("crash:{}", hex(format!("panic while dropping the runtime: {}", panic_text(e)).as_bytes()))),
            }
        }
        Err(e) => {
            std::mem::forget(rt); // its state can no longer be trusted
            (seen_k, seen_args, hex(printed.as_bytes()), format!("crash:{}", hex(panic_text(e).as_bytes())))
        }
    }
}

fn panic_text(e: Box<dyn std::any::Any + Send>) -> String {
    e.downcast_ref::<String>().cloned().or_else(|| e.downcast_ref::<&str>().map(|s| s.to_string())).unwrap_or_else(|| "panic".into())
}

fn drive(rt: &mut Runtime, k: usize, ret: &V, printed: &mut String, seen_k: &mut String, seen_args: &mut String) -> String {
    let mut steps = 0u64;
    loop {
        let st = rt.run_n_steps(10_000);
        steps += st.steps_consumed as u64;
        match &st.kind {
            RuntimeStatusKind::Done => return "done".into(),
            RuntimeStatusKind::MainThreadError(e) => {
                return format!("error:{}", hex(e.to_string().lines().next().unwrap_or("").as_bytes()));
            }
            _ => {}
        }
        for thread in rt.iter_threads_mut() {
            if let VmStatus::PendingHostFunc(i) = thread.status() {
                match read_call(thread, i) {
                    Call::Print(s) => {
                        printed.push_str(&s);
                        answer_print(thread);
                    }
                    Call::Eprint(_) => thread.clear_pending_host_func(),
                    Call::Readline => {
                        HostFunctionRet::Readline(String::new()).into_vm(thread);
                    }
                    Call::GetArgs => {
                        HostFunctionRet::GetArgs(vec![]).into_vm(thread);
                    }
                    Call::Fn(kk, args) => {
                        *seen_k = kk.to_string();
                        // a program may call the host function more than once: the calls are listed in order
                        let this = if args.is_empty() { "()".to_string() } else { args.iter().map(canon).collect::<Vec<_>>().join(" ") };
                        if seen_args == "-" {
                            *seen_args = this;
                        } else {
                            seen_args.push_str(" ;; ");
                            seen_args.push_str(&this);
                        }
                        if kk != k {
                            return "wrong-function".into();
                        }
                        write_ret(thread, kk, ret);
                        if thread.get_pending_host_func().is_some() {
                            return "pending-not-cleared".into();
                        }
                    }
                }
            }
        }
        if steps > 5_000_000 {
            return "timeout".into();
        }
    }
}

fn main() {
    if std::env::args().nth(1).as_deref() == Some("--dump-sigs") {
        for (p, t) in abra_files() {
            println!("// ---- {p}\n{t}");
        }
        return;
    }
    std::panic::set_hook(Box::new(|_| {}));
    let stdin = std::io::stdin();
    let lines: Vec<String> = stdin.lock().lines().map(|l| l.unwrap()).collect();
    let n = lines.len();
    let next = std::sync::atomic::AtomicUsize::new(0);
    let workers: usize = std::env::var("VERIF_THREADS").ok().and_then(|s| s.parse().ok()).unwrap_or(10);
    let out = std::io::stdout();
    std::thread::scope(|sc| {
        for _ in 0..workers {
            std::thread::Builder::new()
                .stack_size(256 << 20)
                .spawn_scoped(sc, || loop {
                    let i = next.fetch_add(1, std::sync::atomic::Ordering::Relaxed);
                    if i >= n {
                        break;
                    }
                    let mut p = lines[i].split('\t');
                    let idx: usize = p.next().unwrap().parse().unwrap();
                    let k: usize = p.next().unwrap().parse().unwrap();
                    let ret = v_from_text(p.next().unwrap());
                    let program = String::from_utf8(unhex(p.next().unwrap())).unwrap();
                    let r = std::panic::catch_unwind(std::panic::AssertUnwindSafe(|| run_case(k, &ret, &program)));
                    let line = match r {
                        Ok((sk, sa, pr, st)) => format!("R\t{idx}\t{sk}\t{sa}\t{pr}\t{st}"),
                        Err(e) => format!("R\t{idx}\t-\t-\t-\tcrash:{}", hex(panic_text(e).as_bytes())),
                    };
                    // one line per case, as soon as it is known: survives a later abort of the process
                    let mut o = out.lock();
                    let _ = writeln!(o, "{line}");
                    let _ = o.flush();
                })
                .unwrap();
        }
    });
}
