//! Runs the REAL bindings generator of /repo on the fixed signature file and writes the glue that
//! converts between the generated Rust types and the dynamic value type `V`.
include!("sigtable.rs");

use std::fmt::Write as _;
use std::path::PathBuf;

fn main() {
    println!("cargo:rerun-if-changed=sigtable.rs");
    println!("cargo:rerun-if-changed=build.rs");
    println!("cargo:rerun-if-changed=/repo/abra_core/src/host_bindings.rs");
    println!("cargo:rerun-if-changed=/repo/abra_core/src/bindings_common.rs");
    let out = PathBuf::from(std::env::var("OUT_DIR").unwrap());
    let src_dir = out.join("abra_src");
    std::fs::create_dir_all(&src_dir).unwrap();
    for (path, text) in abra_files() {
        let dst = src_dir.join(&path);
        std::fs::create_dir_all(dst.parent().unwrap()).unwrap();
        std::fs::write(dst, text).unwrap();
    }
    let gen_dir = out.join("gen");
    std::fs::create_dir_all(&gen_dir).unwrap();
    let provider = abra_core::OsFileProvider::single_dir(src_dir.clone());
    if let Err(e) = abra_core::generate_host_function_enum("sigs.abra", provider, &gen_dir) {
        panic!("generate_host_function_enum failed: {e}");
    }

    // glue: Dyn impls for the #host types, argument/return dispatch per host function
    let mut g = String::new();
    for d in struct_defs() {
        let path = rust_path(d.name);
        writeln!(g, "impl Dyn for {} {{", path).unwrap();
        writeln!(g, "    fn to_v(&self) -> V {{ V::Tup(vec![{}]) }}", d.fields.iter().map(|(f, _)| format!("self.{f}.to_v()")).collect::<Vec<_>>().join(", ")).unwrap();
        writeln!(g, "    fn from_v(v: &V) -> Self {{ let V::Tup(f) = v else {{ panic!(\"struct value expected\") }}; {} {{ {} }} }}", path,
            d.fields.iter().enumerate().map(|(i, (f, _))| format!("{f}: Dyn::from_v(&f[{i}])")).collect::<Vec<_>>().join(", ")).unwrap();
        writeln!(g, "}}").unwrap();
    }
    for d in enum_defs() {
        let path = rust_path(d.name);
        writeln!(g, "impl Dyn for {} {{", path).unwrap();
        writeln!(g, "    fn to_v(&self) -> V {{ match self {{").unwrap();
        for (i, (v, fs)) in d.variants.iter().enumerate() {
            if fs.is_empty() {
                writeln!(g, "        {}::{} => V::Variant({i}, None),", path, v).unwrap();
            } else {
                writeln!(g, "        {}::{}(value) => V::Variant({i}, Some(Box::new(value.to_v()))),", path, v).unwrap();
            }
        }
        writeln!(g, "    }} }}").unwrap();
        let pname = if d.variants.iter().all(|(_, fs)| fs.is_empty()) { "_p" } else { "p" };
        writeln!(g, "    fn from_v(v: &V) -> Self {{ let V::Variant(tag, {pname}) = v else {{ panic!(\"enum value expected\") }}; match tag {{").unwrap();
        for (i, (v, fs)) in d.variants.iter().enumerate() {
            if fs.is_empty() {
                writeln!(g, "        {i} => {}::{},", path, v).unwrap();
            } else {
                writeln!(g, "        {i} => {}::{}(Dyn::from_v(p.as_ref().unwrap())),", path, v).unwrap();
            }
        }
        writeln!(g, "        _ => panic!(\"bad tag\"),").unwrap();
        writeln!(g, "    }} }}").unwrap();
        writeln!(g, "}}").unwrap();
    }
    // reading the arguments with the generated HostFunctionArgs::from_vm
    writeln!(g, "pub enum Call {{ Print(String), Eprint(String), Readline, GetArgs, Fn(usize, Vec<V>) }}").unwrap();
    writeln!(g, "pub fn read_call(thread: &mut VmGreenThread, i: u16) -> Call {{").unwrap();
    writeln!(g, "    match HostFunctionArgs::from_vm(thread, i) {{").unwrap();
    writeln!(g, "        HostFunctionArgs::PrintString(s) => Call::Print(s),").unwrap();
    writeln!(g, "        HostFunctionArgs::EprintString(s) => Call::Eprint(s),").unwrap();
    writeln!(g, "        HostFunctionArgs::Readline => Call::Readline,").unwrap();
    writeln!(g, "        HostFunctionArgs::GetArgs => Call::GetArgs,").unwrap();
    for (k, sig) in sigs().iter().enumerate() {
        if sig.params.is_empty() {
            writeln!(g, "        HostFunctionArgs::F{k:02} => Call::Fn({k}, vec![]),").unwrap();
        } else {
            let names: Vec<String> = (0..sig.params.len()).map(|j| format!("a{j}")).collect();
            writeln!(g, "        HostFunctionArgs::F{k:02}({}) => Call::Fn({k}, vec![{}]),", names.join(", "),
                names.iter().map(|n| format!("{n}.to_v()")).collect::<Vec<_>>().join(", ")).unwrap();
        }
    }
    writeln!(g, "    }}\n}}").unwrap();
    // answering with the generated HostFunctionRet::into_vm
    writeln!(g, "pub fn write_ret(thread: &mut VmGreenThread, k: usize, v: &V) {{").unwrap();
    writeln!(g, "    match k {{").unwrap();
    for (k, sig) in sigs().iter().enumerate() {
        match &sig.ret {
            Ty::Unit => writeln!(g, "        {k} => HostFunctionRet::F{k:02}.into_vm(thread),").unwrap(),
            Ty::Tup(ts) => {
                let parts: Vec<String> = (0..ts.len()).map(|j| format!("<{}>::from_v(&f[{j}])", rust_ty(&ts[j]))).collect();
                writeln!(g, "        {k} => {{ let V::Tup(f) = v else {{ panic!(\"tuple expected\") }}; HostFunctionRet::F{k:02}({}).into_vm(thread) }}", parts.join(", ")).unwrap();
            }
            t => writeln!(g, "        {k} => HostFunctionRet::F{k:02}(<{}>::from_v(v)).into_vm(thread),", rust_ty(t)).unwrap(),
        }
    }
    writeln!(g, "        _ => panic!(\"unknown host function\"),").unwrap();
    writeln!(g, "    }}\n}}").unwrap();
    writeln!(g, "pub fn answer_print(thread: &mut VmGreenThread) {{ HostFunctionRet::PrintString.into_vm(thread) }}").unwrap();
    std::fs::write(out.join("glue.rs"), g).unwrap();
}
