//! Seeded allocation histories on the real Arena, interpreted by Miri (alignment, bounds,
//! use of freed or uninitialised memory are all checked by the interpreter).  Each history is
//! announced on stderr before it runs so that a UB report names its input.
use miri_utils::*;
use utils::arena::Arena;

#[derive(PartialEq, Clone, Copy)]
#[repr(align(16))]
struct A16([u8; 16]);
#[derive(PartialEq, Clone, Copy)]
#[repr(align(32))]
struct A32([u8; 40]);
#[derive(PartialEq, Clone, Copy)]
#[repr(align(64))]
struct A64([u8; 64]);
#[derive(PartialEq, Clone, Copy)]
#[repr(align(16))]
struct Z16;

const NAMES: [&str; 13] =
    ["u8", "u16", "u32", "u64", "u128", "unit", "b3", "b13", "b300", "a16", "a32", "a64", "z16"];

fn main() {
    let seed = env_u64("VERIF_MIRI_SEED", 1);
    let ncases = env_u64("VERIF_MIRI_CASES", 20);
    let mut rng = Rng::new(seed);
    let mut total = 0u64;
    for c in 0..ncases {
        let cap = [0usize, 1, 7, 8, 16, 31, 100][rng.below(7) as usize];
        let n = 1 + rng.below(25) as usize;
        let ops: Vec<(usize, u64)> = (0..n).map(|_| (rng.below(13) as usize, rng.next())).collect();
        let names: Vec<&str> = ops.iter().map(|(k, _)| NAMES[*k]).collect();
        eprintln!("HISTORY {c}: Arena::with_capacity({cap}); alloc of {names:?}");
        let arena = Arena::with_capacity(cap);
        let mut checks: Vec<Box<dyn Fn() -> bool + '_>> = vec![];
        for &(k, s) in &ops {
            macro_rules! put {
                ($v:expr) => {{
                    let v = $v;
                    let r = arena.alloc(v);
                    checks.push(Box::new(move || *r == v));
                }};
            }
            match k {
                0 => put!(s as u8),
                1 => put!(s as u16),
                2 => put!(s as u32),
                3 => put!(s),
                4 => put!((s as u128) << 64 | s as u128),
                5 => put!(()),
                6 => put!([s as u8; 3]),
                7 => put!([s as u8; 13]),
                8 => put!([s as u8; 300]),
                9 => put!(A16([s as u8; 16])),
                10 => put!(A32([s as u8; 40])),
                11 => put!(A64([s as u8; 64])),
                _ => put!(Z16),
            }
            total += 1;
        }
        // stability: everything still reads back
        for (i, ch) in checks.iter().enumerate() {
            assert!(ch(), "history {c}: value #{i} changed");
        }
    }
    println!("arena_miri: {ncases} histories, {total} allocations, no undefined behaviour reported (seed {seed})");
}
