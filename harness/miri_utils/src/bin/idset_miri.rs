//! Seeded operation histories over several live IdSets (String and i64), interpreted by Miri:
//! any dereference of a dangling pointer, use of freed memory or double free is reported.  Each
//! history is announced on stderr before it runs so that a UB report names its input.  The answers
//! are also compared with a vector reference.
use miri_utils::*;
use utils::id_set::IdSet;

trait V: std::hash::Hash + Eq + Clone + std::fmt::Debug {
    fn make(k: u64) -> Self;
}
impl V for String {
    fn make(k: u64) -> Self {
        if k == 0 { String::new() } else { format!("v{}", "x".repeat(k as usize % 5)) + &k.to_string() }
    }
}
impl V for i64 {
    fn make(k: u64) -> Self {
        (k as i64) * 1_000_003 - 7
    }
}

fn history<T: V>(rng: &mut Rng, c: u64, name: &str) -> u64 {
    let n = 4 + rng.below(30);
    let mut script: Vec<String> = vec![];
    let mut sets: Vec<Option<(IdSet<T>, Vec<T>)>> = vec![Some((IdSet::new(), vec![]))];
    // generate first (so the whole history can be printed before it is executed)
    let mut ops: Vec<(u64, usize, u64)> = vec![];
    let mut live: Vec<usize> = vec![0];
    let mut total = 1usize;
    for _ in 0..n {
        if live.is_empty() {
            ops.push((9, 0, 0));
            live.push(total);
            total += 1;
            continue;
        }
        let h = live[rng.below(live.len() as u64) as usize];
        let k = rng.below(9);
        let op = rng.below(20);
        match op {
            0..=8 => ops.push((0, h, k)),
            9..=10 => ops.push((1, h, k)),
            11 => ops.push((2, h, k)),
            12 => ops.push((3, h, 0)),
            13..=15 => {
                ops.push((4, h, 0));
                live.push(total);
                total += 1;
                // clone, then drop or clear the original, then use the clone
                let c2 = total - 1;
                if rng.below(2) == 0 {
                    ops.push((5, h, 0));
                    live.retain(|&x| x != h);
                } else {
                    ops.push((6, h, 0));
                }
                ops.push((1, c2, k));
                ops.push((0, c2, k));
                ops.push((2, c2, 0));
                ops.push((3, c2, 0));
            }
            16 => {
                ops.push((5, h, 0));
                live.retain(|&x| x != h);
            }
            17 => ops.push((6, h, 0)),
            18 => {
                ops.push((7, h, 0));
                live.retain(|&x| x != h);
            }
            _ => {
                ops.push((9, 0, 0));
                live.push(total);
                total += 1;
            }
        }
    }
    for &(o, h, k) in &ops {
        script.push(match o {
            0 => format!("ins:{h}:{k}"),
            1 => format!("get:{h}:{k}"),
            2 => format!("idx:{h}:{k}"),
            3 => format!("iter:{h}"),
            4 => format!("clone:{h}"),
            5 => format!("drop:{h}"),
            6 => format!("clear:{h}"),
            7 => format!("into:{h}"),
            _ => "new".to_string(),
        });
    }
    eprintln!("HISTORY {c}: IdSet<{name}> [new {}]", script.join(" "));
    for &(o, h, k) in &ops {
        match o {
            0 => {
                let (s, r) = sets[h].as_mut().unwrap();
                let v = T::make(k);
                let id = s.insert(v.clone());
                let rid = match r.iter().position(|x| *x == v) {
                    Some(i) => i,
                    None => {
                        r.push(v);
                        r.len() - 1
                    }
                };
                assert_eq!(id as usize, rid);
            }
            1 => {
                let (s, r) = sets[h].as_ref().unwrap();
                let v = T::make(k);
                assert_eq!(s.try_get_id(&v).map(|x| x as usize), r.iter().position(|x| *x == v));
                assert_eq!(s.contains(&v), r.contains(&v));
            }
            2 => {
                let (s, r) = sets[h].as_ref().unwrap();
                if (k as usize) < r.len() {
                    assert_eq!(s[k as u32], r[k as usize]);
                }
                assert_eq!(s.len(), r.len());
            }
            3 => {
                let (s, r) = sets[h].as_ref().unwrap();
                let got: Vec<T> = s.iter().cloned().collect();
                assert_eq!(&got, r);
            }
            4 => {
                let (s, r) = sets[h].as_ref().unwrap();
                let c = (s.clone(), r.clone());
                sets.push(Some(c));
            }
            5 => {
                sets[h] = None;
            }
            6 => {
                let (s, r) = sets[h].as_mut().unwrap();
                s.clear();
                r.clear();
            }
            7 => {
                let (s, r) = sets[h].take().unwrap();
                let got: Vec<T> = s.into_iter().collect();
                assert_eq!(got, r);
            }
            _ => sets.push(Some((IdSet::new(), vec![]))),
        }
    }
    ops.len() as u64
}

fn main() {
    let seed = env_u64("VERIF_MIRI_SEED", 1);
    let ncases = env_u64("VERIF_MIRI_CASES", 20);
    let mut rng = Rng::new(seed);
    let mut total = 0;
    for c in 0..ncases {
        if c % 2 == 0 {
            total += history::<String>(&mut rng, c, "String");
        } else {
            total += history::<i64>(&mut rng, c, "i64");
        }
    }
    println!("idset_miri: {ncases} histories, {total} operations, no undefined behaviour reported (seed {seed})");
}
