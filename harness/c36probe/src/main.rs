#![allow(dead_code, unused_imports)]
// the embedding of /repo/e2e_tests/test_host_funcs: a private module, glob-imported at the crate root
#[cfg(feature = "alias")]
mod generated {
    include!(concat!(env!("OUT_DIR"), "/gen_alias/mod.rs"));
}
#[cfg(feature = "same")]
mod generated {
    include!(concat!(env!("OUT_DIR"), "/gen_same/mod.rs"));
}
#[cfg(any(feature = "alias", feature = "same"))]
use generated::*;
fn main() {}
