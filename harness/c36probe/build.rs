use std::path::PathBuf;
fn main() {
    println!("cargo:rerun-if-changed=build.rs");
    println!("cargo:rerun-if-changed=abra_alias");
    println!("cargo:rerun-if-changed=abra_same");
    let out = PathBuf::from(std::env::var("OUT_DIR").unwrap());
    let root = PathBuf::from(std::env::var("CARGO_MANIFEST_DIR").unwrap());
    for name in ["alias", "same"] {
        let dst = out.join(format!("gen_{name}"));
        std::fs::create_dir_all(&dst).unwrap();
        let provider = abra_core::OsFileProvider::single_dir(root.join(format!("abra_{name}")));
        if let Err(e) = abra_core::generate_host_function_enum("host.abra", provider, &dst) {
            panic!("generate_host_function_enum failed for {name}: {e}");
        }
    }
}
