//! Coverage-guided template families of C01/C02/C03/C19/C23 (included with `#[path]`; see work/cov/gaps_A.md, gaps_B.md).
//! The constructs below are outside the generator AST / `Abra.Sem` (interfaces, intrinsics by name, channels, namespaces,
//! size limits, diagnostics), so each family carries its own oracle, written in Rust from the language reference
//! (book/src/language_reference): the expected standard output, the expected runtime error kind, or "a diagnostic".
//! Every program is compiled and run by the real implementation under every step budget; any difference — and any host
//! panic or `internal` error — is a failing input (`spec_fail` with the source).  Nothing here is adaptive or gated.
#![allow(dead_code)]
use vh::*;

#[derive(Clone, Debug)]
pub enum Expect {
    /// the program finishes with exactly this standard output
    Out(String),
    /// the program stops with a runtime error of this kind after printing exactly this
    Err(&'static str, String),
    /// the program is rejected with diagnostics; every listed substring occurs in them
    Reject(Vec<&'static str>),
}

#[derive(Clone, Debug)]
pub struct Tpl {
    pub name: String,
    /// hist key
    pub family: &'static str,
    pub props: &'static [&'static str],
    pub files: Vec<(String, String)>,
    pub src: String,
    pub expect: Expect,
    /// compile time of seconds: run under one budget only
    pub heavy: bool,
}

fn tpl(name: impl Into<String>, family: &'static str, props: &'static [&'static str], src: impl Into<String>, expect: Expect) -> Tpl {
    Tpl { name: name.into(), family, props, files: vec![], src: src.into(), expect, heavy: false }
}

fn show_arr(v: &[i64]) -> String {
    if v.is_empty() { "[]".into() } else { format!("[ {} ]", v.iter().map(|x| x.to_string()).collect::<Vec<_>>().join(", ")) }
}

// ------------------------------------------------------------------------------------------------
// C03: `g[i] op= v` through a user `Index` implementation (translate_bytecode 2639-2683, fix 33617bc):
// container and index are evaluated once, in the order container, index, index_get, right-hand side, index_set
// ------------------------------------------------------------------------------------------------
pub fn index_compound(rng: &mut Rng, n: usize) -> Vec<Tpl> {
    let mut v = vec![];
    for k in 0..n {
        let w = 2 + rng.below(2) as usize;
        let h = 1 + rng.below(2) as usize;
        let mut cells: Vec<i64> = (0..w * h).map(|_| rng.range(1, 40)).collect();
        let init = cells.clone();
        let (ir, ic) = (rng.below(h as u64) as usize, rng.below(w as u64) as usize);
        let rk = rng.range(1, 9);
        let mut body = String::new();
        let mut exp = String::new();
        let steps = 3 + rng.below(4);
        for _ in 0..steps {
            let form = rng.below(4);
            let (r, c, kval) = if form == 0 || form == 3 { (rng.below(h as u64) as usize, rng.below(w as u64) as usize, rng.range(1, 9)) } else { (ir, ic, rk) };
            // `mk()[..]` works on a fresh grid: its cells are the initial ones and the update is lost
            let fresh = form == 2;
            let cur = if fresh { init[r * w + c] } else { cells[r * w + c] };
            let ops: &[&str] = if cur >= 0 { &["+=", "-=", "*=", "/=", "%="] } else { &["+=", "-=", "*="] };
            let op = *rng.pick(ops);
            let newv = match op {
                "+=" => cur + kval,
                "-=" => cur - kval,
                "*=" => cur * kval,
                "/=" => cur / kval,
                _ => cur % kval,
            };
            match form {
                0 => {
                    body.push_str(&format!("g[({r}, {c})] {op} {kval}\n"));
                    exp.push_str(&format!("get {r},{c}\nset {r},{c} := {newv}\n"));
                }
                1 => {
                    body.push_str(&format!("g[ix()] {op} rhs()\n"));
                    exp.push_str(&format!("ix\nget {r},{c}\nrhs\nset {r},{c} := {newv}\n"));
                }
                2 => {
                    body.push_str(&format!("mk()[ix()] {op} rhs()\n"));
                    exp.push_str(&format!("mk\nix\nget {r},{c}\nrhs\nset {r},{c} := {newv}\n"));
                }
                _ => {
                    // as the last-but-one statement of a block that is itself an operand
                    body.push_str(&format!("println(100 + {{ g[({r}, {c})] {op} {kval}\n 1 }})\n"));
                    exp.push_str(&format!("get {r},{c}\nset {r},{c} := {newv}\n101\n"));
                }
            }
            if !fresh {
                cells[r * w + c] = newv;
            }
        }
        let cs = init.iter().map(|x| x.to_string()).collect::<Vec<_>>().join(", ");
        let src = format!(
            "type Grid = {{ cells: array<int>, w: int }}\n\
             implement Index for Grid {{\n    fn index_get(self, idx: (int, int)) -> int {{\n        let (r, c) = idx\n        println(\"get \" .. r .. \",\" .. c)\n        self.cells[r * self.w + c]\n    }}\n\
             \x20   fn index_set(self, idx: (int, int), val: int) -> void {{\n        let (r, c) = idx\n        println(\"set \" .. r .. \",\" .. c .. \" := \" .. val)\n        self.cells[r * self.w + c] = val\n    }}\n}}\n\
             fn mk() -> Grid {{\n    println(\"mk\")\n    Grid([{cs}], {w})\n}}\n\
             fn ix() -> (int, int) {{\n    println(\"ix\")\n    ({ir}, {ic})\n}}\n\
             fn rhs() -> int {{\n    println(\"rhs\")\n    {rk}\n}}\n\
             let g = Grid([{cs}], {w})\n{body}println(g.cells)\n"
        );
        exp.push_str(&format!("{}\n", show_arr(&cells)));
        v.push(tpl(format!("index-compound#{k}"), "index-compound", &["C03"], src, Expect::Out(exp)));
    }
    v
}

// ------------------------------------------------------------------------------------------------
// C02: calls with more than CallData::MAX_NARGS = 31 arguments (PushAddr/MakeClosure/CallFuncObj), in the forms the
// generator AST has no node for: generic function, member function, function value, inside a lambda
// ------------------------------------------------------------------------------------------------
pub fn wide_calls(rng: &mut Rng, n: usize) -> Vec<Tpl> {
    let mut v = vec![];
    for k in 0..n {
        let np = *rng.pick(&[31usize, 32, 33, 40, 64]);
        // kinds: 0 int, 1 string, 2 void
        let kinds: Vec<u8> = (0..np).map(|i| if i == 0 { 0 } else { *rng.pick(&[0u8, 0, 0, 1, 2]) }).collect();
        let ints: Vec<i64> = (0..np).map(|_| rng.range(-9, 30)).collect();
        let params = kinds.iter().enumerate().map(|(i, k)| format!("a{i}: {}", ["int", "string", "void"][*k as usize])).collect::<Vec<_>>().join(", ");
        let sum_src = kinds.iter().enumerate().filter(|(_, k)| **k == 0).map(|(i, _)| format!("a{i} * {}", i + 1)).collect::<Vec<_>>().join(" + ");
        let cat_src = kinds.iter().enumerate().filter(|(_, k)| **k == 1).map(|(i, _)| format!(" .. a{i}")).collect::<String>();
        let args = kinds.iter().enumerate().map(|(i, k)| match k { 0 => format!("{}", ints[i]), 1 => format!("\"s{i}\""), _ => "nil".to_string() }).collect::<Vec<_>>().join(", ");
        let sum: i64 = kinds.iter().enumerate().filter(|(_, k)| **k == 0).map(|(i, _)| ints[i] * (i as i64 + 1)).sum();
        let cat: String = kinds.iter().enumerate().filter(|(_, k)| **k == 1).map(|(i, _)| format!("s{i}")).collect();
        let form = k % 5;
        let (decl, call) = match form {
            0 => (format!("fn big({params}) -> string {{\n    \"\" .. ({sum_src}){cat_src}\n}}\n"), format!("println(big({args}))\n")),
            // through a function value, with an operand pending
            1 => (format!("fn big({params}) -> string {{\n    \"\" .. ({sum_src}){cat_src}\n}}\n"), format!("let f = big\nprintln(\"v:\" .. f({args}))\n")),
            // inside a lambda
            2 => (format!("fn big({params}) -> string {{\n    \"\" .. ({sum_src}){cat_src}\n}}\n"), format!("let h = (z: int) -> big({args}) .. z\nprintln(h(7))\n")),
            // member function: one more parameter (`self`)
            3 => (
                format!("type Box = {{ q: int }}\nextend Box {{\n    fn big(self, {params}) -> string {{\n        \"\" .. ({sum_src} + self.q){cat_src}\n    }}\n}}\n"),
                format!("let b = Box(1000)\nprintln(b.big({args}))\n"),
            ),
            // generic in its first parameter
            _ => (
                format!("fn big(g: T ToString, {params}) -> string {{\n    g .. \":\" .. ({sum_src}){cat_src}\n}}\n"),
                format!("println(big(true, {args}))\nprintln(big(\"x\", {args}))\n"),
            ),
        };
        let exp = match form {
            0 => format!("{sum}{cat}\n"),
            1 => format!("v:{sum}{cat}\n"),
            2 => format!("{sum}{cat}7\n"),
            3 => format!("{}{cat}\n", sum + 1000),
            _ => format!("true:{sum}{cat}\nx:{sum}{cat}\n"),
        };
        v.push(tpl(format!("wide-call#{k} ({np} parameters, form {form})"), "wide-call", &["C02"], decl + &call, Expect::Out(exp)));
    }
    v
}

// ------------------------------------------------------------------------------------------------
// C01: the byte intrinsics; an index outside 0..len is the documented array-out-of-bounds error (fix 8882383)
// ------------------------------------------------------------------------------------------------
pub fn byte_intrinsics(rng: &mut Rng, n: usize) -> Vec<Tpl> {
    let mut v = vec![];
    let pool = ["abc", "héllo", "", "z", "日本", "a b\tc", "ÿ"];
    for k in 0..n {
        let s = *rng.pick(&pool);
        let bytes = s.as_bytes();
        let len = bytes.len() as i64;
        let mut body = String::new();
        let mut out = String::new();
        let mut failed = false;
        body.push_str(&format!("let s = {s:?}\nlet f = string_nth_byte\nprintln(string_count_bytes(s))\n"));
        out.push_str(&format!("{len}\n"));
        let lines = 2 + rng.below(4);
        for j in 0..lines {
            // mostly in range, the last line mostly out of range
            let i = if j + 1 == lines && rng.chance(3, 4) { *rng.pick(&[len, len + 1, -1, -7, i64::MAX, i64::MIN]) } else if len > 0 { rng.below(len as u64) as i64 } else { 0 };
            let ok = i >= 0 && i < len;
            let lit = if i < 0 { format!("({i})") } else { format!("{i}") };
            // i64::MIN has no literal: compute it
            let lit = if i == i64::MIN { "(-9223372036854775807 - 1)".to_string() } else { lit };
            let form = rng.below(4);
            body.push_str(&match form {
                0 => format!("println(string_nth_byte(s, {lit}))\n"),
                1 => format!("println(f(s, {lit}))\n"),
                // in operand position: a value is pending when the intrinsic fails
                2 => format!("println(1000 + string_nth_byte(s .. \"\", {lit}))\n"),
                _ => format!("println([f(s, {lit}), 1].len())\n"),
            });
            if failed {
                continue;
            }
            if ok {
                let b = bytes[i as usize] as i64;
                out.push_str(&match form {
                    0 | 1 => format!("{b}\n"),
                    2 => format!("{}\n", 1000 + b),
                    _ => "2\n".to_string(),
                });
            } else {
                failed = true;
            }
        }
        body.push_str("println(\"end\")\n");
        let expect = if failed { Expect::Err("oob", out) } else { Expect::Out(out + "end\n") };
        v.push(tpl(format!("byte-intrinsic#{k}"), "byte-intrinsic", &["C01"], body, expect));
    }
    v
}

// ------------------------------------------------------------------------------------------------
// C23: `?` whose operand and enclosing return type are different Try types (error_handling.md: "The enclosing
// function must return a compatible type", "`?` works with `option` too, but the enclosing function must return an
// `option`"): accepted exactly when both are options, or both are results with the same error type
// ------------------------------------------------------------------------------------------------
/// (template, operand family, return family) — families in the spelling of the Lean driver op `trycompat`
pub fn try_mixed_cases() -> Vec<(Tpl, String, String)> {
    // (operand type, operand value, class, propagated text or "" when the operand is present)
    let operands: [(&str, &str, &str, &str); 8] = [
        ("option<int>", ".some(1)", "option", ""),
        ("option<int>", ".none", "option", "none"),
        ("option<void>", ".some(nil)", "option", ""),
        ("option<string>", ".none", "option", "none"),
        ("result<int, string>", ".ok(1)", "result:string", ""),
        ("result<int, string>", ".err(\"e\")", "result:string", "err(e)"),
        ("result<void, int>", ".err(7)", "result:int", "err(7)"),
        ("result<string, int>", ".ok(\"p\")", "result:int", ""),
    ];
    // (return type, final value, printed, class)
    let rets: [(&str, &str, &str, &str); 7] = [
        ("option<int>", ".some(2)", "some(2)", "option"),
        ("option<string>", ".some(\"s\")", "some(s)", "option"),
        ("result<int, string>", ".ok(2)", "ok(2)", "result:string"),
        ("result<string, string>", ".ok(\"s\")", "ok(s)", "result:string"),
        ("result<int, int>", ".ok(2)", "ok(2)", "result:int"),
        ("int", "2", "2", "plain"),
        ("void", "nil", "nil", "plain"),
    ];
    let mut v = vec![];
    for (oi, (oty, oval, ocls, prop)) in operands.iter().enumerate() {
        for (ri, (rty, rval, rshow, rcls)) in rets.iter().enumerate() {
            for form in 0..2 {
                let accepted = ocls == rcls;
                let (src, after) = if form == 0 {
                    (
                        format!("fn src() -> {oty} {{\n    {oval}\n}}\nfn f() -> {rty} {{\n    let x = src()?\n    println(\"after\")\n    {rval}\n}}\nprintln(f())\nprintln(\"end\")\n"),
                        "after\n",
                    )
                } else {
                    // `?` in operand position inside a lambda: the lambda is the enclosing function
                    (
                        format!("fn src() -> {oty} {{\n    {oval}\n}}\nfn f() -> {rty} {{\n    println(\"f\")\n    {rval}\n}}\nlet g: int -> {rty} = (k: int) -> {{\n    let x = (k, src()?)\n    println(\"after\")\n    f()\n}}\nprintln(g(1))\nprintln(\"end\")\n"),
                        "after\nf\n",
                    )
                };
                let expect = if !accepted {
                    Expect::Reject(vec![])
                } else if prop.is_empty() {
                    Expect::Out(format!("{after}{rshow}\nend\n"))
                } else {
                    Expect::Out(format!("{prop}\nend\n"))
                };
                v.push((
                    tpl(format!("try-mixed operand#{oi} {oty} / return#{ri} {rty} / form {form}"), if accepted { "try-mixed:accepted" } else { "try-mixed:rejected" }, &["C23"], src, expect),
                    ocls.to_string(),
                    rcls.to_string(),
                ));
            }
        }
    }
    v
}

pub fn try_mixed() -> Vec<Tpl> {
    try_mixed_cases().into_iter().map(|(t, _, _)| t).collect()
}

// ------------------------------------------------------------------------------------------------
// C19: a lambda that uses a variable holding a NAMED function value (intrinsic, top-level function, struct
// constructor, `channel`) captures the value at creation: reassigning the variable afterwards is not seen
// ------------------------------------------------------------------------------------------------
pub fn captured_fn_values(rng: &mut Rng, n: usize) -> Vec<Tpl> {
    let fns: [(&str, fn(i64, i64) -> i64); 6] = [
        ("add_int", |a, b| a + b),
        ("subtract_int", |a, b| a - b),
        ("multiply_int", |a, b| a * b),
        ("plus", |a, b| a + b + 100),
        ("times", |a, b| a * b + 100),
        ("((p: int, q: int) -> p - q - 1)", |a, b| a - b - 1),
    ];
    let mut v = vec![];
    for k in 0..n {
        let (i1, i2) = (rng.below(6) as usize, rng.below(6) as usize);
        let (kk, x) = (rng.range(1, 9), rng.range(-5, 20));
        let ((n1, f1), (n2, f2)) = (fns[i1], fns[i2]);
        let src = format!(
            "fn plus(a: int, b: int) -> int {{\n    a + b + 100\n}}\nfn times(a: int, b: int) -> int {{\n    a * b + 100\n}}\n\
             type Pt = {{ x: int, y: int }}\nfn swapped(a: int, b: int) -> Pt {{\n    Pt(b, a)\n}}\n\
             var f = {n1}\nlet h = (a: int) -> f(a, {kk})\nlet hh = () -> (b: int) -> 1 + h(b)\nf = {n2}\nprintln(h({x}))\nprintln(f({x}, {kk}))\nprintln(hh()({x}))\n\
             var mk = Pt\nlet m = (a: int) -> mk(a, {kk}).x\nmk = swapped\nprintln(m({x}))\nprintln(mk({x}, {kk}).x)\n\
             let fs = [{n1}, {n2}]\nlet pick = (i: int) -> fs[i]({x}, {kk})\nprintln(pick(0) - pick(1))\n"
        );
        let exp = format!("{}\n{}\n{}\n{}\n{}\n{}\n", f1(x, kk), f2(x, kk), 1 + f1(x, kk), x, kk, f1(x, kk) - f2(x, kk));
        v.push(tpl(format!("captured-fn-value#{k} {n1} then {n2}"), "captured-fn-value", &["C19"], src, Expect::Out(exp)));
    }
    v
}

// ------------------------------------------------------------------------------------------------
// size limits (fix 9e990e2, D90 bc98586, D93 567a3fd): a frame of up to 32767 slots compiles and runs, also beyond the
// 15-bit register operand; one more is a diagnostic that names a real line
// ------------------------------------------------------------------------------------------------
pub fn size_limits(quick: bool) -> Vec<Tpl> {
    let locals = |n: usize| {
        let mut s = String::with_capacity(n * 24);
        s.push_str("let x0 = 1\n");
        for i in 1..n {
            s.push_str(&format!("let x{i} = x{} + 1\n", i - 1));
        }
        s.push_str(&format!("println(x{})\nprintln(x0 + x{})\n", n - 1, n / 2));
        s
    };
    let mut v = vec![];
    let ns: &[usize] = if quick { &[16383, 16385, 32767] } else { &[16383, 16384, 16385, 17000, 20000, 32766, 32767] };
    for &n in ns {
        let mut t = tpl(format!("locals-{n}"), "size-limit", &["C03", "C01"], locals(n), Expect::Out(format!("{n}\n{}\n", 1 + n / 2 + 1)));
        t.heavy = true;
        v.push(t);
    }
    let mut t = tpl("locals-32768", "size-limit", &["C03"], locals(32768), Expect::Reject(vec!["too many local variables: 32768, the limit is 32767", "main.abra:1: too many"]));
    t.heavy = true;
    v.push(t);
    // parameters: the frame of the callee holds them
    let params = |n: usize| {
        let ps = (0..n).map(|i| format!("a{i}: int")).collect::<Vec<_>>().join(", ");
        let args = (0..n).map(|i| format!("{}", i % 7)).collect::<Vec<_>>().join(", ");
        format!("fn big({ps}) -> int {{\n  a0 + a{} + a{}\n}}\nprintln(big({args}))\n", n - 1, n / 2)
    };
    if !quick {
        let n = 32767;
        let mut t = tpl("params-32767", "size-limit", &["C03"], params(n), Expect::Out(format!("{}\n", (n - 1) % 7 + (n / 2) % 7)));
        t.heavy = true;
        v.push(t);
        let mut t = tpl("params-32768", "size-limit", &["C03"], params(32768), Expect::Reject(vec!["too many parameters: 32768, the limit is 32767", "too many arguments: 32768, the limit is 32767"]));
        t.heavy = true;
        v.push(t);
    }
    // captures: every local of the enclosing frame captured by one lambda
    let captures = |n: usize| {
        let mut s = String::new();
        for i in 0..n {
            s.push_str(&format!("let c{i} = {}\n", i % 5));
        }
        let sum = (0..n).map(|i| format!("c{i}")).collect::<Vec<_>>().join(" + ");
        s.push_str(&format!("let f = (z: int) -> z + {sum}\nprintln(f(1))\n"));
        s
    };
    let n = if quick { 300 } else { 3000 };
    v.push(tpl(format!("captures-{n}"), "size-limit", &["C03", "C19"], captures(n), Expect::Out(format!("{}\n", 1 + (0..n).map(|i| (i % 5) as i64).sum::<i64>()))));
    // wide tuple / struct / variant / array literal
    // (the checker is super-linear in the width: 5000 elements take 20 s and 1.7 GB)
    let n = if quick { 300 } else { 2000 };
    let elems = (0..n).map(|i| format!("{}", i % 9)).collect::<Vec<_>>().join(", ");
    let pat = (0..n).map(|i| if i == n - 1 { "z".to_string() } else { "_".to_string() }).collect::<Vec<_>>().join(", ");
    v.push(tpl(format!("tuple-{n}"), "size-limit", &["C03"], format!("let t = ({elems})\nlet ({pat}) = t\nprintln(z)\n"), Expect::Out(format!("{}\n", (n - 1) % 9))));
    let fields = (0..n).map(|i| format!("f{i}: int")).collect::<Vec<_>>().join(", ");
    v.push(tpl(
        format!("struct-{n}"),
        "size-limit",
        &["C03"],
        format!("type Wide = {{ {fields} }}\nlet w = Wide({elems})\nw.f{} = w.f{} + 10\nprintln(w.f{})\n", n - 1, n - 2, n - 1),
        Expect::Out(format!("{}\n", (n - 2) % 9 + 10)),
    ));
    let tys = (0..n).map(|_| "int").collect::<Vec<_>>().join(", ");
    v.push(tpl(
        format!("variant-{n}"),
        "size-limit",
        &["C03"],
        format!("type Vw = Aa({tys}) | Bb\nlet w = Vw.Aa({elems})\nmatch w {{\n  .Aa({pat}) -> println(z)\n  .Bb -> println(\"b\")\n}}\n"),
        Expect::Out(format!("{}\n", (n - 1) % 9)),
    ));
    if !quick {
        // ConstructArray counts with 16 bits: a longer literal is built from 65535 elements plus pushes
        let n = 70000;
        let elems = (0..n).map(|i| format!("{}", i % 9)).collect::<Vec<_>>().join(", ");
        let mut t = tpl("array-70000", "size-limit", &["C03"], format!("let t = [{elems}]\nprintln(t.len())\nprintln(t[{}] + t[65535])\n", n - 1), Expect::Out(format!("70000\n{}\n", (n - 1) % 9 + 65535 % 9)));
        t.heavy = true;
        v.push(t);
    }
    v
}

// ------------------------------------------------------------------------------------------------
// fixed programs: first-class uses of builtin / intrinsic / qualified names, void in the remaining positions, and
// the regression programs of the defects repaired in /repo that fall into C01/C02/C03/C19/C23
// ------------------------------------------------------------------------------------------------
const HELPER_NS: &str = "fn twice(x: int) -> int = x * 2\nfn greet() -> string = \"hi\"\ntype Shade = Dark | Light(int)\ntype Pt = { x: int, y: int }\nfn sub(a: int, b: int = 1) -> int = a - b\n";

pub fn fixed() -> Vec<Tpl> {
    let out = |s: &str| Expect::Out(s.to_string());
    let mut v = vec![
        // ---- function values of builtin names (A_07, A_10, D88, D89, A_08)
        tpl(
            "channel-as-value",
            "fn-value",
            &["C03", "C19"],
            "fn apply(f) -> channel<int> {\n    f()\n}\nlet mk = channel\nlet c: channel<int> = mk()\nlet d = apply(channel)\nlet g = () -> mk\nlet e: channel<int> = g()()\ntask {\n    c.write(7)\n    d.write(8)\n    e.write(9)\n}\nprintln(c.read())\nprintln(d.read())\nprintln(e.read())\n",
            out("7\n8\n9\n"),
        ),
        tpl(
            "D88 intrinsic-values-at-several-element-types",
            "fn-value",
            &["C03", "C19", "C01"],
            "let xs = [10, 20, 30]\nlet st = array_set\nst(xs, 0, -1)\nprintln(xs)\nlet vs: array<void> = [nil, nil]\nlet sv = array_set\nsv(vs, 1, nil)\nprintln(vs.len())\nlet ss = [\"a\", \"b\"]\nlet gs = array_get\nprintln(gs(ss, 1))\nlet gi = array_get\nprintln(gi(xs, 2))\nlet gv = array_get\nprintln(gv(vs, 0))\nlet f = add_int\nlet h = (a: int) -> f(a, 1) + gi(xs, 1)\nprintln(h(5))\nlet ps = array_push\nps(ss, \"c\")\nlet pi = array_push\npi(xs, 40)\nlet ln = array_length\nlet ln2 = array_length\nprintln(ln(ss) + ln2(xs))\nlet po = array_pop\nprintln(po(xs))\nlet fs = [add_int, multiply_int, subtract_int]\nprintln(fs[1](6, 7))\nlet cmp = less_than_string\nprintln(cmp(\"ab\", \"b\"))\nlet k = (s: string) -> string_count_bytes(s) + f(1, 1)\nprintln(k(\"héllo\"))\nlet cat = concat_strings\nprintln(cat(\"x\", \"y\"))\n",
            out("[ -1, 20, 30 ]\n2\nb\n30\nnil\n26\n7\n40\n42\ntrue\n8\nxy\n"),
        ),
        tpl(
            "intrinsics-called-by-name",
            "fn-value",
            &["C03", "C01"],
            "println(add_int(2, 3))\nprintln(multiply_int(4, 5))\nprintln(divide_int(17, 5))\nprintln(power_int(2, 10))\nprintln(greater_than_or_equal_int(3, 3))\nprintln(equal_int(3, 4))\nprintln(equal_string(\"a\", \"a\"))\nlet xs = [10, 20, 30]\nprintln(array_get(xs, 1))\narray_set(xs, 1, 99)\nprintln(xs)\nlet vs: array<void> = [nil, nil]\narray_set(vs, 0, nil)\nprintln(array_get(vs, 1))\nprintln(vs.len())\nprintln(10 + array_get(xs, 3))\n",
            Expect::Err("oob", "5\n20\n3\n1024\ntrue\nfalse\ntrue\n20\n[ 10, 99, 30 ]\nnil\n2\n".to_string()),
        ),
        tpl(
            "D89 channel-intrinsics-on-channel-of-void",
            "fn-value",
            &["C03", "C01"],
            "fn f(c: channel<void>) -> int {\n    let a = 1\n    channel_read(c)\n    let b = 2\n    channel_read(c)\n    a + b\n}\nlet c: channel<void> = channel()\ntask {\n    channel_write(c, nil)\n    channel_write(c, nil)\n}\nprintln(f(c))\nlet ci: channel<int> = channel()\nlet w = channel_write\nlet r = channel_read\ntask {\n    w(ci, 5)\n}\nprintln(r(ci) + 1)\n",
            out("3\n6\n"),
        ),
        // ---- void struct field as assignment target (A_04): the right-hand side runs first, then the object
        tpl(
            "void-struct-field-target",
            "void-field",
            &["C02", "C01"],
            "type Rec = {\n  n: int\n  tag: void\n}\ntype Gen<T> = {\n  v: T\n  k: int\n}\nfn eff() -> void {\n  println(\"eff\")\n}\nfn mk() -> Rec {\n  println(\"mk\")\n  Rec(1, nil)\n}\nlet r = Rec(1, nil)\nr.tag = eff()\nmk().tag = eff()\nr.n = 5\nprintln(r.n)\nlet g: Gen<void> = Gen(nil, 3)\ng.v = eff()\ng.k += 1\nprintln(g.k)\nlet s = 10 + { r.tag = eff()\n r.n }\nprintln(s)\n",
            out("eff\neff\nmk\n5\neff\n4\neff\n15\n"),
        ),
        // ---- `_` in annotations (B_10, generics.md)
        tpl(
            "wildcard-annotations",
            "hole-annotation",
            &["C02"],
            "let a: array<_> = [1, 2, 3]\nlet t: (_, string) = (1, \"s\")\nlet o: option<_> = option.some(\"x\")\nlet f: _ -> int = (x: int) -> x + 1\nlet w: _ = (true, nil)\nprintln(a)\nprintln(t)\nprintln(o)\nprintln(f(4))\nprintln(w)\n",
            out("[ 1, 2, 3 ]\n(1, s)\nsome(x)\n5\n(true, nil)\n"),
        ),
        // ---- D91: the result of an index expression called directly
        tpl(
            "D91 call-indexed-function",
            "regression",
            &["C02", "C03"],
            "fn twice(x: int) -> int = x * 2\nlet fs = [twice, twice]\nprintln(fs[1](4))\nprintln((fs[0])(5))\nlet gs = [[twice], [(a: int) -> a + 1]]\nprintln(gs[1][0](7) + fs[0](1))\n",
            out("8\n10\n10\n"),
        ),
        // ---- D86: unary minus on a user Num is a diagnostic (no compiler panic)
        tpl(
            "D86 unary-minus-on-user-Num",
            "regression",
            &["C03"],
            "type Vec = { x: int, y: int }\nimplement Num for Vec {\n    fn add(a, b) = Vec(a.x + b.x, a.y + b.y)\n    fn subtract(a, b) = Vec(a.x - b.x, a.y - b.y)\n    fn multiply(a, b) = Vec(a.x * b.x, a.y * b.y)\n    fn divide(a, b) = Vec(a.x / b.x, a.y / b.y)\n    fn power(a, b) = Vec(a.x ^ b.x, a.y ^ b.y)\n}\nlet v = Vec(10, 20)\nlet w = -v\nprintln(w.x)\n",
            Expect::Reject(vec![]),
        ),
        // ---- D87: a variant that carries data named without arguments is a diagnostic (no VM type fault)
        tpl(
            "D87 payload-variant-without-arguments",
            "regression",
            &["C01", "C03"],
            "type Msg = Quit | Say(string) | Pair(int, string)\nlet m = Msg.Say\nmatch m {\n    .Say(s) -> println(\"say \" .. s .. \"!\")\n    _ -> println(\"other\")\n}\nlet q: Msg = .Pair\nmatch q {\n    .Pair(i, s) -> println(s .. i)\n    _ -> println(\"other\")\n}\n",
            Expect::Reject(vec!["carries data"]),
        ),
        // ---- D92: an error inside the wrapper of an intrinsic used as a value
        tpl(
            "D92 wrapper-error",
            "regression",
            &["C01"],
            "fn apply(f, a, b) {\n    f(a, b)\n}\nprintln(apply(array_get, [1, 2], 1))\nprintln(apply(array_get, [1, 2], 5))\n",
            Expect::Err("oob", "2\n".to_string()),
        ),
        // ---- D96 / D97 / D98 / D99: formerly VM type faults / compiler panics of accepted programs
        tpl("D96 refutable-let-literal", "regression", &["C01"], "let (1, y) = (5, 3)\nprintln(y)\n", Expect::Reject(vec![])),
        tpl("D96 refutable-for-pattern", "regression", &["C01"], "for (true, z) in [(false, 7)] { println(z) }\n", Expect::Reject(vec![])),
        tpl(
            "D96 refutable-let-variant",
            "regression",
            &["C01"],
            "type Ee = Aa(string) | Bb\nlet (Ee.Aa(s), w) = (Ee.Bb, 3)\nprintln(w)\nprintln(s)\n",
            Expect::Reject(vec![]),
        ),
        tpl("D97 or-pattern-in-let", "regression", &["C01"], "let ((true | false), y) = (\"s\", 3)\nprintln(y)\n", Expect::Reject(vec![])),
        tpl(
            "D97 or-pattern-struct-in-let",
            "regression",
            &["C01"],
            "type Pt = { x: int }\nlet ((Pt(a) | Pt(a)), y) = (\"str\", 3)\nprintln(a)\n",
            Expect::Reject(vec![]),
        ),
        tpl(
            "D97 or-pattern-in-let-well-typed",
            "regression",
            &["C01"],
            "let ((true | false), y) = (false, 3)\nprintln(y)\nlet ((nil | nil), z) = (nil, 4)\nprintln(z)\n",
            out("3\n4\n"),
        ),
        tpl(
            "D98 output-type-of-constrained-type-variable",
            "regression",
            &["C01"],
            "fn first_int(it: T Iterator) -> int {\n    match Iterator.next(it) {\n        .some(x) -> x\n        .none -> 0\n    }\n}\nlet n = first_int([\"a\", \"b\"].make_iterator())\nprintln(n + 1)\n",
            Expect::Reject(vec![]),
        ),
        tpl(
            "D99 implement-for-function-type",
            "regression",
            &["C03"],
            "interface Foo { fn foo(self) -> int }\nimplement Foo for int -> int {\n    fn foo(self) -> int { self(2) }\n}\nfn g(x: T Foo) -> int { 100 + Foo.foo(x) }\nlet f = x -> x + 1\nprintln(Foo.foo(f))\nprintln(g(f))\nlet k = 10\nlet h = (x: int) -> x * k\nprintln(h.foo())\nprintln(g(h))\n",
            out("3\n103\n20\n120\n"),
        ),
        // ---- generic call whose argument diverges (B_22)
        tpl(
            "generic-at-never",
            "never",
            &["C01"],
            "fn id(x: T) -> T { x }\nfn boom() -> int {\n    id(panic(\"a\"))\n}\nprintln(\"before\")\nprintln(1 + boom())\n",
            Expect::Err("panic", "before\n".to_string()),
        ),
        // ---- checker/compiler panics repaired earlier (D76, D77, D80, D83, D84): accepted => compiles, or a diagnostic
        tpl("D77 match-on-diverging-scrutinee", "regression", &["C03"], "fn f() -> int {\n    match { return 5 } { _ -> 1 }\n}\nprintln(f())\n", out("5\n")),
        tpl("D76 duplicate-parameter-names", "regression", &["C03"], "fn f(a, a, b = 3) { a + b }\nprintln(f(1))\n", Expect::Reject(vec![])),
        tpl(
            "D84 for-loop-in-default-value",
            "regression",
            &["C03"],
            "fn f(b: int = { for i in [1] { }\n 2 }) -> int { b }\nprintln(f())\nprintln(f(5))\n",
            out("2\n5\n"),
        ),
        tpl(
            "D80 default-value-declaring-variables",
            "regression",
            &["C03", "C19"],
            "fn f(a: int, b: int = { let t = 3\n t + 1 }) -> int { a + b }\nprintln(f(1))\nlet g = (k: int) -> f(k) + f(k, 1)\nprintln(g(10))\n",
            out("5\n25\n"),
        ),
        tpl(
            "D83 variant-field-defaults",
            "regression",
            &["C03"],
            "fn tick(n: int) -> int { n + 1 }\ntype Col = | Rgb(r: int, g: int = tick(5)) | Gray\nmatch Col.Rgb(1) {\n    .Rgb(r, g) -> println(r + g)\n    .Gray -> println(0)\n}\n",
            out("7\n"),
        ),
        // ---- or-patterns in let / for bind through the alternative that matches (ae0a5b4; formerly a VM type fault)
        tpl(
            "D103 or-pattern-binding-in-let-and-for",
            "regression",
            &["C01"],
            "type Ee = Aa(int, int) | Bb(int)\nlet (Ee.Aa(_, _) | _) = Ee.Bb(0)\nprintln(\"ok\")\nlet (Ee.Aa(x, _) | Ee.Bb(x)) = Ee.Bb(7)\nprintln(x)\nfor (Ee.Aa(y, _) | Ee.Bb(y)) in [Ee.Aa(1, 2), Ee.Bb(3)] {\n    println(y)\n}\n",
            out("ok\n7\n1\n3\n"),
        ),
        // ---- D102: a default value on a lambda parameter (no call can use it) is reported where it is written
        tpl("D102 lambda-parameter-default", "regression", &["C19"], "let f = (a: int, b: int = match 2 { 2 -> 5\n _ -> 6 }) -> a + b\nprintln(f(1, 2))\n", Expect::Reject(vec![])),
        tpl("D83 variant-field-default-ill-typed", "regression", &["C03"], "type Col = | Rgb(r: int, g: int = \"s\") | Gray\nprintln(1)\n", Expect::Reject(vec![])),
    ];
    // ---- namespace-qualified functions and constructors as values (A_08, fix 8526476 / f10cb88)
    let mut t = tpl(
        "D82 namespace-qualified-values",
        "fn-value",
        &["C03", "C19"],
        "use helper_ns as ns\nlet f = ns.twice\nprintln(f(21))\nlet fs = [ns.twice, ns.twice]\nprintln(fs[1](4))\nlet g = ns.greet\nprintln(g())\nlet mkpt = ns.Pt\nlet p = mkpt(1, 2)\nprintln(p.y)\nlet h = (a: int) -> f(a) + mkpt(a, 3).y + ns.sub(a)\nprintln(h(10))\nlet q = ns.Pt(5, 6)\nprintln(q.x)\nlet s = ns.sub\nprintln(s(3, 1))\nmatch ns.Shade.Light(4) {\n    .Light(n) -> println(n)\n    .Dark -> println(\"dark\")\n}\n",
        out("42\n8\nhi\n2\n32\n5\n2\n4\n"),
    );
    t.files = vec![("helper_ns.abra".to_string(), HELPER_NS.to_string())];
    v.push(t);
    v
}

/// the former D21 witnesses (fix 0c43abd): `break`/`continue` while operands of the enclosing loop are pending
pub fn d21_regressions() -> Vec<Tpl> {
    let out = |s: &str| Expect::Out(s.to_string());
    vec![
        tpl(
            "D21 break-in-block-operand",
            "regression",
            &["C01", "C02"],
            "var s = 10\nlet r = 100 + { while true { s + { if true { break } else { }\n 1 } }\n 5 }\nprintln(r)\n",
            out("105\n"),
        ),
        tpl(
            "D21 break-in-void-tuple-component",
            "regression",
            &["C01", "C02"],
            "let r = 100 + { while true { let t = (\"x\", if true { break }) }\n 5 }\nprintln(r)\n",
            out("105\n"),
        ),
        tpl(
            "D21 nested-for-break-with-pending-operand",
            "regression",
            &["C01", "C02"],
            "var n = 0\nfor i in [1, 2, 3] {\n  for j in [10, 20] {\n    n = n + { 1 + { if j == 20 { break } else { }\n 1 } }\n  }\n}\nprintln(n)\n",
            out("6\n"),
        ),
        tpl(
            "D21 continue-in-call-argument-and-concat",
            "regression",
            &["C01", "C02"],
            "fn add3(a: int, b: int, c: int) -> int { a + b + c }\nvar i = 0\nvar acc = \"\"\nwhile i < 4 {\n  i += 1\n  acc = acc .. \"<\" .. add3(i, { if i == 2 { continue } else { }\n 10 }, 100) .. \">\"\n}\nprintln(acc)\n",
            out("<111><113><114>\n"),
        ),
        tpl(
            "D21 break-in-array-struct-match-operands",
            "regression",
            &["C01", "C02"],
            "type Pp = { a: int, b: void, c: int }\nvar k = 0\nvar log = [0]\nwhile k < 5 {\n  k += 1\n  let arr = [k, { if k == 2 { continue } else { }\n k * 2 }, 7]\n  let p = Pp(k, nil, -{ if k == 4 { break } else { }\n k })\n  log.push(arr[1] + p.c + match k { 1 -> 100\n _ -> 1000 + { if k == 3 { continue } else { }\n 0 } })\n}\nprintln(log)\nprintln(k)\n",
            out("[ 0, 101 ]\n4\n"),
        ),
        tpl(
            "D21 loop-inside-lambda",
            "regression",
            &["C01", "C02", "C19"],
            "let f = (n: int) -> {\n  var t = 0\n  for i in n {\n    t = t + 10 * { if i == 1 { continue } else { }\n if i == 3 { break } else { }\n i }\n  }\n  t\n}\nprintln(1 + f(6))\n",
            out("21\n"),
        ),
    ]
}

// ------------------------------------------------------------------------------------------------
// C02: comparisons of TUPLES (arity 2-4, components int / string, bool for == and !=) with < <= > >= == != — the
// reference documents lexicographic comparison (prelude `implement Ord / Equal for (T1, …)`); pairs with an equal
// prefix that differ at each position, the components after that position random (so a guard that looks at the wrong
// component shows), and equal tuples.  Oracle: Rust's lexicographic order on the component lists.
// ------------------------------------------------------------------------------------------------
pub fn tuple_comparisons(rng: &mut Rng, rounds: usize) -> Vec<Tpl> {
    #[derive(Clone, PartialEq, PartialOrd)]
    enum Cv {
        I(i64),
        S(String),
        B(bool),
    }
    let show = |c: &Cv| match c {
        Cv::I(n) => if *n < 0 { format!("({n})") } else { format!("{n}") },
        Cv::S(s) => format!("{s:?}"),
        Cv::B(b) => format!("{b}"),
    };
    let strs = ["", "a", "ab", "abc", "b", "ba", "z"];
    let mut v = vec![];
    for round in 0..rounds {
        for arity in 2..=4usize {
            // position of the first difference; `arity` = equal tuples
            for p in 0..=arity {
                for with_bool in [false, true] {
                    // kinds: 0 int, 1 string, 2 bool (only with == / !=)
                    let kinds: Vec<u8> = (0..arity).map(|k| if with_bool && k == arity - 1 { 2 } else { rng.below(2) as u8 }).collect();
                    let mkc = |rng: &mut Rng, k: u8| match k {
                        0 => Cv::I(rng.range(-3, 6)),
                        1 => Cv::S(rng.pick(&strs).to_string()),
                        _ => Cv::B(rng.chance(1, 2)),
                    };
                    let a: Vec<Cv> = kinds.iter().map(|k| mkc(rng, *k)).collect();
                    let mut b = a.clone();
                    // designed: at p, b is smaller in even rounds and greater in odd rounds; every later component
                    // points the OTHER way (a guard that tests the wrong component then decides wrongly)
                    let want_less_at_p = round % 2 == 0;
                    for k in p..arity {
                        for _ in 0..200 {
                            b[k] = mkc(rng, kinds[k]);
                            let lt = b[k] < a[k];
                            let gt = b[k] > a[k];
                            let ok = if kinds[k] == 2 { k != p || b[k] != a[k] } else if k == p { if want_less_at_p { lt } else { gt } } else if want_less_at_p { gt } else { lt };
                            if ok {
                                break;
                            }
                        }
                    }
                    if p < arity && b[p] == a[p] {
                        continue;
                    }
                    let ta = format!("({})", a.iter().map(show).collect::<Vec<_>>().join(", "));
                    let tb = format!("({})", b.iter().map(show).collect::<Vec<_>>().join(", "));
                    let ord = a.partial_cmp(&b).unwrap();
                    let ops: Vec<(&str, bool)> = if with_bool {
                        vec![("==", a == b), ("!=", a != b)]
                    } else {
                        vec![("<", ord.is_lt()), ("<=", ord.is_le()), (">", ord.is_gt()), (">=", ord.is_ge()), ("==", ord.is_eq()), ("!=", ord.is_ne())]
                    };
                    let mut src = format!("let x = {ta}\nlet y = {tb}\n");
                    let mut exp = String::new();
                    for (op, r) in &ops {
                        // on variables, on literals, and as an operand
                        src.push_str(&format!("println(x {op} y)\nprintln(\"r:\" .. ({ta} {op} {tb}))\n"));
                        exp.push_str(&format!("{r}\nr:{r}\n"));
                    }
                    if !with_bool {
                        // sorting uses the same order
                        let (lo, hi) = if ord.is_le() { (&ta, &tb) } else { (&tb, &ta) };
                        src.push_str("let arr = [x, y]\narr.sort()\nprintln(arr)\n");
                        let plain = |t: &str| t.replace('"', "").replace("(-", "-").replace("), ", ", ").replace("))", ")");
                        let _ = plain;
                        let disp = |t: &Vec<Cv>| format!("({})", t.iter().map(|c| match c { Cv::I(n) => n.to_string(), Cv::S(s) => s.clone(), Cv::B(b) => b.to_string() }).collect::<Vec<_>>().join(", "));
                        let (la, lb) = if ord.is_le() { (disp(&a), disp(&b)) } else { (disp(&b), disp(&a)) };
                        let _ = (lo, hi);
                        exp.push_str(&format!("[ {la}, {lb} ]\n"));
                    }
                    v.push(tpl(format!("tuple-comparison#{round} arity {arity} first difference at {p}{}", if with_bool { " (bool component)" } else { "" }), "tuple-comparison", &["C02"], src, Expect::Out(exp)));
                }
            }
        }
    }
    v
}

pub fn all_templates(seed: u64, quick: bool) -> Vec<Tpl> {
    let mut rng = Rng::new(seed ^ 0xb69c_0fee);
    let mut v = vec![];
    v.extend(index_compound(&mut rng, if quick { 24 } else { 400 }));
    v.extend(wide_calls(&mut rng, if quick { 15 } else { 200 }));
    v.extend(byte_intrinsics(&mut rng, if quick { 40 } else { 600 }));
    v.extend(try_mixed());
    v.extend(tuple_comparisons(&mut rng, if quick { 2 } else { 20 }));
    v.extend(captured_fn_values(&mut rng, if quick { 24 } else { 300 }));
    v.extend(size_limits(quick));
    v.extend(fixed());
    v.extend(d21_regressions());
    v.extend(pending_cases(quick).into_iter().map(|c| c.tpl));
    v.extend(capture_positions());
    v
}

const BUDGETS: [u32; 6] = [1000, 1, 2, 3, 7, 100];

/// first difference between the implementation and the template's oracle, under every budget
pub fn judge(t: &Tpl) -> Option<String> {
    let budgets: &[u32] = if t.heavy { &BUDGETS[..1] } else { &BUDGETS };
    // `check` must agree with `compile_bytecode` on acceptance, and must not panic
    let chk = std::panic::catch_unwind(std::panic::AssertUnwindSafe(|| abra_core::check("main.abra", provider(&t.src, &t.files))));
    let checked_ok = match chk {
        Err(p) => return Some(format!("checker panic: {}", panic_msg(p).replace('\n', " "))),
        Ok(r) => r.is_ok(),
    };
    for b in budgets {
        let r = run_program_opts(&t.src, &RunOpts { budgets: vec![*b], max_steps: 4_000_000, files: t.files.clone() });
        let got = match &r.outcome {
            Outcome::Crash(m) => return Some(format!("budget {b}: host panic: {}", m.replace('\n', " ").chars().take(300).collect::<String>())),
            Outcome::Error(k) if k.starts_with("internal") => return Some(format!("budget {b}: {k} after output {:?}", r.out)),
            o => o.clone(),
        };
        let bad = match (&t.expect, &got) {
            (Expect::Out(e), Outcome::Done) => (&r.out != e).then(|| format!("output {:?}, the oracle gives {:?}", r.out, e)),
            (Expect::Err(k, e), Outcome::Error(g)) => (g != k || &r.out != e).then(|| format!("error {g} after {:?}, the oracle gives error {k} after {:?}", r.out, e)),
            (Expect::Reject(subs), Outcome::Rejected(msg)) => {
                // limit diagnostics come from the translator: `check` alone accepts those programs
                let limit = msg.contains("the limit is");
                if checked_ok && !limit {
                    Some("`check` accepts the program but `compile_bytecode` reports diagnostics".to_string())
                } else {
                    subs.iter().find(|s| !msg.contains(**s)).map(|s| format!("the diagnostics do not contain {s:?}: {}", msg.replace('\n', " ").chars().take(300).collect::<String>()))
                }
            }
            (e, g) => Some(format!(
                "outcome {} (output {:?}{}), the oracle gives {}",
                g.tag(),
                r.out,
                if let Outcome::Rejected(m) = g { format!(", diagnostics {}", m.replace('\n', " ").chars().take(300).collect::<String>()) } else { String::new() },
                match e {
                    Expect::Out(o) => format!("done with {o:?}"),
                    Expect::Err(k, o) => format!("error {k} after {o:?}"),
                    Expect::Reject(_) => "a diagnostic".to_string(),
                }
            )),
        };
        if let Some(why) = bad {
            return Some(format!("budget {b}: {why}"));
        }
        if matches!(got, Outcome::Rejected(_)) {
            break;
        }
    }
    None
}

/// run the families that name `prop`
pub fn run_templates(ctx: &mut Ctx, prop: &str) {
    let ts: Vec<Tpl> = all_templates(ctx.rng.next(), ctx.quick()).into_iter().filter(|t| t.props.contains(&prop)).collect();
    let res = par_map(&ts, judge);
    for (t, r) in ts.iter().zip(res) {
        match r {
            None => ctx.count(&format!("cov:{}:ok", t.family)),
            Some(why) => {
                ctx.count(&format!("cov:{}:FAILS", t.family));
                let src = if t.src.len() > 6000 { format!("{} … [{} bytes]", &t.src[..3000], t.src.len()) } else { t.src.clone() };
                ctx.spec_fail(format!("coverage template {} ({}): {why}\n{src}", t.name, t.family));
            }
        }
    }
}

// ================================================================================================
// pending-operand family (fix 0c43abd, seed C01-r3): a jump-carrying block `{ if c { break|continue } else { }; v }`
// as the operand of EVERY construct in which values wait on the operand stack (or are pushed / consumed by hand by the
// translator), at every value type the construct admits, inside `while`, `for` over an array and `for` over a range,
// the whole loop nested in a further operand (`100 + { loop; acc }`) so that a leaked or over-popped slot changes the
// printed value.  One mini AST, three renderings: Abra source, the S-expression of the Lean model `Abra.Pending`
// (`pending …`: the number of Pops of every break/continue) and — through `contrib` — the expected output.
// ================================================================================================
#[derive(Clone, Debug)]
pub enum PX {
    /// (yields a value, source text) — no sub-expression that can jump
    Leaf(bool, String),
    /// the jump block of the program under construction: (yields a value, text of its value)
    Jump(bool, String),
    /// a jump block with its own condition: (condition, break?, yields a value, text of its value)
    JumpC(String, bool, bool, String),
    /// operands in EVALUATION order; the format places them (`{0}`, `{1}`, …)
    Seq(bool, &'static str, Vec<PX>),
    Pre(usize, bool, &'static str, Box<PX>),
    Un(bool, &'static str, Box<PX>),
    If(bool, Box<PX>, Box<PX>, Box<PX>),
    OrAnd(&'static str, Box<PX>, Box<PX>),
    Match(bool, Box<PX>, Vec<(&'static str, PX)>),
    Block(bool, Vec<PS>),
    /// `(() -> body)`
    Fn(Box<PX>),
}
#[derive(Clone, Debug)]
pub enum PS {
    Expr(PX),
    /// (mutable, name, initialiser)
    Let(bool, &'static str, PX),
    Assign(&'static str, PX),
    Compound(&'static str, &'static str, PX),
    /// (object, field, right-hand side)
    AssignField(PX, &'static str, PX),
    CompoundField(PX, &'static str, &'static str, PX),
    AssignIndex(PX, PX, PX),
    CompoundIndex(PX, PX, &'static str, PX),
    While(PX, Vec<PS>),
    For(&'static str, PX, Vec<PS>),
    Break,
    Continue,
}

fn leaf(s: &str) -> PX {
    PX::Leaf(true, s.to_string())
}
fn nil() -> PX {
    PX::Leaf(false, "nil".to_string())
}
fn jv(s: &str) -> PX {
    PX::Jump(true, s.to_string())
}
fn seq(fmt: &'static str, args: Vec<PX>) -> PX {
    PX::Seq(true, fmt, args)
}
fn bx(p: PX) -> Box<PX> {
    Box::new(p)
}
fn ite(c: PX, t: PX, f: PX) -> PX {
    PX::If(true, bx(c), bx(t), bx(f))
}
/// a float made observable as an int: `x < 3.0` picks 7, otherwise 9
fn fcmp(x: PX) -> PX {
    ite(seq("({0} < 3.0)", vec![x]), leaf("7"), leaf("9"))
}

struct JumpSpec {
    cond: &'static str,
    brk: bool,
    /// render the jump block as the variable `cap` instead (capture-position family)
    cap: bool,
}

fn px_src(e: &PX, j: &JumpSpec, lvl: usize) -> String {
    let ind = "  ".repeat(lvl);
    let jump_block = |cond: &str, brk: bool, val: &str| {
        format!("{{\n{ind}  if {cond} {{\n{ind}    {}\n{ind}  }} else {{ }}\n{ind}  {val}\n{ind}}}", if brk { "break" } else { "continue" })
    };
    match e {
        PX::Leaf(_, s) => s.clone(),
        PX::Jump(..) if j.cap => "cap".to_string(),
        PX::Jump(_, v) => jump_block(j.cond, j.brk, v),
        PX::JumpC(c, b, _, v) => jump_block(c, *b, v),
        PX::Seq(_, fmt, args) => {
            let mut s = fmt.to_string();
            for (k, a) in args.iter().enumerate() {
                s = s.replace(&format!("{{{k}}}"), &px_src(a, j, lvl));
            }
            s
        }
        PX::Pre(_, _, fmt, a) | PX::Un(_, fmt, a) => fmt.replace("{0}", &px_src(a, j, lvl)),
        PX::If(_, c, t, f) => format!("(if {} {{\n{ind}  {}\n{ind}}} else {{\n{ind}  {}\n{ind}}})", px_src(c, j, lvl), px_src(t, j, lvl + 1), px_src(f, j, lvl + 1)),
        PX::OrAnd(op, a, b) => format!("({} {op} {})", px_src(a, j, lvl), px_src(b, j, lvl)),
        PX::Match(_, s, arms) => {
            let mut o = format!("(match {} {{\n", px_src(s, j, lvl));
            for (p, b) in arms {
                o.push_str(&format!("{ind}  {p} -> {}\n", px_src(b, j, lvl + 1)));
            }
            o.push_str(&format!("{ind}}})"));
            o
        }
        PX::Block(_, ss) => format!("{{\n{}{ind}}}", ss.iter().map(|s| ps_src(s, j, lvl + 1)).collect::<String>()),
        PX::Fn(b) => format!("(() -> {})", px_src(b, j, lvl)),
    }
}

fn ps_src(s: &PS, j: &JumpSpec, lvl: usize) -> String {
    let ind = "  ".repeat(lvl);
    let body = |ss: &[PS]| ss.iter().map(|s| ps_src(s, j, lvl + 1)).collect::<String>();
    match s {
        PS::Expr(e) => format!("{ind}{}\n", px_src(e, j, lvl)),
        PS::Let(m, x, e) => format!("{ind}{} {x} = {}\n", if *m { "var" } else { "let" }, px_src(e, j, lvl)),
        PS::Assign(x, e) => format!("{ind}{x} = {}\n", px_src(e, j, lvl)),
        PS::Compound(x, op, e) => format!("{ind}{x} {op} {}\n", px_src(e, j, lvl)),
        PS::AssignField(o, f, e) => format!("{ind}{}.{f} = {}\n", px_src(o, j, lvl), px_src(e, j, lvl)),
        PS::CompoundField(o, f, op, e) => format!("{ind}{}.{f} {op} {}\n", px_src(o, j, lvl), px_src(e, j, lvl)),
        PS::AssignIndex(a, i, e) => format!("{ind}{}[{}] = {}\n", px_src(a, j, lvl), px_src(i, j, lvl), px_src(e, j, lvl)),
        PS::CompoundIndex(a, i, op, e) => format!("{ind}{}[{}] {op} {}\n", px_src(a, j, lvl), px_src(i, j, lvl), px_src(e, j, lvl)),
        PS::While(c, b) => format!("{ind}while {} {{\n{}{ind}}}\n", px_src(c, j, lvl), body(b)),
        PS::For(p, it, b) => format!("{ind}for {p} in {} {{\n{}{ind}}}\n", px_src(it, j, lvl), body(b)),
        PS::Break => format!("{ind}break\n"),
        PS::Continue => format!("{ind}continue\n"),
    }
}

fn px_valued(e: &PX) -> bool {
    match e {
        PX::Leaf(v, _) | PX::Jump(v, _) | PX::JumpC(_, _, v, _) | PX::Seq(v, _, _) | PX::Pre(_, v, _, _) | PX::Un(v, _, _) | PX::If(v, ..) | PX::Match(v, ..) | PX::Block(v, _) => *v,
        PX::OrAnd(..) | PX::Fn(_) => true,
    }
}

fn px_sx(e: &PX, j: &JumpSpec) -> String {
    let b = |v: bool| if v { 1 } else { 0 };
    let jump = |brk: bool, v: bool| {
        format!("( block {} ( expr ( if 0 ( leaf 1 ) ( block 0 ( {} ) ) ( block 0 ) ) ) ( expr ( leaf {} ) ) )", b(v), if brk { "break" } else { "continue" }, b(v))
    };
    match e {
        PX::Leaf(v, _) => format!("( leaf {} )", b(*v)),
        PX::Jump(v, _) => jump(j.brk, *v),
        PX::JumpC(_, brk, v, _) => jump(*brk, *v),
        PX::Seq(v, _, args) => format!("( seq {} {} )", b(*v), args.iter().map(|a| px_sx(a, j)).collect::<Vec<_>>().join(" ")),
        PX::Pre(n, v, _, a) => format!("( pre {n} {} {} )", b(*v), px_sx(a, j)),
        PX::Un(v, _, a) => format!("( un {} {} )", b(*v), px_sx(a, j)),
        PX::If(v, c, t, f) => format!("( if {} {} {} {} )", b(*v), px_sx(c, j), px_sx(t, j), px_sx(f, j)),
        PX::OrAnd(_, x, y) => format!("( orand {} {} )", px_sx(x, j), px_sx(y, j)),
        PX::Match(v, s, arms) => format!("( match {} {} {} )", b(*v), px_sx(s, j), arms.iter().map(|(_, a)| px_sx(a, j)).collect::<Vec<_>>().join(" ")),
        PX::Block(v, ss) => format!("( block {} {} )", b(*v), ss.iter().map(|s| ps_sx(s, j)).collect::<Vec<_>>().join(" ")),
        PX::Fn(body) => format!("( fn {} )", px_sx(body, j)),
    }
}

fn ps_sx(s: &PS, j: &JumpSpec) -> String {
    let body = |ss: &[PS]| ss.iter().map(|s| ps_sx(s, j)).collect::<Vec<_>>().join(" ");
    match s {
        PS::Expr(e) => format!("( expr {} )", px_sx(e, j)),
        PS::Let(_, _, e) => format!("( let {} )", px_sx(e, j)),
        PS::Assign(_, e) => format!("( assign {} )", px_sx(e, j)),
        PS::Compound(_, _, e) => format!("( compound {} )", px_sx(e, j)),
        PS::AssignField(o, _, e) => format!("( assignf {} {} )", px_sx(e, j), px_sx(o, j)),
        PS::CompoundField(o, _, _, e) => format!("( compoundf {} {} )", px_sx(o, j), px_sx(e, j)),
        PS::AssignIndex(a, i, e) => format!("( assigni {} {} {} )", px_sx(a, j), px_sx(i, j), px_sx(e, j)),
        PS::CompoundIndex(a, i, _, e) => format!("( compoundi {} {} {} )", px_sx(a, j), px_sx(i, j), px_sx(e, j)),
        PS::While(c, b) => format!("( while {} {} )", px_sx(c, j), body(b)),
        PS::For(_, it, b) => format!("( for {} {} )", px_sx(it, j), body(b)),
        PS::Break => "( break )".into(),
        PS::Continue => "( continue )".into(),
    }
}

const PENDING_DECLS: &str = "fn add3(a: int, b: int, c: int) -> int {\n  a + b + c\n}\nfn g2(a: int, u: void, b: int) -> int {\n  a * 2 + b\n}\nfn fadd(a: float, b: float) -> float {\n  a + b\n}\nfn twice(a: int) -> int {\n  a * 2\n}\n\
type Pq = {\n  a: int\n  z: void\n  b: int\n}\ntype Vq = Aa(int, int) | Bb\ntype Bx = {\n  q: int\n}\nextend Bx {\n  fn plus(self, k: int) -> int {\n    self.q + k\n  }\n}\n\
type Gd = {\n  cells: array<int>\n}\nimplement Index for Gd {\n  fn index_get(self, idx: int) -> int {\n    self.cells[idx]\n  }\n  fn index_set(self, idx: int, val: int) -> void {\n    self.cells[idx] = val\n  }\n}\n";

/// (name, expression of type int built around the jump block, its value in iteration i when the jump is not taken)
pub fn pending_contexts() -> Vec<(&'static str, PX, fn(i64) -> i64)> {
    let i = || leaf("i");
    let blk = |ss: Vec<PS>| PX::Block(true, ss);
    let arr = || leaf("[1, 2, 3]");
    // an inner loop whose own `continue` (at q == 6) runs with `q` pending: 5+1 + 7+1
    let inner = || {
        blk(vec![
            PS::Let(true, "s", leaf("0")),
            PS::For("q", leaf("[5, 6, 7]"), vec![PS::Compound("s", "+=", seq("({0} + {1})", vec![leaf("q"), PX::JumpC("q == 6".into(), false, true, "1".into())]))]),
            PS::Expr(leaf("s")),
        ])
    };
    let mut v: Vec<(&'static str, PX, fn(i64) -> i64)> = vec![
        // ---- binary operators at every operand type
        ("bin-right-int", seq("({0} + {1})", vec![i(), jv("10")]), |i| i + 10),
        ("bin-left-int", seq("({0} - {1})", vec![jv("10"), i()]), |i| 10 - i),
        ("bin-right-float", fcmp(seq("({0} + {1})", vec![leaf("0.5"), jv("1.5")])), |_| 7),
        ("bin-right-cmp", ite(seq("({0} < {1})", vec![i(), jv("10")]), leaf("3"), leaf("4")), |_| 3),
        ("bin-right-eq-string", ite(seq("({0} == {1})", vec![leaf("\"s\""), jv("\"s\"")]), leaf("3"), leaf("4")), |_| 3),
        ("bin-right-eq-bool", ite(seq("({0} == {1})", vec![leaf("true"), jv("false")]), leaf("3"), leaf("4")), |_| 4),
        ("concat-middle", ite(seq("({0} == \"as1\")", vec![seq("({0} .. {1})", vec![seq("({0} .. {1})", vec![leaf("\"a\""), jv("\"s\"")]), leaf("1")])]), leaf("3"), leaf("4")), |_| 3),
        // ---- the constant pushed by hand for unary minus: int AND float
        ("neg-int", PX::Pre(1, true, "-{0}", bx(jv("10"))), |_| -10),
        ("neg-float", fcmp(PX::Pre(1, true, "-{0}", bx(jv("1.5")))), |_| 7),
        ("neg-float-nested", fcmp(seq("({0} + {1})", vec![leaf("0.25"), PX::Pre(1, true, "-{0}", bx(PX::Pre(1, true, "-{0}", bx(jv("1.5")))))])), |_| 7),
        ("not", ite(PX::Un(true, "not {0}", bx(jv("true"))), leaf("3"), leaf("4")), |_| 4),
        // ---- conditions and short-circuit operators (the conditional jump consumes the operand)
        ("if-cond", ite(jv("true"), i(), leaf("0")), |i| i),
        ("if-branch", ite(leaf("i > 0"), jv("10"), leaf("0")), |_| 10),
        ("or-left", ite(PX::OrAnd("or", bx(jv("false")), bx(leaf("i > 100"))), leaf("1"), leaf("2")), |_| 2),
        ("or-right", ite(PX::OrAnd("or", bx(leaf("i > 100")), bx(jv("true"))), leaf("1"), leaf("2")), |_| 1),
        ("and-left", ite(PX::OrAnd("and", bx(jv("true")), bx(leaf("i > 100"))), leaf("1"), leaf("2")), |_| 2),
        ("and-right", ite(PX::OrAnd("and", bx(leaf("i < 100")), bx(jv("true"))), leaf("1"), leaf("2")), |_| 1),
        // ---- match: scrutinee at every pattern type, arms
        ("match-scrutinee-int", PX::Match(true, bx(jv("10")), vec![("10", leaf("5")), ("_", leaf("6"))]), |_| 5),
        ("match-scrutinee-string", PX::Match(true, bx(jv("\"s\"")), vec![("\"t\"", leaf("5")), ("_", leaf("6"))]), |_| 6),
        ("match-scrutinee-bool", PX::Match(true, bx(jv("true")), vec![("true", leaf("5")), ("false", leaf("6"))]), |_| 5),
        ("match-scrutinee-tuple", PX::Match(true, bx(seq("({0}, {1})", vec![i(), jv("10")])), vec![("(1, _)", leaf("1")), ("(_, k)", leaf("k"))]), |i| if i == 1 { 1 } else { 10 }),
        ("match-arm", PX::Match(true, bx(i()), vec![("1", jv("10")), ("_", jv("20"))]), |i| if i == 1 { 10 } else { 20 }),
        ("match-as-right-operand", seq("({0} + {1})", vec![i(), PX::Match(true, bx(jv("10")), vec![("10", jv("5")), ("_", leaf("6"))])]), |i| i + 5),
        // ---- calls: arguments (void ones take no slot), receiver, callee out of an index expression
        ("call-arg-first", seq("add3({0}, {1}, {2})", vec![jv("10"), i(), leaf("100")]), |i| i + 110),
        ("call-arg-middle", seq("add3({0}, {1}, {2})", vec![i(), jv("10"), leaf("100")]), |i| i + 110),
        ("call-arg-last", seq("add3({0}, {1}, {2})", vec![i(), leaf("100"), jv("10")]), |i| i + 110),
        ("call-arg-after-void", seq("g2({0}, {1}, {2})", vec![i(), nil(), jv("10")]), |i| 2 * i + 10),
        ("call-arg-float", fcmp(seq("fadd({0}, {1})", vec![leaf("0.5"), jv("1.5")])), |_| 7),
        ("method-argument", seq("{0}.plus({1})", vec![leaf("Bx(i)"), jv("10")]), |i| i + 10),
        ("method-receiver", seq("{0}.plus({1})", vec![jv("Bx(7)"), i()]), |i| i + 7),
        ("function-value-argument", seq("{1}({0})", vec![jv("10"), leaf("[twice, twice][0]")]), |_| 20),
        ("function-value-callee-index", seq("{1}({0})", vec![i(), seq("{0}[{1}]", vec![leaf("[twice, twice]"), jv("0")])]), |i| 2 * i),
        // ---- constructors
        ("tuple-component-after-void", PX::Match(true, bx(seq("({0}, {1}, {2})", vec![i(), nil(), jv("10")])), vec![("(a, _, b)", leaf("a + b"))]), |i| i + 10),
        ("array-element", seq("{0}[{1}]", vec![seq("[{0}, {1}]", vec![i(), jv("10")]), leaf("1")]), |_| 10),
        ("struct-field-after-void", PX::Un(true, "{0}.b", bx(seq("Pq({0}, {1}, {2})", vec![i(), nil(), jv("10")]))), |_| 10),
        ("variant-payload", PX::Match(true, bx(seq("Vq.Aa({0}, {1})", vec![i(), jv("10")])), vec![(".Aa(a, b)", leaf("a + b")), (".Bb", leaf("0"))]), |i| i + 10),
        ("unwrap-operand", PX::Un(true, "{0}!", bx(seq("option.some({0})", vec![jv("10")]))), |_| 10),
        ("index-read-index", seq("{0}[{1}]", vec![leaf("[5, 6, 7]"), jv("1")]), |_| 6),
        ("index-read-array", seq("{0}[{1}]", vec![jv("[5, 6, 7]"), leaf("2")]), |_| 7),
        // ---- statements inside a block operand
        ("let-initialiser", blk(vec![PS::Let(false, "t", jv("10")), PS::Expr(leaf("t"))]), |_| 10),
        ("assignment", blk(vec![PS::Let(true, "t", leaf("0")), PS::Assign("t", jv("10")), PS::Expr(leaf("t"))]), |_| 10),
        ("expression-statement", blk(vec![PS::Expr(jv("10")), PS::Expr(i())]), |i| i),
        ("compound-var-int", blk(vec![PS::Let(true, "t", i()), PS::Compound("t", "+=", jv("10")), PS::Expr(leaf("t"))]), |i| i + 10),
        ("compound-var-int-mul", blk(vec![PS::Let(true, "t", i()), PS::Compound("t", "*=", jv("10")), PS::Expr(leaf("t"))]), |i| i * 10),
        ("compound-var-float", blk(vec![PS::Let(true, "t", leaf("0.5")), PS::Compound("t", "+=", jv("1.5")), PS::Expr(fcmp(leaf("t")))]), |_| 7),
        ("compound-index-rhs", blk(vec![PS::Let(false, "a", arr()), PS::CompoundIndex(leaf("a"), leaf("0"), "+=", jv("10")), PS::Expr(leaf("a[0]"))]), |_| 11),
        ("compound-index-index", blk(vec![PS::Let(false, "a", arr()), PS::CompoundIndex(leaf("a"), jv("0"), "+=", i()), PS::Expr(leaf("a[0]"))]), |i| 1 + i),
        ("compound-index-array", blk(vec![PS::Let(false, "a", arr()), PS::CompoundIndex(jv("a"), leaf("0"), "+=", i()), PS::Expr(leaf("a[0]"))]), |i| 1 + i),
        ("assign-index-rhs", blk(vec![PS::Let(false, "a", arr()), PS::AssignIndex(leaf("a"), leaf("0"), jv("10")), PS::Expr(leaf("a[0]"))]), |_| 10),
        ("assign-index-index", blk(vec![PS::Let(false, "a", arr()), PS::AssignIndex(leaf("a"), jv("0"), i()), PS::Expr(leaf("a[0]"))]), |i| i),
        ("assign-index-array", blk(vec![PS::Let(false, "a", arr()), PS::AssignIndex(jv("a"), leaf("0"), i()), PS::Expr(leaf("a[0]"))]), |i| i),
        ("user-index-compound-rhs", blk(vec![PS::Let(false, "g", leaf("Gd([1, 2, 3])")), PS::CompoundIndex(leaf("g"), leaf("0"), "+=", jv("10")), PS::Expr(leaf("g[0]"))]), |_| 11),
        ("user-index-compound-index", blk(vec![PS::Let(false, "g", leaf("Gd([1, 2, 3])")), PS::CompoundIndex(leaf("g"), jv("0"), "+=", i()), PS::Expr(leaf("g[0]"))]), |i| 1 + i),
        ("user-index-compound-object", blk(vec![PS::Let(false, "g", leaf("Gd([1, 2, 3])")), PS::CompoundIndex(jv("g"), leaf("0"), "*=", i()), PS::Expr(leaf("g[0]"))]), |i| i),
        ("user-index-assign-rhs", blk(vec![PS::Let(false, "g", leaf("Gd([1, 2, 3])")), PS::AssignIndex(leaf("g"), leaf("1"), jv("10")), PS::Expr(leaf("g[1]"))]), |_| 10),
        ("user-index-assign-index", blk(vec![PS::Let(false, "g", leaf("Gd([1, 2, 3])")), PS::AssignIndex(leaf("g"), jv("1"), i()), PS::Expr(leaf("g[1]"))]), |i| i),
        ("compound-field-rhs", blk(vec![PS::Let(false, "p", leaf("Pq(1, nil, 2)")), PS::CompoundField(leaf("p"), "b", "+=", jv("10")), PS::Expr(leaf("p.b"))]), |_| 12),
        ("compound-field-object", blk(vec![PS::Let(false, "p", leaf("Pq(1, nil, 2)")), PS::CompoundField(jv("p"), "b", "+=", i()), PS::Expr(leaf("p.b"))]), |i| 2 + i),
        ("assign-field-rhs", blk(vec![PS::Let(false, "p", leaf("Pq(1, nil, 2)")), PS::AssignField(leaf("p"), "b", jv("10")), PS::Expr(leaf("p.b"))]), |_| 10),
        ("assign-field-object", blk(vec![PS::Let(false, "p", leaf("Pq(1, nil, 2)")), PS::AssignField(jv("p"), "b", i()), PS::Expr(leaf("p.b"))]), |i| i),
        ("assign-void-field-object", blk(vec![PS::Let(false, "p", leaf("Pq(1, nil, 2)")), PS::AssignField(jv("p"), "z", nil()), PS::Expr(leaf("p.b"))]), |_| 2),
        ("push-argument", blk(vec![PS::Let(false, "a", leaf("[1]")), PS::Expr(PX::Seq(false, "{0}.push({1})", vec![leaf("a"), jv("10")])), PS::Expr(leaf("a[1]"))]), |_| 10),
        // ---- loop heads inside the loop: the jump belongs to the ENCLOSING loop
        ("inner-while-condition", blk(vec![PS::Let(true, "w", leaf("0")), PS::While(jv("w < 1"), vec![PS::Compound("w", "+=", leaf("1"))]), PS::Expr(leaf("w"))]), |_| 1),
        ("inner-for-iterable", blk(vec![PS::Let(true, "s", leaf("0")), PS::For("q", jv("[5, 6]"), vec![PS::Compound("s", "+=", leaf("q"))]), PS::Expr(leaf("s"))]), |_| 11),
        // ---- an inner loop with its own jump, and the same inside a lambda (own frame)
        ("inner-loop-own-jump", seq("({0} + {1})", vec![jv("1"), inner()]), |_| 15),
        ("loop-inside-lambda", seq("({0} + {1}())", vec![jv("1"), PX::Fn(bx(inner()))]), |_| 15),
    ];
    v.shrink_to_fit();
    v
}

/// capture-position family (C19 / C03, seed C19-r3): an outer variable whose ONLY use inside a lambda sits at one given
/// sub-expression position — every context of `pending_contexts` (then/else/condition of `if`, scrutinee/arms of
/// `match`, each operand of every operator, call / method / function-value arguments, constructor components,
/// array / index / right-hand side of every assignment form, loop heads and bodies, a nested lambda body) with the
/// hole filled by the captured variable; directly in a lambda, in a lambda nested in a lambda, and in a lambda defined
/// inside a function.  The capture analysis has to find the variable there (otherwise the compiler panics or the
/// lambda reads a wrong slot); expected value from the context's Rust oracle.
pub fn capture_positions() -> Vec<Tpl> {
    fn hole(e: &PX) -> Option<String> {
        match e {
            PX::Jump(_, v) => Some(v.clone()),
            PX::Leaf(..) | PX::JumpC(..) => None,
            PX::Seq(_, _, a) => a.iter().find_map(hole),
            PX::Pre(_, _, _, a) | PX::Un(_, _, a) | PX::Fn(a) => hole(a),
            PX::If(_, c, t, f) => hole(c).or_else(|| hole(t)).or_else(|| hole(f)),
            PX::OrAnd(_, a, b) => hole(a).or_else(|| hole(b)),
            PX::Match(_, s, arms) => hole(s).or_else(|| arms.iter().find_map(|(_, a)| hole(a))),
            PX::Block(_, ss) => ss.iter().find_map(|s| match s {
                PS::Expr(e) | PS::Let(_, _, e) | PS::Assign(_, e) | PS::Compound(_, _, e) => hole(e),
                PS::AssignField(o, _, e) | PS::CompoundField(o, _, _, e) => hole(o).or_else(|| hole(e)),
                PS::AssignIndex(a, i, e) | PS::CompoundIndex(a, i, _, e) => hole(a).or_else(|| hole(i)).or_else(|| hole(e)),
                PS::While(c, b) | PS::For(_, c, b) => hole(c).or_else(|| hole(&PX::Block(false, b.clone()))),
                PS::Break | PS::Continue => None,
            }),
        }
    }
    let j = JumpSpec { cond: "false", brk: false, cap: true };
    let mut v = vec![];
    for (name, e, contrib) in pending_contexts() {
        // the hole's value must be a closed expression (contexts whose hole names a local of the context are skipped)
        let Some(val) = hole(&e) else { continue };
        if ["a", "p", "g", "w < 1"].contains(&val.as_str()) {
            continue;
        }
        // both arms of `match-arm` hold the hole with different values: one variable cannot stand for both
        if name == "match-arm" || name == "match-as-right-operand" {
            continue;
        }
        let body = px_src(&e, &j, 1);
        let exp = format!("{}\nend\n", contrib(1) + contrib(3));
        let forms: [(&str, String); 3] = [
            ("lambda", format!("let cap = {val}\nlet f = (i: int) -> {body}\nprintln(f(1) + f(3))\nprintln(\"end\")\n")),
            ("nested-lambda", format!("let cap = {val}\nlet f = (i: int) -> {{\n  let g = () -> {body}\n  g()\n}}\nprintln(f(1) + f(3))\nprintln(\"end\")\n")),
            ("lambda-in-function", format!("fn run() -> int {{\n  let cap = {val}\n  let f = (i: int) -> {body}\n  f(1) + f(3)\n}}\nprintln(run())\nprintln(\"end\")\n")),
        ];
        for (form, main) in forms {
            v.push(tpl(format!("capture-position {name} / {form}"), "capture-position", &["C19", "C03"], format!("{PENDING_DECLS}{main}"), Expect::Out(exp.clone())));
        }
    }
    v
}

pub struct PendingCase {
    pub tpl: Tpl,
    /// `pending …` request of the Lean model
    pub request: String,
}

/// the loop (and its iterations 1..=4) around `body`
fn pending_program(name: &str, e: &PX, contrib: fn(i64) -> i64, lp: usize, brk: bool, operand_placement: bool, in_fn: bool) -> PendingCase {
    let j = JumpSpec { cond: if brk { "i == 3" } else { "i == 2" }, brk, cap: false };
    let body: Vec<PS> = if operand_placement {
        vec![PS::Assign("acc", seq("({0} + ({1} * {2}))", vec![leaf("acc"), leaf("i"), e.clone()]))]
    } else {
        vec![PS::Let(false, "v", e.clone()), PS::Assign("acc", leaf("(acc + (i * v))"))]
    };
    let lp_stmts: Vec<PS> = match lp {
        0 => {
            let mut b = vec![PS::Compound("i", "+=", leaf("1"))];
            b.extend(body);
            vec![PS::Let(true, "i", leaf("0")), PS::While(leaf("(i < 4)"), b)]
        }
        1 => vec![PS::For("i", leaf("[1, 2, 3, 4]"), body)],
        _ => {
            let mut b = vec![PS::Let(false, "i", leaf("(k + 1)"))];
            b.extend(body);
            vec![PS::For("k", leaf("4"), b)]
        }
    };
    let mut inner = lp_stmts;
    inner.push(PS::Expr(leaf("acc")));
    let main: Vec<PS> = vec![
        PS::Let(true, "acc", leaf("0")),
        PS::Let(false, "r", seq("({0} + {1})", vec![leaf("100"), PX::Block(true, inner)])),
    ];
    let iters: Vec<i64> = if brk { vec![1, 2] } else { vec![1, 3, 4] };
    let total: i64 = 100 + iters.iter().map(|i| i * contrib(*i)).sum::<i64>();
    let stmts: String = main.iter().map(|s| ps_src(s, &j, if in_fn { 1 } else { 0 })).collect();
    let src = if in_fn {
        format!("{PENDING_DECLS}fn run() -> int {{\n{stmts}  r\n}}\nprintln(run())\nprintln(\"end\")\n")
    } else {
        format!("{PENDING_DECLS}{stmts}println(r)\nprintln(\"end\")\n")
    };
    let request = format!("pending ( prog {} )", main.iter().map(|s| ps_sx(s, &j)).collect::<Vec<_>>().join(" "));
    let request = request.split_whitespace().collect::<Vec<_>>().join(" ");
    let lpn = ["while", "for-array", "for-range"][lp];
    let tpl = tpl(
        format!("pending {name} / {lpn} / {} / {} / {}", if brk { "break" } else { "continue" }, if operand_placement { "operand" } else { "statement" }, if in_fn { "function" } else { "main" }),
        "pending-jump",
        &["C01", "C02"],
        src,
        Expect::Out(format!("{total}\nend\n")),
    );
    PendingCase { tpl, request }
}

/// an array literal longer than 65535 elements: `ConstructArray(65535)`, then `Duplicate; element; ArrayPush` for
/// every further element — the jump block is one of those, with the array and its duplicate pending
fn pending_big_array(brk: bool) -> PendingCase {
    let j = JumpSpec { cond: if brk { "i == 3" } else { "i == 2" }, brk, cap: false };
    let zeros = vec!["0"; 65535].join(", ");
    let src = format!(
        "var acc = 0\nlet r = (100 + {{\n  for i in [1, 2, 3, 4] {{\n    let big = [{zeros}, i, {}, 7]\n    acc = (acc + (i * (big[65536] + big[65535])))\n  }}\n  acc\n}})\nprintln(r)\nprintln(\"end\")\n",
        px_src(&jv("10"), &j, 2)
    );
    let first = vec!["( leaf 1 )"; 65535].join(" ");
    let request = format!(
        "pending ( prog ( let ( leaf 1 ) ) ( let ( seq 1 ( leaf 1 ) ( block 1 ( for ( leaf 1 ) ( let ( bigarray ( first {first} ) ( rest ( leaf 1 ) {} ( leaf 1 ) ) ) ) ( assign ( leaf 1 ) ) ) ( expr ( leaf 1 ) ) ) ) ) )",
        px_sx(&jv("10"), &j)
    );
    let iters: Vec<i64> = if brk { vec![1, 2] } else { vec![1, 3, 4] };
    let total: i64 = 100 + iters.iter().map(|i| i * (10 + i)).sum::<i64>();
    let mut t = tpl(
        format!("pending array-literal-beyond-65535 / for-array / {} / statement / main", if brk { "break" } else { "continue" }),
        "pending-jump",
        &["C01", "C02"],
        src,
        Expect::Out(format!("{total}\nend\n")),
    );
    t.heavy = true;
    PendingCase { tpl: t, request }
}

pub fn pending_cases(quick: bool) -> Vec<PendingCase> {
    let mut v = vec![pending_big_array(false)];
    if !quick {
        v.push(pending_big_array(true));
    }
    for (ci, (name, e, contrib)) in pending_contexts().into_iter().enumerate() {
        for lp in 0..3 {
            for brk in [false, true] {
                for (pi, operand) in [true, false].into_iter().enumerate() {
                    // quick: every context under every loop kind and both jumps; the placement and main/function alternate
                    if quick && (ci + lp + brk as usize + pi) % 2 == 1 {
                        continue;
                    }
                    let in_fn = (ci + lp + pi) % 3 == 0;
                    v.push(pending_program(name, &e, contrib, lp, brk, operand, in_fn));
                }
            }
        }
    }
    v
}

/// per source line of a `break`/`continue`: the number of `Pop`s emitted for it (instructions carry the line of the
/// statement that emitted them; the jump statements of these programs stand on lines of their own).  Lines in source
/// order; a line compiled several times must agree with itself.
pub fn real_jump_pops(src: &str, files: &[(String, String)]) -> Result<Vec<usize>, String> {
    abra_core::verif_asm::start_optimize_trace();
    let r = std::panic::catch_unwind(std::panic::AssertUnwindSafe(|| abra_core::compile_bytecode("main.abra", provider(src, files))));
    let tr = abra_core::verif_asm::take_optimize_trace_both();
    match r {
        Ok(Ok(_)) => {}
        Ok(Err(e)) => return Err(format!("rejected: {}", e.to_string().replace('\n', " "))),
        Err(p) => return Err(format!("compiler panic: {}", panic_msg(p).replace('\n', " "))),
    }
    let lines = tr.into_iter().next().ok_or("no trace")?;
    // `I <file_id> <lineno> <func_id> <Debug>` / `L <label>`; the main file is the one the `<main>` code belongs to
    let parsed: Vec<Option<(u32, usize, String)>> = lines
        .iter()
        .map(|(dbg, disp)| {
            let mut it = dbg.splitn(5, ' ');
            if it.next() != Some("I") {
                return None;
            }
            let f: u32 = it.next()?.parse().ok()?;
            let l: usize = it.next()?.parse().ok()?;
            Some((f, l, disp.trim().to_string()))
        })
        .collect();
    let jump_lines: Vec<usize> = src.lines().enumerate().filter(|(_, t)| matches!(t.trim(), "break" | "continue")).map(|(k, _)| k + 1).collect();
    // the file id of main.abra: the file of the last instruction (`stop` of <main> is emitted … anywhere); take the id
    // whose instructions include a `stop`
    let main_file = parsed.iter().flatten().find(|(_, _, d)| d == "stop").map(|(f, _, _)| *f).ok_or("no stop instruction")?;
    let mut out = vec![];
    for jl in jump_lines {
        // groups of consecutive instructions of that line ending in a jump
        let mut counts: Vec<usize> = vec![];
        let mut k = 0;
        while k < parsed.len() {
            if let Some((f, l, d)) = &parsed[k] {
                if *f == main_file && *l == jl && (d.starts_with("jump while_") || d.starts_with("jump for_")) {
                    let mut n = 0;
                    let mut m = k;
                    while m > 0 {
                        match &parsed[m - 1] {
                            Some((f2, l2, d2)) if *f2 == main_file && *l2 == jl && d2 == "pop" => {
                                n += 1;
                                m -= 1;
                            }
                            _ => break,
                        }
                    }
                    counts.push(n);
                }
            }
            k += 1;
        }
        if counts.is_empty() {
            return Err(format!("no jump instruction for the break/continue on line {jl}"));
        }
        if counts.iter().any(|c| *c != counts[0]) {
            return Err(format!("the break/continue on line {jl} is compiled with different numbers of Pops: {counts:?}"));
        }
        out.push(counts[0]);
    }
    Ok(out)
}
