//! Shared by C34 / C04 (bG10): run front-end jobs in long-lived child processes of the harness binary, so
//! that a host stack overflow (process abort) or a non-terminating analysis takes down one worker, is
//! attributed to the text being processed, and the run goes on.
//!
//! Protocol: the parent writes one line `hex(text)` per job to the child's stdin; the child answers one line
//! (newlines inside escaped as `\x1d`).  EOF instead of an answer = the child died on that text.
#![allow(dead_code)]
use std::io::{BufRead, BufReader, Write};
use std::process::{Child, Command, Stdio};
use std::sync::atomic::{AtomicUsize, Ordering};
use std::sync::{Arc, Mutex};
use std::time::{Duration, Instant};

#[derive(Debug, Clone)]
pub enum Res {
    Ok(String),
    /// "abort" (the process died: stack overflow, abort — immediate) or "timeout" (only after the text was re-run
    /// alone and the child used more than `ALONE_CPU_LIMIT_S` seconds of CPU without answering)
    Died(&'static str),
}

fn hex(s: &str) -> String {
    let mut o = String::with_capacity(s.len() * 2 + 1);
    for b in s.bytes() {
        o.push_str(&format!("{:02x}", b));
    }
    o
}
fn unhex(s: &str) -> String {
    let b: Vec<u8> = (0..s.len() / 2).map(|i| u8::from_str_radix(&s[2 * i..2 * i + 2], 16).unwrap_or(b'?')).collect();
    String::from_utf8_lossy(&b).into_owned()
}

/// child side: answer every job line with `f(text)`; runs on a thread with a large stack
pub fn worker_loop(f: impl Fn(&str) -> String + Send + 'static) {
    let h = std::thread::Builder::new()
        .stack_size(64 << 20)
        .spawn(move || {
            let stdin = std::io::stdin();
            let stdout = std::io::stdout();
            for line in stdin.lock().lines() {
                let Ok(line) = line else { break };
                let text = unhex(line.trim());
                let ans = f(&text).replace('\n', "\x1d");
                let mut o = stdout.lock();
                let _ = writeln!(o, "{ans}");
                let _ = o.flush();
            }
        })
        .unwrap();
    let _ = h.join();
}

struct Slot {
    child: Option<Child>,
    deadline: Option<Instant>,
    timed_out: bool,
}

/// parent side: process `inputs` on `n` workers started as `<current exe> <args…>`; results in input order
pub fn run_workers(args: &[&str], inputs: &[String], n: usize, timeout: Duration) -> Vec<Res> {
    let exe = std::env::current_exe().unwrap();
    // test knob: a tiny first-phase limit forces texts through the alone re-run
    let timeout = std::env::var("VERIF_WORKER_TIMEOUT_MS").ok().and_then(|v| v.parse().ok()).map(Duration::from_millis).unwrap_or(timeout);
    let next = AtomicUsize::new(0);
    let results: Mutex<Vec<Option<Res>>> = Mutex::new(vec![None; inputs.len()]);
    let slots: Vec<Arc<Mutex<Slot>>> = (0..n).map(|_| Arc::new(Mutex::new(Slot { child: None, deadline: None, timed_out: false }))).collect();
    let done = AtomicUsize::new(0);
    std::thread::scope(|s| {
        // watchdog
        s.spawn(|| {
            while done.load(Ordering::Relaxed) < n {
                std::thread::sleep(Duration::from_millis(100));
                for sl in &slots {
                    let mut g = sl.lock().unwrap();
                    if let Some(d) = g.deadline {
                        if Instant::now() > d {
                            g.timed_out = true;
                            g.deadline = None;
                            if let Some(c) = g.child.as_mut() {
                                let _ = c.kill();
                            }
                        }
                    }
                }
            }
        });
        for w in 0..n {
            let slot = slots[w].clone();
            let (next, results, done, exe) = (&next, &results, &done, &exe);
            s.spawn(move || {
                let mut io: Option<(std::process::ChildStdin, BufReader<std::process::ChildStdout>)> = None;
                loop {
                    let i = next.fetch_add(1, Ordering::Relaxed);
                    if i >= inputs.len() {
                        break;
                    }
                    if io.is_none() {
                        let mut c = Command::new(exe).args(args).stdin(Stdio::piped()).stdout(Stdio::piped()).stderr(Stdio::null()).spawn().expect("spawn worker");
                        io = Some((c.stdin.take().unwrap(), BufReader::new(c.stdout.take().unwrap())));
                        let mut g = slot.lock().unwrap();
                        g.child = Some(c);
                        g.timed_out = false;
                    }
                    let (sin, sout) = io.as_mut().unwrap();
                    slot.lock().unwrap().deadline = Some(Instant::now() + timeout);
                    let wrote = writeln!(sin, "{}", hex(&inputs[i])).and_then(|_| sin.flush()).is_ok();
                    let mut line = String::new();
                    let got = wrote && sout.read_line(&mut line).map(|k| k > 0 && line.ends_with('\n')).unwrap_or(false);
                    let res = {
                        let mut g = slot.lock().unwrap();
                        g.deadline = None;
                        if got {
                            Res::Ok(line.trim_end_matches('\n').replace('\x1d', "\n"))
                        } else {
                            let why = if g.timed_out { "timeout" } else { "abort" };
                            if let Some(mut c) = g.child.take() {
                                let _ = c.kill();
                                let _ = c.wait();
                            }
                            io = None;
                            Res::Died(why)
                        }
                    };
                    results.lock().unwrap()[i] = Some(res);
                }
                drop(io);
                if let Some(mut c) = slot.lock().unwrap().child.take() {
                    let _ = c.wait();
                }
                done.fetch_add(1, Ordering::Relaxed);
            });
        }
    });
    let mut out: Vec<Res> = results.into_inner().unwrap().into_iter().map(|r| r.unwrap_or(Res::Died("abort"))).collect();
    // A wall-clock limit says nothing on a loaded machine: every text that timed out in the parallel phase is
    // run again ALONE (one worker, nothing else running in this harness) and judged by the child's CPU time.
    for i in 0..out.len() {
        if matches!(out[i], Res::Died("timeout")) {
            out[i] = run_alone(args, &inputs[i]);
        }
    }
    out
}

/// CPU seconds (user + system, all threads) a process has used so far, from /proc/<pid>/stat
fn cpu_seconds(pid: u32) -> Option<f64> {
    let s = std::fs::read_to_string(format!("/proc/{pid}/stat")).ok()?;
    let rest = &s[s.rfind(')')? + 1..];
    let f: Vec<&str> = rest.split_whitespace().collect();
    // after the command name: state is field 0, utime field 11, stime field 12 (clock ticks, 100 per second)
    let ut: f64 = f.get(11)?.parse().ok()?;
    let st: f64 = f.get(12)?.parse().ok()?;
    Some((ut + st) / 100.0)
}

pub const ALONE_CPU_LIMIT_S: f64 = 300.0;
pub const ALONE_WALL_CAP_S: u64 = 3600;

/// one text, one fresh worker, nothing else: a hang only if the child has burnt `ALONE_CPU_LIMIT_S` of CPU
/// without answering (or, for a child that sleeps forever, after `ALONE_WALL_CAP_S` of wall time)
pub fn run_alone(args: &[&str], input: &str) -> Res {
    let exe = std::env::current_exe().unwrap();
    let mut c = match Command::new(&exe).args(args).stdin(Stdio::piped()).stdout(Stdio::piped()).stderr(Stdio::null()).spawn() {
        Ok(c) => c,
        Err(_) => return Res::Died("abort"),
    };
    let pid = c.id();
    let mut sin = c.stdin.take().unwrap();
    let sout = c.stdout.take().unwrap();
    let wrote = writeln!(sin, "{}", hex(input)).and_then(|_| sin.flush()).is_ok();
    let (tx, rx) = std::sync::mpsc::channel::<Option<String>>();
    let reader = std::thread::spawn(move || {
        let mut r = BufReader::new(sout);
        let mut line = String::new();
        let ok = r.read_line(&mut line).map(|k| k > 0 && line.ends_with('\n')).unwrap_or(false);
        let _ = tx.send(if ok { Some(line) } else { None });
    });
    let start = Instant::now();
    let res = loop {
        if !wrote {
            break Res::Died("abort");
        }
        match rx.recv_timeout(Duration::from_millis(250)) {
            Ok(Some(line)) => break Res::Ok(line.trim_end_matches('\n').replace('\x1d', "\n")),
            Ok(None) => break Res::Died("abort"),
            Err(std::sync::mpsc::RecvTimeoutError::Disconnected) => break Res::Died("abort"),
            Err(std::sync::mpsc::RecvTimeoutError::Timeout) => {
                let cpu = cpu_seconds(pid).unwrap_or(0.0);
                if cpu > ALONE_CPU_LIMIT_S || start.elapsed().as_secs() > ALONE_WALL_CAP_S {
                    let _ = c.kill();
                    break Res::Died("timeout");
                }
            }
        }
    };
    drop(sin);
    let _ = c.kill();
    let _ = c.wait();
    let _ = reader.join();
    res
}
