//! Fixed probe programs (bG8): hand-written programs with the behaviour the property demands written
//! down next to them (a Rust-side oracle, not the Lean model).  They run on every check, are never
//! adaptive and never gated: a difference is an implementation-vs-specification failure.
use vh::*;

pub enum Want {
    /// runs to completion and prints exactly this
    Out(&'static str),
    /// rejected with diagnostics; every listed text occurs among the messages
    Rejected(&'static [&'static str]),
    /// stops with this runtime error kind (`error_kind`)
    RuntimeError(&'static str),
    /// either rejected with a diagnostic, or accepted and prints exactly this (never a crash, never another output)
    RejectedOrOut(&'static str),
    /// anything but a crash of the compiler / VM (accepted-and-runs or rejected)
    NoCrash,
}

pub struct Probe {
    pub name: &'static str,
    pub main: &'static str,
    pub files: &'static [(&'static str, &'static str)],
    pub want: Want,
}

pub fn run_probes(ctx: &mut Ctx, probes: &[Probe]) {
    let results = par_map(probes, |p| {
        let files: Vec<(String, String)> = p.files.iter().map(|(n, s)| (n.to_string(), s.to_string())).collect();
        run_program_opts(p.main, &RunOpts { files, ..Default::default() })
    });
    for (p, r) in probes.iter().zip(results) {
        let got = match &r.outcome {
            Outcome::Done => format!("runs and prints {:?}", r.out),
            Outcome::Error(k) => format!("runtime error {k} after printing {:?}", r.out),
            Outcome::Rejected(t) => format!(
                "rejected: {}",
                t.lines().filter(|l| l.starts_with("error")).collect::<Vec<_>>().join(" | ")
            ),
            Outcome::Crash(m) => format!("CRASH: {}", m.lines().next().unwrap_or("")),
            o => o.tag(),
        };
        let ok = match (&p.want, &r.outcome) {
            (Want::Out(s), Outcome::Done) => r.out == *s,
            (Want::Rejected(subs), Outcome::Rejected(t)) => subs.iter().all(|s| t.contains(s)),
            (Want::RuntimeError(k), Outcome::Error(e)) => e == k,
            (Want::RejectedOrOut(_), Outcome::Rejected(_)) => true,
            (Want::RejectedOrOut(s), Outcome::Done) => r.out == *s,
            (Want::NoCrash, Outcome::Done) | (Want::NoCrash, Outcome::Rejected(_)) | (Want::NoCrash, Outcome::Error(_)) => true,
            _ => false,
        };
        ctx.count(&format!("probe:{}:{}", p.name, if ok { "ok" } else { "FAIL" }));
        if !ok {
            let want = match &p.want {
                Want::Out(s) => format!("run and print {s:?}"),
                Want::Rejected(subs) => format!("be rejected with diagnostics containing {subs:?}"),
                Want::RuntimeError(k) => format!("stop with the runtime error {k}"),
                Want::RejectedOrOut(s) => format!("be rejected with a diagnostic, or run and print {s:?}"),
                Want::NoCrash => "be accepted or rejected, without a crash".to_string(),
            };
            let mut text = format!("probe {}: the program must {want}; it {got}\n--- main.abra\n{}", p.name, p.main);
            for (n, s) in p.files {
                text.push_str(&format!("--- {n}\n{s}"));
            }
            ctx.spec_fail(text);
        }
    }
}
