//! Shared by the scheduler/runtime properties C08–C11 (included with `#[path]` from their bins):
//! a drive loop over explicit `run_n_steps` schedules that records the `verif_sched` hook's event
//! log, canonicalises it, extracts per-thread scripts for the Lean model `Abra.Sched` and renders the
//! implementation's side of the trace-validation answer.
#![allow(dead_code)]
use abra_core::vm::verif_sched::{self, Event, StepKind};
use abra_core::vm::{Runtime, RuntimeStatusKind, VmGreenThread, VmStatus};
use abra_core::{VmType, compile_bytecode};
use std::collections::HashMap;
use std::panic::{AssertUnwindSafe, catch_unwind};
use vh::*;

/// one `run_n_steps` call of the embedder
#[derive(Clone, Copy, Debug)]
pub struct Call {
    pub budget: u32,
    /// service pending host calls after the call (false = the host is slow and calls again first)
    pub service: bool,
}

/// budgets are cycled until the program ends
#[derive(Clone, Debug)]
pub struct Schedule {
    pub prefix: Vec<Call>,
    pub cycle: Vec<Call>,
}
impl Schedule {
    pub fn constant(b: u32) -> Schedule {
        Schedule { prefix: vec![], cycle: vec![Call { budget: b, service: true }] }
    }
    pub fn cyc(bs: &[u32]) -> Schedule {
        Schedule { prefix: vec![], cycle: bs.iter().map(|&b| Call { budget: b, service: true }).collect() }
    }
    pub fn get(&self, i: usize) -> Call {
        if i < self.prefix.len() { self.prefix[i] } else { self.cycle[(i - self.prefix.len()) % self.cycle.len()] }
    }
    pub fn describe(&self) -> String {
        let f = |c: &Call| format!("{}{}", c.budget, if c.service { "" } else { "!" });
        format!(
            "[{}]({})*",
            self.prefix.iter().map(f).collect::<Vec<_>>().join(","),
            self.cycle.iter().map(f).collect::<Vec<_>>().join(",")
        )
    }
}

#[derive(Clone, Debug)]
pub struct CallRecord {
    pub call: Call,
    pub events: Vec<Event>,
    pub status: String,
    pub steps: u32,
    /// run queue after the call, before servicing: (raw thread id, flag) flag = "", "d", "p<n>", "e"
    pub queue: Vec<(u64, String)>,
}

#[derive(Clone, Debug)]
pub struct Traced {
    pub outcome: Outcome,
    pub out: String,
    pub err_text: String,
    /// rendering of `top()` after Done ("-" when there is none / not done)
    pub value: String,
    pub total_steps: u64,
    pub calls: Vec<CallRecord>,
    pub main_id: u64,
    /// host calls seen: (function number, rendering of what the host popped), in service order
    pub host_calls: Vec<(u16, String)>,
    /// further `run_n_steps` calls made after completion / failure was reported, nothing serviced in between
    pub after_calls: Vec<CallRecord>,
    /// the call bound was hit before the runtime reported completion or failure
    pub call_bound_hit: bool,
    /// disagreements between the accessor functions (`RuntimeStatus::is_done/error`,
    /// `VmGreenThread::get_pending_host_func/get_error`) and the status kinds they summarise
    pub accessor_issues: Vec<String>,
    /// the calls were `run_with_granularity(budget)` (or `run()`), not `run_n_steps(budget)`
    pub api_gran: bool,
}

pub fn sanitize(s: &str) -> String {
    s.chars().map(|c| if c.is_ascii_alphanumeric() { c } else { '_' }).collect()
}

/// render the final value by tag (scalars and strings by content, other heap values by tag only)
pub fn render_top(rt: &Runtime) -> String {
    let r = catch_unwind(AssertUnwindSafe(|| {
        let v = rt.top();
        let d = format!("{:?}", v); // "Value(<bits>, <Tag>)"
        let tag = d.trim_end_matches(')').rsplit(", ").next().unwrap_or("").to_string();
        match tag.as_str() {
            "Int" => format!("int:{}", v.get_int(rt.main())),
            "Float" => format!("float:{:016x}", v.get_float(rt.main()).to_bits()),
            "Bool" => format!("bool:{}", v.get_bool(rt.main())),
            "String" => format!("str:{}", hex(v.view_string(rt.main()).as_bytes())),
            t => format!("heap:{t}"),
        }
    }));
    r.unwrap_or_else(|_| "-".into())
}

pub type HostFn<'a> = &'a mut dyn FnMut(u16, &mut VmGreenThread, &mut String) -> Option<String>;

/// prelude host functions (numbering passed in: the prelude's four are alphabetical among all #host fns)
pub fn prelude_host(names: &[&str]) -> impl FnMut(u16, &mut VmGreenThread, &mut String) -> Option<String> {
    let names: Vec<String> = names.iter().map(|s| s.to_string()).collect();
    move |n, thread, out| {
        match names.get(n as usize).map(|s| s.as_str()) {
            Some("eprint_string") => {
                let s = String::from_vm(thread);
                Some(format!("eprint:{}", hex(s.as_bytes())))
            }
            Some("get_args") => {
                Vec::<String>::new().to_vm(thread);
                Some("get_args".into())
            }
            Some("print_string") => {
                let s = String::from_vm(thread);
                out.push_str(&s);
                Some(format!("print:{}", hex(s.as_bytes())))
            }
            Some("readline") => {
                String::new().to_vm(thread);
                Some("readline".into())
            }
            _ => None,
        }
    }
}

pub const PRELUDE_HOSTS: [&str; 4] = ["eprint_string", "get_args", "print_string", "readline"];

/// compile + run under an explicit schedule with the scheduler event log on.
/// `host` services one pending call (pops arguments, pushes the result); it is called for every
/// thread of the run queue that is pending, in queue order, like `vh::service_host`.
pub type MkRuntime = Box<dyn Fn() -> Runtime + Send + Sync>;

/// compile once; the returned closure makes a fresh `Runtime` of the program
pub fn compile_program(src: &str) -> Result<MkRuntime, Outcome> {
    match catch_unwind(AssertUnwindSafe(|| compile_bytecode("main.abra", provider(src, &[])))) {
        Ok(Ok(p)) => Ok(Box::new(move || Runtime::new(p.clone()))),
        Ok(Err(e)) => Err(Outcome::Rejected(e.to_string())),
        Err(p) => Err(Outcome::Crash(format!("compiler: {}", panic_msg(p)))),
    }
}

/// compile with the host functions declared in a second root file (`compile_bytecode_with_host_funcs`)
pub fn compile_program_hostfile(src: &str, host_file: &str, host_src: &str) -> Result<MkRuntime, Outcome> {
    let files = vec![(host_file.to_string(), host_src.to_string())];
    match catch_unwind(AssertUnwindSafe(|| abra_core::compile_bytecode_with_host_funcs("main.abra", host_file, provider(src, &files)))) {
        Ok(Ok(p)) => Ok(Box::new(move || Runtime::new(p.clone()))),
        Ok(Err(e)) => Err(Outcome::Rejected(e.to_string())),
        Err(p) => Err(Outcome::Crash(format!("compiler: {}", panic_msg(p)))),
    }
}

pub fn run_traced(src: &str, sched: &Schedule, max_steps: u64, host: HostFn) -> Traced {
    match compile_program(src) {
        Ok(mk) => run_traced_rt(&mk, sched, max_steps, host),
        Err(o) => Traced {
            outcome: o,
            out: String::new(),
            err_text: String::new(),
            value: "-".into(),
            total_steps: 0,
            calls: vec![],
            main_id: 0,
            host_calls: vec![],
            after_calls: vec![],
            call_bound_hit: false,
            accessor_issues: vec![],
            api_gran: false,
        },
    }
}

pub fn run_traced_rt(mk: &MkRuntime, sched: &Schedule, max_steps: u64, host: HostFn) -> Traced {
    run_traced_after(mk, sched, max_steps, host, &[], 4_000_000)
}

/// the accessor functions must say what the status kinds say
fn accessor_check(rt: &mut Runtime, status: &abra_core::vm::RuntimeStatus) -> Vec<String> {
    let mut issues = vec![];
    let is_done = matches!(status.kind, RuntimeStatusKind::Done);
    if status.is_done() != is_done {
        issues.push(format!("RuntimeStatus::is_done() = {} but the kind is {:?}", status.is_done(), status.kind));
    }
    match (&status.kind, status.error()) {
        (RuntimeStatusKind::MainThreadError(e), Some(e2)) => {
            if e.to_string() != e2.to_string() {
                issues.push("RuntimeStatus::error() differs from the error in the kind".into());
            }
        }
        (RuntimeStatusKind::MainThreadError(_), None) => issues.push("RuntimeStatus::error() is None for MainThreadError".into()),
        (k, Some(_)) => issues.push(format!("RuntimeStatus::error() is Some for {:?}", k)),
        _ => {}
    }
    for th in rt.iter_threads_mut() {
        let st = th.status();
        let p = th.get_pending_host_func();
        match (&st, p) {
            (VmStatus::PendingHostFunc(n), Some(m)) if *n == m => {}
            (VmStatus::PendingHostFunc(n), x) => issues.push(format!("status PendingHostFunc({n}) but get_pending_host_func() = {:?}", x)),
            (_, Some(m)) => issues.push(format!("get_pending_host_func() = Some({m}) but status is {:?}", st)),
            _ => {}
        }
        let e = th.get_error();
        match (&st, &e) {
            (VmStatus::Error(a), Some(b)) => {
                if a.to_string() != b.to_string() {
                    issues.push("get_error() differs from the error in status()".into());
                }
            }
            (VmStatus::Error(_), None) => issues.push("status Error but get_error() is None".into()),
            (VmStatus::OutOfSteps, Some(_)) => issues.push("get_error() is Some but status is OutOfSteps".into()),
            _ => {}
        }
    }
    issues
}

fn call_record(rt: &mut Runtime, call: Call, status: &abra_core::vm::RuntimeStatus, events: Vec<Event>) -> (CallRecord, Option<Outcome>, String) {
    let mut err_text = String::new();
    let (st, fin) = match &status.kind {
        RuntimeStatusKind::Done => ("done".to_string(), Some(Outcome::Done)),
        RuntimeStatusKind::MainThreadError(e) => {
            let text = e.to_string();
            let k = error_kind(&text);
            err_text = text;
            (format!("err:{}", sanitize(&k)), Some(Outcome::Error(k)))
        }
        RuntimeStatusKind::OutOfSteps => ("out".to_string(), None),
        RuntimeStatusKind::PendingHostFunc => ("pending".to_string(), None),
    };
    let queue: Vec<(u64, String)> = rt
        .iter_threads_mut()
        .map(|th| {
            let f = match th.status() {
                VmStatus::Done => "d".to_string(),
                VmStatus::PendingHostFunc(n) => format!("p{n}"),
                VmStatus::OutOfSteps => String::new(),
                VmStatus::Error(_) => "e".to_string(),
            };
            (th.id(), f)
        })
        .collect();
    (CallRecord { call, events, status: st, steps: status.steps_consumed, queue }, fin, err_text)
}

/// like `run_traced_rt`, with a bound on the number of calls and, once completion or failure has been
/// reported, the further calls `after` (budgets) made without servicing anything
pub fn run_traced_after(mk: &MkRuntime, sched: &Schedule, max_steps: u64, host: HostFn, after: &[u32], max_calls: usize) -> Traced {
    let mut t = Traced {
        outcome: Outcome::Timeout,
        out: String::new(),
        err_text: String::new(),
        value: "-".into(),
        total_steps: 0,
        calls: vec![],
        main_id: 0,
        host_calls: vec![],
        after_calls: vec![],
        call_bound_hit: false,
        accessor_issues: vec![],
        api_gran: false,
    };
    let mut rt = mk();
    t.main_id = rt.main().id();
    verif_sched::start();
    let r = catch_unwind(AssertUnwindSafe(|| {
        let mut i = 0usize;
        loop {
            let call = sched.get(i);
            i += 1;
            let status = rt.run_n_steps(call.budget);
            let events = verif_sched::take();
            t.total_steps += status.steps_consumed as u64;
            if t.accessor_issues.len() < 5 {
                t.accessor_issues.extend(accessor_check(&mut rt, &status));
            }
            let (rec, fin, err_text) = call_record(&mut rt, call, &status, events);
            if !err_text.is_empty() {
                t.err_text = err_text;
            }
            t.calls.push(rec);
            if let Some(o) = fin {
                if o == Outcome::Done {
                    t.value = render_top(&rt);
                    if std::env::var("VERIF_DEBUG").is_ok() {
                        eprintln!("main after Done: {:?}", rt.main());
                    }
                }
                t.outcome = o;
                for &b in after {
                    let call = Call { budget: b, service: false };
                    let status = rt.run_n_steps(b);
                    let events = verif_sched::take();
                    let (rec, _, _) = call_record(&mut rt, call, &status, events);
                    t.after_calls.push(rec);
                }
                break;
            }
            if call.service {
                for thread in rt.iter_threads_mut() {
                    if let VmStatus::PendingHostFunc(n) = thread.status() {
                        if let Some(what) = host(n, thread, &mut t.out) {
                            t.host_calls.push((n, what));
                        }
                        thread.clear_pending_host_func();
                    }
                }
            }
            if t.total_steps > max_steps || i >= max_calls {
                t.call_bound_hit = i >= max_calls;
                break;
            }
        }
    }));
    verif_sched::stop();
    if let Err(p) = r {
        t.outcome = Outcome::Crash(panic_msg(p));
        std::mem::forget(rt);
    } else if let Err(p) = catch_unwind(AssertUnwindSafe(move || drop(rt))) {
        // tearing the runtime down must not fail either (heap accounting, double free …)
        t.outcome = Outcome::Crash(format!("while dropping the runtime: {}", panic_msg(p)));
    }
    t
}

/// canonical numbering of threads / channels / payload tokens and the two sides of the
/// trace-validation case: (request line for the model, implementation's answer)
pub fn trace_case(t: &Traced) -> (String, String) {
    let mut tid: HashMap<u64, usize> = HashMap::new();
    tid.insert(t.main_id, 0);
    let mut chan: HashMap<usize, usize> = HashMap::new();
    let mut nchan = 0usize;
    let mut tok: HashMap<(u64, u8), usize> = HashMap::new();
    let mut scripts: Vec<Vec<String>> = vec![vec![]];
    // thread -> channel of the read it is currently retrying (the instruction is not completed yet)
    let mut retrying: HashMap<usize, usize> = HashMap::new();
    let mut answer: Vec<String> = vec![];
    let mut calls: Vec<String> = vec![];
    let n_main_calls = t.calls.len();
    let finished = matches!(t.outcome, Outcome::Done | Outcome::Error(_));
    for (ci, c) in t.calls.iter().chain(t.after_calls.iter()).enumerate() {
        // nothing is serviced after the call that reported completion or failure
        let serviced = c.call.service && !(finished && ci + 1 == n_main_calls);
        calls.push(format!("{}{}{}", if t.api_gran { "g" } else { "" }, c.call.budget, if serviced { "" } else { "!" }));
        let mut evs: Vec<String> = vec![];
        // a Spawn step is followed by the Enqueue of the thread it created
        let mut pending_spawn: Option<(usize, usize)> = None; // (script index, position of the item)
        for e in &c.events {
            match e {
                Event::Enqueue { thread } => {
                    let n = tid.len();
                    let id = *tid.entry(*thread).or_insert(n);
                    while scripts.len() <= id {
                        scripts.push(vec![]);
                    }
                    if let Some((s, pos)) = pending_spawn.take() {
                        scripts[s][pos] = format!("s{id}");
                        let last = evs.len() - 1;
                        evs[last] = evs[last].replace("s?", &format!("s{id}"));
                    }
                }
                Event::Skip { .. } => {}
                Event::Step { thread, kind } => {
                    let n = tid.len();
                    let id = *tid.entry(*thread).or_insert(n);
                    while scripts.len() <= id {
                        scripts.push(vec![]);
                    }
                    let cid = |chan: &HashMap<usize, usize>, p: &usize| chan.get(p).copied().unwrap_or(9999);
                    let (item, ev): (Option<String>, String) = match kind {
                        StepKind::Other => (Some("o".into()), "o".into()),
                        StepKind::NewChan(p) => {
                            chan.insert(*p, nchan);
                            nchan += 1;
                            (Some("n".into()), format!("n{}", nchan - 1))
                        }
                        StepKind::ReadBlocked(p) => {
                            retrying.insert(id, cid(&chan, p));
                            (None, format!("b{}", cid(&chan, p)))
                        }
                        StepKind::ReadOk(p, bits, tag) => {
                            let n = tok.len();
                            let v = *tok.entry((*bits, *tag)).or_insert(n);
                            (Some(format!("r{}", cid(&chan, p))), format!("r{}:{}", cid(&chan, p), v))
                        }
                        StepKind::Write(p, bits, tag) => {
                            let n = tok.len();
                            let v = *tok.entry((*bits, *tag)).or_insert(n);
                            let s = format!("w{}:{}", cid(&chan, p), v);
                            (Some(s.clone()), s)
                        }
                        StepKind::Spawn => {
                            pending_spawn = Some((id, scripts[id].len()));
                            (Some("s?".into()), "s?".into())
                        }
                        StepKind::Host(n) => (Some(format!("h{n}")), format!("h{n}")),
                        StepKind::Stop => (Some("x".into()), "x".into()),
                        StepKind::Error(text) => {
                            let k = sanitize(&error_kind(text));
                            (Some(format!("e:{k}")), format!("e:{k}"))
                        }
                    };
                    if let Some(it) = item {
                        retrying.remove(&id);
                        scripts[id].push(it);
                    }
                    evs.push(format!("{id}.{ev}"));
                }
            }
        }
        let q: Vec<String> =
            c.queue.iter().map(|(id, f)| format!("{}{}", tid.get(id).copied().unwrap_or(9999), f)).collect();
        answer.push(format!(
            "{}|{}|{}|{}",
            if evs.is_empty() { "-".to_string() } else { evs.join(",") },
            c.status,
            c.steps,
            if q.is_empty() { "-".to_string() } else { q.join(",") }
        ));
    }
    for (id, c) in &retrying {
        scripts[*id].push(format!("r{c}"));
    }
    let scripts: Vec<String> =
        scripts.iter().map(|s| if s.is_empty() { "-".to_string() } else { s.join(",") }).collect();
    (format!("sched {} {}", calls.join(","), scripts.join(" ")), answer.join(";"))
}

/// number of executed instructions the hook saw in a call
pub fn executed(c: &CallRecord) -> u32 {
    c.events.iter().filter(|e| matches!(e, Event::Step { .. })).count() as u32
}

// ------------------------------------------------------------------ running a program in a child process
// A defect of the VM can abort the whole process (stack overflow, double free, a panic while a panic is
// unwinding).  C08/C09 therefore run every program in a child: the harness binary re-executes itself with
// `--child-run`, the job comes in on stdin, one line per schedule goes out on stdout.  An abnormal end of
// the child is attributed to the program it was running.

#[derive(Clone, Debug)]
pub struct ChildRun {
    pub desc: String,
    pub outcome: String,
    pub out: String,
    pub value: String,
    pub err_text: String,
    pub steps: u64,
    /// order/once violation found in the event log (see `fifo_violation`)
    pub fifo: Option<String>,
    pub blocked_reads: usize,
    pub trace: Option<(String, String)>,
}

fn enc(s: &str) -> String {
    hex(s.as_bytes())
}
fn dec(s: &str) -> String {
    if s == "-" {
        return String::new();
    }
    let b: Vec<u8> = (0..s.len() / 2).map(|i| u8::from_str_radix(&s[2 * i..2 * i + 2], 16).unwrap_or(b'?')).collect();
    String::from_utf8_lossy(&b).to_string()
}

fn sched_to_line(s: &Schedule) -> String {
    let f = |c: &Call| format!("{}{}", c.budget, if c.service { "" } else { "!" });
    format!(
        "{}|{}",
        s.prefix.iter().map(f).collect::<Vec<_>>().join(","),
        s.cycle.iter().map(f).collect::<Vec<_>>().join(",")
    )
}
fn sched_from_line(l: &str) -> Schedule {
    let p = |x: &str| -> Vec<Call> {
        x.split(',')
            .filter(|w| !w.is_empty())
            .map(|w| Call { budget: w.trim_end_matches('!').parse().unwrap_or(1), service: !w.ends_with('!') })
            .collect()
    };
    let (a, b) = l.split_once('|').unwrap_or(("", l));
    Schedule { prefix: p(a), cycle: p(b) }
}

/// per channel: the popped sequence must be a prefix of the pushed sequence (raw (bits, tag) payloads)
pub fn fifo_violation(t: &Traced) -> Option<String> {
    let mut pushed: HashMap<usize, Vec<(u64, u8)>> = HashMap::new();
    let mut popped: HashMap<usize, usize> = HashMap::new();
    for c in &t.calls {
        for e in &c.events {
            if let Event::Step { kind, .. } = e {
                match kind {
                    StepKind::Write(ch, bits, tag) => pushed.entry(*ch).or_default().push((*bits, *tag)),
                    StepKind::ReadOk(ch, bits, tag) => {
                        let n = popped.entry(*ch).or_insert(0);
                        *n += 1;
                        let w = pushed.get(ch).map(|v| v.as_slice()).unwrap_or(&[]);
                        if *n > w.len() || w[*n - 1] != (*bits, *tag) {
                            return Some(format!("read #{n} of a channel popped {:?} but write #{n} was {:?}", (*bits, *tag), w.get(*n - 1)));
                        }
                    }
                    _ => {}
                }
            }
        }
    }
    None
}

pub fn blocked_reads(t: &Traced) -> usize {
    t.calls.iter().flat_map(|c| c.events.iter()).filter(|e| matches!(e, Event::Step { kind: StepKind::ReadBlocked(_), .. })).count()
}

fn read_line(input: &[u8], pos: &mut usize) -> String {
    let start = *pos;
    while *pos < input.len() && input[*pos] != b'\n' {
        *pos += 1;
    }
    let l = String::from_utf8_lossy(&input[start..*pos]).to_string();
    *pos += 1;
    l
}

/// call first thing in `main`: serves `--child-run` and never returns in that case.
/// stdin: line 1 = max_steps, line 2 = number of jobs; per job: a header line
/// `<trace index or -1> <number of schedules> <byte length of the source>`, the schedule lines, the source.
pub fn child_run_if_requested() {
    let args: Vec<String> = std::env::args().collect();
    if args.get(1).map(|s| s.as_str()) != Some("--child-run") {
        return;
    }
    std::panic::set_hook(Box::new(|_| {}));
    let mut input = Vec::new();
    use std::io::Read as _;
    std::io::stdin().read_to_end(&mut input).unwrap();
    let mut pos = 0usize;
    let max_steps: u64 = read_line(&input, &mut pos).parse().unwrap_or(1_000_000);
    let njobs: usize = read_line(&input, &mut pos).parse().unwrap_or(0);
    let out = std::io::stdout();
    use std::io::Write as _;
    // compiling Abra needs a deep stack
    let body = move || {
        let mut pos = pos;
        for job in 0..njobs {
            let header = read_line(&input, &mut pos);
            let h: Vec<i64> = header.split(' ').map(|x| x.parse().unwrap_or(-1)).collect();
            let (trace_idx, n, len) = (h[0], h[1] as usize, h[2] as usize);
            let scheds: Vec<Schedule> = (0..n).map(|_| sched_from_line(&read_line(&input, &mut pos))).collect();
            let src = String::from_utf8_lossy(&input[pos..pos + len]).to_string();
            pos += len;
            writeln!(out.lock(), "JOB\t{job}").unwrap();
            match compile_program(&src) {
                Err(o) => {
                    let text = match &o {
                        Outcome::Rejected(e) => e.clone(),
                        Outcome::Crash(e) => e.clone(),
                        _ => String::new(),
                    };
                    writeln!(out.lock(), "COMPILE\t{}\t{}", o.tag(), enc(&text)).unwrap();
                }
                Ok(mk) => {
                    for (k, s) in scheds.iter().enumerate() {
                        // announce the run first: if the process dies, the parent knows in which run
                        writeln!(out.lock(), "BEGIN\t{}", enc(&s.describe())).unwrap();
                        out.lock().flush().unwrap();
                        let mut h = prelude_host(&PRELUDE_HOSTS);
                        let t = run_traced_rt(&mk, s, max_steps, &mut h);
                        let tr = if k as i64 == trace_idx && t.total_steps <= 2500 && !matches!(t.outcome, Outcome::Crash(_)) {
                            let (a, b) = trace_case(&t);
                            format!("{}\t{}", enc(&a), enc(&b))
                        } else {
                            "-\t-".to_string()
                        };
                        let crash = if let Outcome::Crash(m) = &t.outcome { m.clone() } else { t.err_text.clone() };
                        writeln!(
                            out.lock(),
                            "RUN\t{}\t{}\t{}\t{}\t{}\t{}\t{}\t{}\t{}",
                            enc(&s.describe()),
                            t.outcome.tag(),
                            enc(&t.out),
                            enc(&t.value),
                            enc(&crash),
                            t.total_steps,
                            enc(&fifo_violation(&t).unwrap_or_default()),
                            blocked_reads(&t),
                            tr
                        )
                        .unwrap();
                        out.lock().flush().unwrap();
                    }
                }
            }
            writeln!(out.lock(), "ENDJOB\t{job}").unwrap();
            out.lock().flush().unwrap();
        }
    };
    let h = std::thread::Builder::new().stack_size(256 << 20).spawn(body).unwrap();
    let ok = h.join().is_ok();
    std::process::exit(if ok { 0 } else { 101 });
}

pub enum ChildResult {
    /// the compiler rejected the program / panicked: (tag, text)
    Compile(String, String),
    Runs(Vec<ChildRun>),
    /// the child process ended abnormally: what happened, the runs completed before, the run in progress
    Died(String, Vec<ChildRun>, Option<String>),
}

pub struct ChildJob<'a> {
    pub src: &'a str,
    pub scheds: &'a [Schedule],
    pub trace_idx: Option<usize>,
}

/// run `src` under `scheds` in a child process of its own
pub fn run_in_child(src: &str, scheds: &[Schedule], max_steps: u64, trace_idx: Option<usize>) -> ChildResult {
    run_batch_in_child(&[ChildJob { src, scheds, trace_idx }], max_steps).into_iter().next().unwrap()
}

/// Run a batch of programs in one child process.  If the child dies, the program it was running is
/// reported `Died` and the programs after it are run again, each in a child of its own.
pub fn run_batch_in_child(jobs: &[ChildJob], max_steps: u64) -> Vec<ChildResult> {
    use std::io::Write as _;
    use std::process::{Command, Stdio};
    let exe = std::env::current_exe().unwrap();
    let mut input: Vec<u8> = format!("{max_steps}\n{}\n", jobs.len()).into_bytes();
    for j in jobs {
        input.extend_from_slice(
            format!("{} {} {}\n", j.trace_idx.map(|x| x as i64).unwrap_or(-1), j.scheds.len(), j.src.len()).as_bytes(),
        );
        for s in j.scheds {
            input.extend_from_slice(sched_to_line(s).as_bytes());
            input.push(b'\n');
        }
        input.extend_from_slice(j.src.as_bytes());
    }
    let died_all = |what: String| -> Vec<ChildResult> { jobs.iter().map(|_| ChildResult::Died(what.clone(), vec![], None)).collect() };
    let mut child = match Command::new(exe).arg("--child-run").stdin(Stdio::piped()).stdout(Stdio::piped()).stderr(Stdio::piped()).spawn() {
        Ok(c) => c,
        Err(e) => return died_all(format!("cannot start child: {e}")),
    };
    {
        let mut stdin = child.stdin.take().unwrap();
        let _ = stdin.write_all(&input);
    }
    let o = match child.wait_with_output() {
        Ok(o) => o,
        Err(e) => return died_all(format!("child wait failed: {e}")),
    };
    let text = String::from_utf8_lossy(&o.stdout);
    let mut results: Vec<ChildResult> = vec![];
    let mut runs: Vec<ChildRun> = vec![];
    let mut compile: Option<(String, String)> = None;
    let mut in_progress: Option<String> = None;
    let mut open_job = false;
    for l in text.lines() {
        let f: Vec<&str> = l.split('\t').collect();
        match f[0] {
            "JOB" => {
                open_job = true;
                runs = vec![];
                compile = None;
                in_progress = None;
            }
            "COMPILE" if f.len() >= 3 => compile = Some((f[1].to_string(), dec(f[2]))),
            "BEGIN" if f.len() >= 2 => in_progress = Some(dec(f[1])),
            "RUN" if f.len() >= 11 => {
                in_progress = None;
                let fifo = dec(f[7]);
                runs.push(ChildRun {
                    desc: dec(f[1]),
                    outcome: f[2].to_string(),
                    out: dec(f[3]),
                    value: dec(f[4]),
                    err_text: dec(f[5]),
                    steps: f[6].parse().unwrap_or(0),
                    fifo: if fifo.is_empty() { None } else { Some(fifo) },
                    blocked_reads: f[8].parse().unwrap_or(0),
                    trace: if f[9] == "-" && f[10] == "-" { None } else { Some((dec(f[9]), dec(f[10]))) },
                });
            }
            "ENDJOB" => {
                open_job = false;
                results.push(match compile.take() {
                    Some((a, b)) => ChildResult::Compile(a, b),
                    None => ChildResult::Runs(std::mem::take(&mut runs)),
                });
            }
            _ => {}
        }
    }
    if results.len() < jobs.len() {
        // the child died inside job number results.len() (or before announcing it)
        let err = String::from_utf8_lossy(&o.stderr);
        let tail: String = err.lines().rev().take(3).collect::<Vec<_>>().into_iter().rev().collect::<Vec<_>>().join(" | ");
        let _ = open_job;
        results.push(ChildResult::Died(format!("{:?} {}", o.status, tail), std::mem::take(&mut runs), in_progress));
        let next = results.len();
        for j in &jobs[next..] {
            results.extend(run_batch_in_child(std::slice::from_ref(j), max_steps));
        }
    }
    results
}

// ------------------------------------------------------------------ the one-call slicings of the API

#[derive(Clone, Copy, Debug, PartialEq)]
pub enum ApiMode {
    /// `Runtime::run()`
    Run,
    /// `Runtime::run_with_granularity(n)`
    Granularity(u32),
    /// `VmGreenThread::run()` on the main thread (programs without tasks only: a blocked read would spin for ever)
    ThreadRun,
}

/// drive a program through the API's own loops; host calls are serviced whenever the call returns
/// `PendingHostFunc`.  At most `max_returns` returns.
pub fn run_api(mk: &MkRuntime, mode: ApiMode, host: HostFn, max_returns: usize) -> Traced {
    let mut t = Traced {
        outcome: Outcome::Timeout,
        out: String::new(),
        err_text: String::new(),
        value: "-".into(),
        total_steps: 0,
        calls: vec![],
        main_id: 0,
        host_calls: vec![],
        after_calls: vec![],
        call_bound_hit: false,
        accessor_issues: vec![],
        api_gran: !matches!(mode, ApiMode::ThreadRun),
    };
    let mut rt = mk();
    t.main_id = rt.main().id();
    let main_id = t.main_id;
    verif_sched::start();
    let r = catch_unwind(AssertUnwindSafe(|| {
        for _ in 0..max_returns {
            let status = match mode {
                ApiMode::Run => rt.run(),
                ApiMode::Granularity(n) => rt.run_with_granularity(n),
                ApiMode::ThreadRun => {
                    // run the main thread by itself until it stops, then let the runtime report
                    if let Some(th) = rt.iter_threads_mut().find(|th| th.id() == main_id) {
                        if matches!(th.status(), VmStatus::OutOfSteps) {
                            th.run();
                        }
                    }
                    rt.run_n_steps(0)
                }
            };
            let events = verif_sched::take();
            t.total_steps += status.steps_consumed as u64;
            if t.accessor_issues.len() < 5 {
                t.accessor_issues.extend(accessor_check(&mut rt, &status));
            }
            let budget = match mode {
                ApiMode::Run => u32::MAX,
                ApiMode::Granularity(n) => n,
                ApiMode::ThreadRun => 0,
            };
            let (rec, fin, err_text) = call_record(&mut rt, Call { budget, service: true }, &status, events);
            if !err_text.is_empty() {
                t.err_text = err_text;
            }
            let st = rec.status.clone();
            t.calls.push(rec);
            if let Some(o) = fin {
                if o == Outcome::Done {
                    t.value = render_top(&rt);
                }
                t.outcome = o;
                return;
            }
            if st == "out" && !matches!(mode, ApiMode::ThreadRun) {
                // the API loops never hand OutOfSteps back
                t.accessor_issues.push(format!("{:?} returned OutOfSteps", mode));
            }
            for thread in rt.iter_threads_mut() {
                if let VmStatus::PendingHostFunc(n) = thread.status() {
                    if let Some(what) = host(n, thread, &mut t.out) {
                        t.host_calls.push((n, what));
                    }
                    thread.clear_pending_host_func();
                }
            }
        }
        t.call_bound_hit = true;
    }));
    verif_sched::stop();
    if let Err(p) = r {
        t.outcome = Outcome::Crash(panic_msg(p));
        std::mem::forget(rt);
    } else if let Err(p) = catch_unwind(AssertUnwindSafe(move || drop(rt))) {
        t.outcome = Outcome::Crash(format!("while dropping the runtime: {}", panic_msg(p)));
    }
    t
}
