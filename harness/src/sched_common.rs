//! Shared by the scheduler/runtime properties C08–C11 (included with `#[path]` from their bins):
//! a drive loop over explicit `run_n_steps` schedules that records the `verif_sched` hook's event
//! log, canonicalises it, extracts per-thread scripts for the Lean model `Abra.Sched` and renders the
//! implementation's side of the trace-validation answer.
#![allow(dead_code)]
use abra_core::vm::verif_sched::{self, Event, StepKind};
use abra_core::vm::{Runtime, RuntimeStatusKind, VmGreenThread, VmStatus};
use abra_core::{VmType, compile_bytecode};
use std::collections::HashMap;
use std::panic::{AssertUnwindSafe, catch_unwind};
use vh::*;

/// one `run_n_steps` call of the embedder
#[derive(Clone, Copy, Debug)]
pub struct Call {
    pub budget: u32,
    /// service pending host calls after the call (false = the host is slow and calls again first)
    pub service: bool,
}

/// budgets are cycled until the program ends
#[derive(Clone, Debug)]
pub struct Schedule {
    pub prefix: Vec<Call>,
    pub cycle: Vec<Call>,
}
impl Schedule {
    pub fn constant(b: u32) -> Schedule {
        Schedule { prefix: vec![], cycle: vec![Call { budget: b, service: true }] }
    }
    pub fn cyc(bs: &[u32]) -> Schedule {
        Schedule { prefix: vec![], cycle: bs.iter().map(|&b| Call { budget: b, service: true }).collect() }
    }
    pub fn get(&self, i: usize) -> Call {
        if i < self.prefix.len() { self.prefix[i] } else { self.cycle[(i - self.prefix.len()) % self.cycle.len()] }
    }
    pub fn describe(&self) -> String {
        let f = |c: &Call| format!("{}{}", c.budget, if c.service { "" } else { "!" });
        format!(
            "[{}]({})*",
            self.prefix.iter().map(f).collect::<Vec<_>>().join(","),
            self.cycle.iter().map(f).collect::<Vec<_>>().join(",")
        )
    }
}

#[derive(Clone, Debug)]
pub struct CallRecord {
    pub call: Call,
    pub events: Vec<Event>,
    pub status: String,
    pub steps: u32,
    /// run queue after the call, before servicing: (raw thread id, flag) flag = "", "d", "p<n>", "e"
    pub queue: Vec<(u64, String)>,
}

#[derive(Clone, Debug)]
pub struct Traced {
    pub outcome: Outcome,
    pub out: String,
    pub err_text: String,
    /// rendering of `top()` after Done ("-" when there is none / not done)
    pub value: String,
    pub total_steps: u64,
    pub calls: Vec<CallRecord>,
    pub main_id: u64,
    /// host calls seen: (function number, rendering of what the host popped), in service order
    pub host_calls: Vec<(u16, String)>,
}

pub fn sanitize(s: &str) -> String {
    s.chars().map(|c| if c.is_ascii_alphanumeric() { c } else { '_' }).collect()
}

/// render the final value by tag (scalars and strings by content, other heap values by tag only)
pub fn render_top(rt: &Runtime) -> String {
    let r = catch_unwind(AssertUnwindSafe(|| {
        let v = rt.top();
        let d = format!("{:?}", v); // "Value(<bits>, <Tag>)"
        let tag = d.trim_end_matches(')').rsplit(", ").next().unwrap_or("").to_string();
        match tag.as_str() {
            "Int" => format!("int:{}", v.get_int(rt.main())),
            "Float" => format!("float:{:016x}", v.get_float(rt.main()).to_bits()),
            "Bool" => format!("bool:{}", v.get_bool(rt.main())),
            "String" => format!("str:{}", hex(v.view_string(rt.main()).as_bytes())),
            t => format!("heap:{t}"),
        }
    }));
    r.unwrap_or_else(|_| "-".into())
}

pub type HostFn<'a> = &'a mut dyn FnMut(u16, &mut VmGreenThread, &mut String) -> Option<String>;

/// prelude host functions (numbering passed in: the prelude's four are alphabetical among all #host fns)
pub fn prelude_host(names: &[&str]) -> impl FnMut(u16, &mut VmGreenThread, &mut String) -> Option<String> {
    let names: Vec<String> = names.iter().map(|s| s.to_string()).collect();
    move |n, thread, out| {
        match names.get(n as usize).map(|s| s.as_str()) {
            Some("eprint_string") => {
                let s = String::from_vm(thread);
                Some(format!("eprint:{}", hex(s.as_bytes())))
            }
            Some("get_args") => {
                Vec::<String>::new().to_vm(thread);
                Some("get_args".into())
            }
            Some("print_string") => {
                let s = String::from_vm(thread);
                out.push_str(&s);
                Some(format!("print:{}", hex(s.as_bytes())))
            }
            Some("readline") => {
                String::new().to_vm(thread);
                Some("readline".into())
            }
            _ => None,
        }
    }
}

pub const PRELUDE_HOSTS: [&str; 4] = ["eprint_string", "get_args", "print_string", "readline"];

/// compile + run under an explicit schedule with the scheduler event log on.
/// `host` services one pending call (pops arguments, pushes the result); it is called for every
/// thread of the run queue that is pending, in queue order, like `vh::service_host`.
pub type MkRuntime = Box<dyn Fn() -> Runtime + Send + Sync>;

/// compile once; the returned closure makes a fresh `Runtime` of the program
pub fn compile_program(src: &str) -> Result<MkRuntime, Outcome> {
    match catch_unwind(AssertUnwindSafe(|| compile_bytecode("main.abra", provider(src, &[])))) {
        Ok(Ok(p)) => Ok(Box::new(move || Runtime::new(p.clone()))),
        Ok(Err(e)) => Err(Outcome::Rejected(e.to_string())),
        Err(p) => Err(Outcome::Crash(format!("compiler: {}", panic_msg(p)))),
    }
}

pub fn run_traced(src: &str, sched: &Schedule, max_steps: u64, host: HostFn) -> Traced {
    match compile_program(src) {
        Ok(mk) => run_traced_rt(&mk, sched, max_steps, host),
        Err(o) => Traced {
            outcome: o,
            out: String::new(),
            err_text: String::new(),
            value: "-".into(),
            total_steps: 0,
            calls: vec![],
            main_id: 0,
            host_calls: vec![],
        },
    }
}

pub fn run_traced_rt(mk: &MkRuntime, sched: &Schedule, max_steps: u64, host: HostFn) -> Traced {
    let mut t = Traced {
        outcome: Outcome::Timeout,
        out: String::new(),
        err_text: String::new(),
        value: "-".into(),
        total_steps: 0,
        calls: vec![],
        main_id: 0,
        host_calls: vec![],
    };
    let mut rt = mk();
    t.main_id = rt.main().id();
    verif_sched::start();
    let r = catch_unwind(AssertUnwindSafe(|| {
        let mut i = 0usize;
        loop {
            let call = sched.get(i);
            i += 1;
            let status = rt.run_n_steps(call.budget);
            let events = verif_sched::take();
            t.total_steps += status.steps_consumed as u64;
            let (st, fin) = match &status.kind {
                RuntimeStatusKind::Done => ("done".to_string(), Some(Outcome::Done)),
                RuntimeStatusKind::MainThreadError(e) => {
                    let text = e.to_string();
                    let k = error_kind(&text);
                    t.err_text = text;
                    (format!("err:{}", sanitize(&k)), Some(Outcome::Error(k)))
                }
                RuntimeStatusKind::OutOfSteps => ("out".to_string(), None),
                RuntimeStatusKind::PendingHostFunc => ("pending".to_string(), None),
            };
            let queue: Vec<(u64, String)> = rt
                .iter_threads_mut()
                .map(|th| {
                    let f = match th.status() {
                        VmStatus::Done => "d".to_string(),
                        VmStatus::PendingHostFunc(n) => format!("p{n}"),
                        VmStatus::OutOfSteps => String::new(),
                        VmStatus::Error(_) => "e".to_string(),
                    };
                    (th.id(), f)
                })
                .collect();
            t.calls.push(CallRecord { call, events, status: st, steps: status.steps_consumed, queue });
            if let Some(o) = fin {
                if o == Outcome::Done {
                    t.value = render_top(&rt);
                    if std::env::var("VERIF_DEBUG").is_ok() {
                        eprintln!("main after Done: {:?}", rt.main());
                    }
                }
                t.outcome = o;
                break;
            }
            if call.service {
                for thread in rt.iter_threads_mut() {
                    if let VmStatus::PendingHostFunc(n) = thread.status() {
                        if let Some(what) = host(n, thread, &mut t.out) {
                            t.host_calls.push((n, what));
                        }
                        thread.clear_pending_host_func();
                    }
                }
            }
            if t.total_steps > max_steps || i > 4_000_000 {
                break;
            }
        }
    }));
    verif_sched::stop();
    if let Err(p) = r {
        t.outcome = Outcome::Crash(panic_msg(p));
        std::mem::forget(rt);
    }
    t
}

/// canonical numbering of threads / channels / payload tokens and the two sides of the
/// trace-validation case: (request line for the model, implementation's answer)
pub fn trace_case(t: &Traced) -> (String, String) {
    let mut tid: HashMap<u64, usize> = HashMap::new();
    tid.insert(t.main_id, 0);
    let mut chan: HashMap<usize, usize> = HashMap::new();
    let mut nchan = 0usize;
    let mut tok: HashMap<(u64, u8), usize> = HashMap::new();
    let mut scripts: Vec<Vec<String>> = vec![vec![]];
    // thread -> channel of the read it is currently retrying (the instruction is not completed yet)
    let mut retrying: HashMap<usize, usize> = HashMap::new();
    let mut answer: Vec<String> = vec![];
    let mut calls: Vec<String> = vec![];
    for c in &t.calls {
        calls.push(format!("{}{}", c.call.budget, if c.call.service { "" } else { "!" }));
        let mut evs: Vec<String> = vec![];
        // a Spawn step is followed by the Enqueue of the thread it created
        let mut pending_spawn: Option<(usize, usize)> = None; // (script index, position of the item)
        for e in &c.events {
            match e {
                Event::Enqueue { thread } => {
                    let n = tid.len();
                    let id = *tid.entry(*thread).or_insert(n);
                    while scripts.len() <= id {
                        scripts.push(vec![]);
                    }
                    if let Some((s, pos)) = pending_spawn.take() {
                        scripts[s][pos] = format!("s{id}");
                        let last = evs.len() - 1;
                        evs[last] = evs[last].replace("s?", &format!("s{id}"));
                    }
                }
                Event::Skip { .. } => {}
                Event::Step { thread, kind } => {
                    let n = tid.len();
                    let id = *tid.entry(*thread).or_insert(n);
                    while scripts.len() <= id {
                        scripts.push(vec![]);
                    }
                    let cid = |chan: &HashMap<usize, usize>, p: &usize| chan.get(p).copied().unwrap_or(9999);
                    let (item, ev): (Option<String>, String) = match kind {
                        StepKind::Other => (Some("o".into()), "o".into()),
                        StepKind::NewChan(p) => {
                            chan.insert(*p, nchan);
                            nchan += 1;
                            (Some("n".into()), format!("n{}", nchan - 1))
                        }
                        StepKind::ReadBlocked(p) => {
                            retrying.insert(id, cid(&chan, p));
                            (None, format!("b{}", cid(&chan, p)))
                        }
                        StepKind::ReadOk(p, bits, tag) => {
                            let n = tok.len();
                            let v = *tok.entry((*bits, *tag)).or_insert(n);
                            (Some(format!("r{}", cid(&chan, p))), format!("r{}:{}", cid(&chan, p), v))
                        }
                        StepKind::Write(p, bits, tag) => {
                            let n = tok.len();
                            let v = *tok.entry((*bits, *tag)).or_insert(n);
                            let s = format!("w{}:{}", cid(&chan, p), v);
                            (Some(s.clone()), s)
                        }
                        StepKind::Spawn => {
                            pending_spawn = Some((id, scripts[id].len()));
                            (Some("s?".into()), "s?".into())
                        }
                        StepKind::Host(n) => (Some(format!("h{n}")), format!("h{n}")),
                        StepKind::Stop => (Some("x".into()), "x".into()),
                        StepKind::Error(text) => {
                            let k = sanitize(&error_kind(text));
                            (Some(format!("e:{k}")), format!("e:{k}"))
                        }
                    };
                    if let Some(it) = item {
                        retrying.remove(&id);
                        scripts[id].push(it);
                    }
                    evs.push(format!("{id}.{ev}"));
                }
            }
        }
        let q: Vec<String> =
            c.queue.iter().map(|(id, f)| format!("{}{}", tid.get(id).copied().unwrap_or(9999), f)).collect();
        answer.push(format!(
            "{}|{}|{}|{}",
            if evs.is_empty() { "-".to_string() } else { evs.join(",") },
            c.status,
            c.steps,
            if q.is_empty() { "-".to_string() } else { q.join(",") }
        ));
    }
    for (id, c) in &retrying {
        scripts[*id].push(format!("r{c}"));
    }
    let scripts: Vec<String> =
        scripts.iter().map(|s| if s.is_empty() { "-".to_string() } else { s.join(",") }).collect();
    (format!("sched {} {}", calls.join(","), scripts.join(" ")), answer.join(";"))
}

/// number of executed instructions the hook saw in a call
pub fn executed(c: &CallRecord) -> u32 {
    c.events.iter().filter(|e| matches!(e, Event::Step { .. })).count() as u32
}
