//! Shared harness code: PRNG, running Abra programs in-process against the real crates,
//! case files for the Lean model driver.
pub mod gcdrive;
use abra_core::vm::{Runtime, RuntimeStatusKind, VmStatus};
use abra_core::{MockFileProvider, VmType, compile_bytecode};
use std::collections::HashMap;
use std::fmt::Write as _;
use std::io::Write as _;
use std::panic::{AssertUnwindSafe, catch_unwind};
use std::path::PathBuf;

// ---------------------------------------------------------------- PRNG
#[derive(Clone)]
pub struct Rng(pub u64);
impl Rng {
    pub fn new(seed: u64) -> Self {
        Rng(seed ^ 0x9E37_79B9_7F4A_7C15)
    }
    pub fn next(&mut self) -> u64 {
        self.0 = self.0.wrapping_add(0x9E37_79B9_7F4A_7C15);
        let mut z = self.0;
        z = (z ^ (z >> 30)).wrapping_mul(0xBF58_476D_1CE4_E5B9);
        z = (z ^ (z >> 27)).wrapping_mul(0x94D0_49BB_1331_11EB);
        z ^ (z >> 31)
    }
    pub fn below(&mut self, n: u64) -> u64 {
        if n == 0 { 0 } else { self.next() % n }
    }
    pub fn range(&mut self, lo: i64, hi: i64) -> i64 {
        // inclusive
        let span = (hi as i128 - lo as i128 + 1) as u128;
        (lo as i128 + (self.next() as u128 % span) as i128) as i64
    }
    pub fn pick<'a, T>(&mut self, xs: &'a [T]) -> &'a T {
        &xs[self.below(xs.len() as u64) as usize]
    }
    pub fn chance(&mut self, num: u64, den: u64) -> bool {
        self.below(den) < num
    }
}

// ---------------------------------------------------------------- command line / environment
pub struct Ctx {
    pub prop: String,
    pub tier: String,
    pub seed: u64,
    pub out_dir: PathBuf,
    pub rng: Rng,
    cases: Vec<(String, String)>,
    pub spec_failures: Vec<String>,
    pub hist: std::collections::BTreeMap<String, u64>,
    pub notes: Vec<String>,
    pub known_findings: Vec<String>,
}

impl Ctx {
    /// args: <out_dir>; env VERIF_SEED, VERIF_TIER
    pub fn from_env(prop: &str) -> Ctx {
        let out_dir = std::env::args().nth(1).expect("usage: <bin> <out_dir>");
        let seed: u64 = std::env::var("VERIF_SEED")
            .ok()
            .and_then(|s| s.parse::<i64>().ok())
            .map(|x| x as u64)
            .unwrap_or(1);
        let tier = std::env::var("VERIF_TIER").unwrap_or_else(|_| "quick".into());
        std::fs::create_dir_all(&out_dir).unwrap();
        // keep panic messages out of the way: cases are wrapped in catch_unwind
        std::panic::set_hook(Box::new(|_| {}));
        Ctx {
            prop: prop.to_string(),
            tier,
            seed,
            out_dir: out_dir.into(),
            rng: Rng::new(seed),
            cases: vec![],
            spec_failures: vec![],
            hist: Default::default(),
            notes: vec![],
            known_findings: vec![],
        }
    }
    pub fn quick(&self) -> bool {
        self.tier != "thorough"
    }
    /// one correspondence case: the request line for the Lean driver and the implementation's answer
    pub fn case(&mut self, req: impl Into<String>, imp: impl Into<String>) {
        let req = req.into();
        let imp = imp.into();
        debug_assert!(!req.contains('\n') && !imp.contains('\n'));
        self.cases.push((req, imp));
    }
    /// the implementation contradicts the executable specification of the property itself
    pub fn spec_fail(&mut self, what: impl Into<String>) {
        self.spec_failures.push(what.into());
    }
    pub fn count(&mut self, key: &str) {
        *self.hist.entry(key.to_string()).or_insert(0) += 1;
    }
    pub fn finish(self) {
        let mut f = std::io::BufWriter::new(
            std::fs::File::create(self.out_dir.join("cases.tsv")).unwrap(),
        );
        for (r, i) in &self.cases {
            writeln!(f, "{}\t{}", r, i).unwrap();
        }
        f.flush().unwrap();
        let mut s = String::new();
        writeln!(s, "{{").unwrap();
        writeln!(s, "  \"prop\": {},", json_str(&self.prop)).unwrap();
        writeln!(s, "  \"seed\": {},", self.seed as i64).unwrap();
        writeln!(s, "  \"tier\": {},", json_str(&self.tier)).unwrap();
        writeln!(s, "  \"cases\": {},", self.cases.len()).unwrap();
        writeln!(
            s,
            "  \"spec_failures\": [{}],",
            self.spec_failures.iter().map(|x| json_str(x)).collect::<Vec<_>>().join(", ")
        )
        .unwrap();
        writeln!(
            s,
            "  \"known_findings\": [{}],",
            self.known_findings.iter().map(|x| json_str(x)).collect::<Vec<_>>().join(", ")
        )
        .unwrap();
        writeln!(
            s,
            "  \"notes\": [{}],",
            self.notes.iter().map(|x| json_str(x)).collect::<Vec<_>>().join(", ")
        )
        .unwrap();
        writeln!(
            s,
            "  \"hist\": {{{}}}",
            self.hist
                .iter()
                .map(|(k, v)| format!("{}: {}", json_str(k), v))
                .collect::<Vec<_>>()
                .join(", ")
        )
        .unwrap();
        writeln!(s, "}}").unwrap();
        std::fs::write(self.out_dir.join("stats.json"), s).unwrap();
    }
}

pub fn json_str(s: &str) -> String {
    let mut o = String::from("\"");
    for c in s.chars() {
        match c {
            '"' => o.push_str("\\\""),
            '\\' => o.push_str("\\\\"),
            '\n' => o.push_str("\\n"),
            '\r' => o.push_str("\\r"),
            '\t' => o.push_str("\\t"),
            c if (c as u32) < 0x20 => write!(o, "\\u{:04x}", c as u32).unwrap(),
            c => o.push(c),
        }
    }
    o.push('"');
    o
}

pub fn hex(bytes: &[u8]) -> String {
    if bytes.is_empty() {
        return "-".into();
    }
    let mut s = String::with_capacity(bytes.len() * 2);
    for b in bytes {
        write!(s, "{:02x}", b).unwrap();
    }
    s
}

// ---------------------------------------------------------------- running Abra programs
#[derive(Debug, Clone, PartialEq)]
pub enum Outcome {
    /// main finished
    Done,
    /// documented runtime error; payload = canonical kind
    Error(String),
    /// diagnostics (program rejected)
    Rejected(String),
    /// host panic inside compiler/VM
    Crash(String),
    /// step limit reached
    Timeout,
}

impl Outcome {
    pub fn tag(&self) -> String {
        match self {
            Outcome::Done => "done".into(),
            Outcome::Error(k) => format!("error:{k}"),
            Outcome::Rejected(_) => "rejected".into(),
            Outcome::Crash(_) => "crash".into(),
            Outcome::Timeout => "timeout".into(),
        }
    }
}

#[derive(Debug, Clone)]
pub struct RunResult {
    pub outcome: Outcome,
    /// everything passed to print_string, in order
    pub out: String,
    pub err_text: String,
    pub steps: u64,
}

/// Canonical error kind from the first line of `VmError`'s Display.
pub fn error_kind(text: &str) -> String {
    let first = text.lines().next().unwrap_or("");
    if first.starts_with("error: indexed past the end") {
        "oob".into()
    } else if first.starts_with("panic:") {
        "panic".into()
    } else if first.starts_with("error: integer overflow") {
        "overflow".into()
    } else if first.starts_with("error: division by zero") {
        "divzero".into()
    } else {
        format!("internal({first})")
    }
}

pub struct RunOpts {
    /// step budget handed to each `run_n_steps` call, cycled
    pub budgets: Vec<u32>,
    pub max_steps: u64,
    pub files: Vec<(String, String)>,
}
impl Default for RunOpts {
    fn default() -> Self {
        RunOpts { budgets: vec![1000], max_steps: 5_000_000, files: vec![] }
    }
}

pub fn provider(src: &str, extra: &[(String, String)]) -> Box<MockFileProvider> {
    let mut m: HashMap<PathBuf, String> = HashMap::new();
    m.insert("main.abra".into(), src.to_string());
    for (k, v) in extra {
        m.insert(k.into(), v.clone());
    }
    MockFileProvider::new(m)
}

/// Root of the repository under test: /repo, or $VERIF_REPO when the checks are tried against a scratch worktree.
pub fn repo_root() -> PathBuf {
    PathBuf::from(std::env::var("VERIF_REPO").unwrap_or_else(|_| "/repo".into()))
}

/// Load the standard `core/*.abra` modules from /repo so programs can `use core/map`.
pub fn core_modules() -> Vec<(String, String)> {
    let mut v = vec![];
    let dir = repo_root().join("modules/core");
    if let Ok(rd) = std::fs::read_dir(dir) {
        for e in rd.flatten() {
            let p = e.path();
            if p.extension().map(|x| x == "abra").unwrap_or(false) {
                let name = format!("core/{}", p.file_name().unwrap().to_string_lossy());
                v.push((name, std::fs::read_to_string(&p).unwrap()));
            }
        }
    }
    v
}

pub fn run_program(src: &str) -> RunResult {
    run_program_opts(src, &RunOpts::default())
}

pub fn run_program_budget(src: &str, budget: u32) -> RunResult {
    run_program_opts(src, &RunOpts { budgets: vec![budget], ..Default::default() })
}

/// compile + run the real implementation in-process; never panics.
pub fn run_program_opts(src: &str, opts: &RunOpts) -> RunResult {
    let r = catch_unwind(AssertUnwindSafe(|| run_inner(src, opts)));
    match r {
        Ok(r) => r,
        Err(p) => RunResult {
            outcome: Outcome::Crash(panic_msg(p)),
            out: String::new(),
            err_text: String::new(),
            steps: 0,
        },
    }
}

pub fn panic_msg(p: Box<dyn std::any::Any + Send>) -> String {
    if let Some(s) = p.downcast_ref::<String>() {
        s.clone()
    } else if let Some(s) = p.downcast_ref::<&str>() {
        s.to_string()
    } else {
        "panic".into()
    }
}

fn run_inner(src: &str, opts: &RunOpts) -> RunResult {
    let program = match compile_bytecode("main.abra", provider(src, &opts.files)) {
        Ok(p) => p,
        Err(e) => {
            return RunResult {
                outcome: Outcome::Rejected(e.to_string()),
                out: String::new(),
                err_text: String::new(),
                steps: 0,
            };
        }
    };
    let mut rt = Runtime::new(program);
    let mut out = String::new();
    // the partial output must survive a panic inside the VM
    let r = catch_unwind(AssertUnwindSafe(|| drive(&mut rt, opts, &mut out)));
    match r {
        Ok((outcome, err_text, steps)) => RunResult { outcome, out, err_text, steps },
        Err(p) => {
            std::mem::forget(rt); // state may be inconsistent
            RunResult { outcome: Outcome::Crash(panic_msg(p)), out, err_text: String::new(), steps: 0 }
        }
    }
}

/// Drive a runtime to completion, servicing the prelude's host functions
/// (0 eprint_string, 1 get_args → [], 2 print_string, 3 readline → "").
pub fn drive(rt: &mut Runtime, opts: &RunOpts, out: &mut String) -> (Outcome, String, u64) {
    let mut steps: u64 = 0;
    let mut bi = 0usize;
    loop {
        let b = opts.budgets[bi % opts.budgets.len()].max(1);
        bi += 1;
        let status = rt.run_n_steps(b);
        steps += status.steps_consumed as u64;
        match &status.kind {
            RuntimeStatusKind::Done => return (Outcome::Done, String::new(), steps),
            RuntimeStatusKind::MainThreadError(e) => {
                let t = e.to_string();
                return (Outcome::Error(error_kind(&t)), t, steps);
            }
            RuntimeStatusKind::OutOfSteps | RuntimeStatusKind::PendingHostFunc => {}
        }
        service_host(rt, out);
        if steps > opts.max_steps {
            return (Outcome::Timeout, String::new(), steps);
        }
    }
}

pub fn service_host(rt: &mut Runtime, out: &mut String) {
    for thread in rt.iter_threads_mut() {
        if let VmStatus::PendingHostFunc(n) = thread.status() {
            // host functions are numbered alphabetically: eprint_string, get_args, print_string, readline
            match n {
                0 => {
                    let _ = String::from_vm(thread);
                }
                1 => {
                    Vec::<String>::new().to_vm(thread);
                }
                2 => {
                    let s = String::from_vm(thread);
                    out.push_str(&s);
                }
                3 => {
                    String::new().to_vm(thread);
                }
                _ => {}
            }
            thread.clear_pending_host_func();
        }
    }
}

// ---------------------------------------------------------------- parallel map (order preserving)
pub fn n_threads() -> usize {
    std::env::var("VERIF_THREADS").ok().and_then(|s| s.parse().ok()).unwrap_or(14)
}

/// Apply `f` to every item on a pool of worker threads; results come back in input order.
/// The compiler and each `Runtime` are self-contained, so cases are independent.
pub fn par_map<T: Sync, R: Send>(items: &[T], f: impl Fn(&T) -> R + Sync) -> Vec<R> {
    let n = n_threads().max(1);
    let next = std::sync::atomic::AtomicUsize::new(0);
    let mut slots: Vec<Option<R>> = (0..items.len()).map(|_| None).collect();
    let slots_ptr = std::sync::Mutex::new(&mut slots);
    std::thread::scope(|s| {
        for _ in 0..n {
            let _ = std::thread::Builder::new().stack_size(256 << 20).spawn_scoped(s, || {
                loop {
                    let i = next.fetch_add(1, std::sync::atomic::Ordering::Relaxed);
                    if i >= items.len() {
                        break;
                    }
                    let r = f(&items[i]);
                    slots_ptr.lock().unwrap()[i] = Some(r);
                }
            });
        }
    });
    slots.into_iter().map(|x| x.unwrap()).collect()
}
