//! Shared by the C12/C13/C14 harnesses (included with `#[path]`, not part of the `vh` lib):
//! the bounded universe of scrutinee types, patterns and values; Abra source and model-request
//! rendering; an independent reference matcher; the checker's verdict through the public API.
#![allow(dead_code)]
use vh::*;

#[derive(Clone, Debug, PartialEq)]
pub enum Ty {
    Bool,
    Void,
    Int,
    Float,
    Str,
    Tuple(Vec<Ty>),
    Struct(usize),
    Enum(usize),
}

#[derive(Clone, Debug)]
pub struct VariantDef {
    pub fields: Vec<Ty>,
    pub named: bool,
}

pub struct Universe {
    pub enums: Vec<Vec<VariantDef>>,
    pub structs: Vec<Vec<Ty>>,
}

fn v(fields: Vec<Ty>, named: bool) -> VariantDef {
    VariantDef { fields, named }
}

pub fn universe() -> Universe {
    use Ty::*;
    Universe {
        enums: vec![
            // 0: plain
            vec![v(vec![], false), v(vec![], false), v(vec![], false)],
            // 1: option-like
            vec![v(vec![Bool], false), v(vec![], false)],
            // 2: void payload, int payload, two named fields
            vec![v(vec![Void], false), v(vec![Int], false), v(vec![Bool, Bool], true)],
            // 3: one named void field, one named field, two positional fields, nullary
            vec![v(vec![Void], true), v(vec![Int], true), v(vec![Bool, Enum(0)], false), v(vec![], false)],
            // 4: recursive
            vec![v(vec![], false), v(vec![Bool, Enum(4)], false)],
            // 5: float / string / struct payloads
            vec![v(vec![Float], false), v(vec![Str], false), v(vec![Struct(0)], false)],
            // 6: three named fields with a void in the middle
            vec![v(vec![Bool, Void, Int], true), v(vec![Enum(1)], false)],
            // 7: several declared fields of which at most one is not void (D46)
            vec![v(vec![Bool, Void], false), v(vec![Void, Void], true), v(vec![Void, Int], true), v(vec![], false)],
            // 8: payload of a struct with no fields
            vec![v(vec![Struct(5)], false), v(vec![], false)],
            // 9: GENERIC enum `En9<T>` with named fields, used at T := bool (`GENERIC_ENUM`)
            vec![v(vec![Bool, Int], true), v(vec![Bool], false)],
            // 10, 11, 12: single-variant enums (irrefutable variant patterns in let / for)
            vec![v(vec![Int], false)],
            vec![v(vec![Int, Bool], true)],
            vec![v(vec![], false)],
        ],
        structs: vec![
            vec![Bool, Bool],
            vec![Bool, Void, Int],
            vec![Enum(1), Str],
            vec![Void],
            vec![Tuple(vec![Bool, Bool]), Enum(0)],
            // 5: a product with no fields
            vec![],
        ],
    }
}

pub fn scrutinee_types() -> Vec<Ty> {
    use Ty::*;
    let t = |v: Vec<Ty>| Tuple(v);
    vec![
        Bool, Void, Int, Float, Str,
        Enum(0), Enum(1), Enum(2), Enum(3), Enum(4), Enum(5), Enum(6),
        Struct(0), Struct(1), Struct(2), Struct(3), Struct(4),
        t(vec![Bool, Bool]), t(vec![Bool, Int]), t(vec![Int, Str]), t(vec![Float, Bool]),
        t(vec![Enum(0), Bool]), t(vec![Enum(1), Enum(1)]), t(vec![Enum(2), Bool]), t(vec![Enum(3), Bool]),
        t(vec![Bool, Void, Bool]), t(vec![Void, Void]), t(vec![Struct(0), Bool]), t(vec![Struct(1), Enum(1)]),
        t(vec![t(vec![Bool, Bool]), Enum(1)]), t(vec![t(vec![Bool, Void]), Int]), t(vec![Enum(4), Bool]),
        t(vec![Bool, Float, Str]), t(vec![Enum(6), Bool]), t(vec![Struct(3), Bool]), t(vec![Enum(5), Enum(0)]),
        t(vec![Bool, Bool, Bool]), t(vec![Int, Int]),
        Struct(5), t(vec![Int, Struct(5)]), Enum(8), Enum(9), t(vec![Enum(9), Bool]),
        Enum(10), Enum(11), Enum(12), t(vec![Enum(10), Enum(12)]), t(vec![Enum(11), Int]),
    ]
}

/// scrutinee types whose values need the repaired variant constructor (D46); static checks use
/// them always, run-time checks once the implementation passes the probe
pub fn scrutinee_types_d46() -> Vec<Ty> {
    vec![Ty::Enum(7), Ty::Tuple(vec![Ty::Enum(7), Ty::Bool])]
}

/// enum 9 is declared `type En9<T> = …` and used at `En9<bool>`: its first field has type `T`
pub const GENERIC_ENUM: usize = 9;

pub const INTS: [i64; 3] = [0, 1, 2];
pub const INT_FRESH: i64 = 7;
/// spellings; equal values in different spellings on purpose
pub const FLOATS: [&str; 7] = ["1.0", "1.00", "2.5", "0.5", "2.50", "0.3", "0.30000000000000004"];
pub const FLOAT_FRESH: &str = "7.25";
pub const STRS: [&str; 3] = ["a", "b", ""];
pub const STR_FRESH: &str = "zz";

/// exact decimal expansion of a double (the lexer has no exponent form)
pub fn exact_decimal(x: f64) -> String {
    let mut s = format!("{:.1100}", x);
    while s.ends_with('0') && !s.ends_with(".0") {
        s.pop();
    }
    s
}

fn next_up(x: f64) -> f64 {
    f64::from_bits(x.to_bits() + 1)
}

/// float literal spellings for the literal-equality checks: adjacent doubles at several magnitudes
/// (closer than f64::EPSILON below 1.0), controls differing in the last bit above 1.0, other spellings
/// of the same double, spellings that overflow to +inf.  (`-0.0` cannot be written as a pattern: the
/// lexer's number literals are unsigned.)
pub fn floats_extra() -> &'static Vec<String> {
    static CELL: std::sync::OnceLock<Vec<String>> = std::sync::OnceLock::new();
    CELL.get_or_init(|| {
        let mut v: Vec<String> = vec![
            "0.0".into(), "0.0000000000000001".into(), "0.00".into(),
            "1.".into(), "01.0".into(), "1_0.0".into(), "10.0".into(),
            "1.5".into(), "1.5000000000000002".into(),
            "0.1".into(), "0.10000000000000002".into(),
        ];
        let tiny = 1e-300f64;
        v.push(exact_decimal(tiny));
        v.push(exact_decimal(next_up(tiny)));
        let sub = f64::from_bits(1);
        v.push(exact_decimal(sub));
        v.push(exact_decimal(f64::from_bits(2)));
        let big = 4503599627370497.0f64; // 2^52 + 1: neighbours differ by 1.0
        v.push(exact_decimal(big));
        v.push(exact_decimal(next_up(big)));
        v.push(format!("1{}.0", "0".repeat(400)));
        v.push(format!("2{}.0", "0".repeat(400)));
        v.push(exact_decimal(f64::MAX));
        v
    })
}

/// a spelling of the double with these bits (values are written back into programs)
pub fn float_spelling(bits: u64) -> String {
    for sp in FLOATS.iter().map(|s| s.to_string()).chain([FLOAT_FRESH.to_string()]).chain(floats_extra().iter().cloned()) {
        if fbits(&sp) == bits {
            return sp;
        }
    }
    exact_decimal(f64::from_bits(bits))
}

pub fn fbits(sp: &str) -> u64 {
    // the lexer drops `_` inside number literals
    sp.replace('_', "").parse::<f64>().unwrap().to_bits()
}

#[derive(Clone, Debug, PartialEq)]
pub enum Pat {
    Wild,
    Bind(String),
    Bool(bool),
    Int(i64),
    Float(String),
    Str(String),
    Void,
    Tuple(Vec<Pat>),
    /// fields in declaration order; `order` = textual order when written with names
    Struct(usize, Vec<Pat>, Option<Vec<usize>>),
    Variant0(usize, usize, bool),
    /// `.V(p)`; several positional fields are one tuple pattern, as in the parser
    VariantPos(usize, usize, Box<Pat>, bool),
    VariantNamed(usize, usize, Vec<Pat>, Vec<usize>, bool),
    Or(Box<Pat>, Box<Pat>),
}

#[derive(Clone, Debug, PartialEq, Eq, Hash, PartialOrd, Ord)]
pub enum Val {
    Bool(bool),
    Int(i64),
    Float(u64),
    Str(String),
    Prod(Vec<Val>),
    Variant(usize, Box<Val>),
}

impl Universe {
    pub fn data_ty(&self, e: usize, i: usize) -> Ty {
        let f = &self.enums[e][i].fields;
        match f.len() {
            0 => Ty::Void,
            1 => f[0].clone(),
            _ => Ty::Tuple(f.clone()),
        }
    }
    pub fn product_tys(&self, ty: &Ty) -> Vec<Ty> {
        match ty {
            Ty::Tuple(ts) => ts.clone(),
            Ty::Struct(id) => self.structs[*id].clone(),
            _ => vec![],
        }
    }

    // ------------------------------------------------------------ rendering: types
    pub fn ty_src(&self, ty: &Ty) -> String {
        match ty {
            Ty::Bool => "bool".into(),
            Ty::Void => "void".into(),
            Ty::Int => "int".into(),
            Ty::Float => "float".into(),
            Ty::Str => "string".into(),
            Ty::Tuple(ts) => format!("({})", ts.iter().map(|t| self.ty_src(t)).collect::<Vec<_>>().join(", ")),
            Ty::Struct(id) => format!("St{id}"),
            Ty::Enum(id) if *id == GENERIC_ENUM => format!("En{id}<bool>"),
            Ty::Enum(id) => format!("En{id}"),
        }
    }
    pub fn ty_req(&self, ty: &Ty) -> String {
        match ty {
            Ty::Bool => "B".into(),
            Ty::Void => "V".into(),
            Ty::Int => "I".into(),
            Ty::Float => "F".into(),
            Ty::Str => "S".into(),
            Ty::Tuple(ts) => format!("T {} {}", ts.len(), ts.iter().map(|t| self.ty_req(t)).collect::<Vec<_>>().join(" ")),
            Ty::Struct(id) => {
                let fs = &self.structs[*id];
                format!("R {} {} {}", id, fs.len(), fs.iter().map(|t| self.ty_req(t)).collect::<Vec<_>>().join(" "))
            }
            Ty::Enum(id) => format!("E {id}"),
        }
    }
    /// the whole enum environment for the model
    pub fn env_req(&self) -> String {
        let mut s = format!("{}", self.enums.len());
        for e in &self.enums {
            s.push_str(&format!(" {}", e.len()));
            for var in e {
                s.push_str(&format!(" {}", var.fields.len()));
                for f in &var.fields {
                    s.push(' ');
                    s.push_str(&self.ty_req(f));
                }
            }
        }
        s
    }
    /// declarations of every struct and enum of the universe
    pub fn decls_src(&self) -> String {
        let mut s = String::new();
        for (id, fs) in self.structs.iter().enumerate() {
            s.push_str(&format!("type St{id} = {{\n"));
            for (j, f) in fs.iter().enumerate() {
                s.push_str(&format!("  f{j}: {}\n", self.ty_src(f)));
            }
            s.push_str("}\n");
        }
        for (id, vars) in self.enums.iter().enumerate() {
            let generic = id == GENERIC_ENUM;
            s.push_str(&format!("type En{id}{} =\n", if generic { "<T>" } else { "" }));
            for (i, var) in vars.iter().enumerate() {
                s.push_str(&format!("  | Vr{id}x{i}"));
                if !var.fields.is_empty() {
                    let fs: Vec<String> = var
                        .fields
                        .iter()
                        .enumerate()
                        .map(|(j, f)| {
                            let t = if generic && j == 0 { "T".to_string() } else { self.ty_src(f) };
                            if var.named { format!("g{j}: {t}") } else { t }
                        })
                        .collect();
                    s.push_str(&format!("({})", fs.join(", ")));
                }
                s.push('\n');
            }
        }
        s
    }

    // ------------------------------------------------------------ rendering: patterns
    pub fn pat_src(&self, p: &Pat) -> String {
        match p {
            Pat::Wild => "_".into(),
            Pat::Bind(x) => x.clone(),
            Pat::Bool(b) => format!("{b}"),
            Pat::Int(i) => format!("{i}"),
            Pat::Float(s) => s.clone(),
            Pat::Str(s) => format!("\"{s}\""),
            Pat::Void => "nil".into(),
            Pat::Tuple(ps) => format!("({})", ps.iter().map(|p| self.pat_src(p)).collect::<Vec<_>>().join(", ")),
            Pat::Struct(id, ps, order) => match order {
                None => format!("St{id}({})", ps.iter().map(|p| self.pat_src(p)).collect::<Vec<_>>().join(", ")),
                Some(o) => format!(
                    "St{id}({})",
                    o.iter().map(|&j| format!("f{j} = {}", self.pat_src(&ps[j]))).collect::<Vec<_>>().join(", ")
                ),
            },
            Pat::Variant0(e, i, q) => format!("{}.Vr{e}x{i}", if *q { format!("En{e}") } else { String::new() }),
            Pat::VariantPos(e, i, p, q) => {
                let inner = match &**p {
                    // `.V(p, q)`: the parser builds the tuple
                    Pat::Tuple(ps) if self.enums[*e][*i].fields.len() > 1 => {
                        ps.iter().map(|p| self.pat_src(p)).collect::<Vec<_>>().join(", ")
                    }
                    p => self.pat_src(p),
                };
                format!("{}.Vr{e}x{i}({inner})", if *q { format!("En{e}") } else { String::new() })
            }
            Pat::VariantNamed(e, i, ps, o, q) => format!(
                "{}.Vr{e}x{i}({})",
                if *q { format!("En{e}") } else { String::new() },
                o.iter().map(|&j| format!("g{j} = {}", self.pat_src(&ps[j]))).collect::<Vec<_>>().join(", ")
            ),
            Pat::Or(l, r) => format!("{} | {}", self.pat_src(l), self.pat_src(r)),
        }
    }
    pub fn pat_req(&self, p: &Pat) -> String {
        match p {
            Pat::Wild => "_".into(),
            Pat::Bind(x) => match x.strip_prefix('x').and_then(|n| n.parse::<usize>().ok()) {
                Some(n) => format!("b{n}"),
                None => "b".into(),
            },
            Pat::Bool(true) => "pt".into(),
            Pat::Bool(false) => "pf".into(),
            Pat::Int(i) => format!("i{i}"),
            Pat::Float(s) => format!("d{}", fbits(s)),
            Pat::Str(s) => format!("s{}", hex(s.as_bytes())),
            Pat::Void => "n".into(),
            Pat::Tuple(ps) => format!("T {} {}", ps.len(), ps.iter().map(|p| self.pat_req(p)).collect::<Vec<_>>().join(" ")),
            Pat::Struct(id, ps, _) => {
                format!("R {} {} {}", id, ps.len(), ps.iter().map(|p| self.pat_req(p)).collect::<Vec<_>>().join(" "))
            }
            Pat::Variant0(e, i, _) => format!("v0 {e} {i}"),
            Pat::VariantPos(e, i, p, _) => format!("vp {e} {i} {}", self.pat_req(p)),
            Pat::VariantNamed(e, i, ps, _, _) => {
                format!("vn {e} {i} {} {}", ps.len(), ps.iter().map(|p| self.pat_req(p)).collect::<Vec<_>>().join(" "))
            }
            Pat::Or(l, r) => format!("or {} {}", self.pat_req(l), self.pat_req(r)),
        }
    }

    // ------------------------------------------------------------ values
    /// every value of the type over the literal sets plus one fresh literal (a value outside
    /// behaves like the fresh one for every pattern of the universe); recursive enums to `depth`
    pub fn values(&self, ty: &Ty, depth: usize) -> Vec<Val> {
        match ty {
            Ty::Bool => vec![Val::Bool(false), Val::Bool(true)],
            Ty::Void => vec![Val::Prod(vec![])],
            Ty::Int => INTS.iter().cloned().chain([INT_FRESH]).map(Val::Int).collect(),
            Ty::Float => {
                let mut v: Vec<u64> = FLOATS.iter().cloned().chain([FLOAT_FRESH]).map(fbits)
                    .chain(floats_extra().iter().map(|s| fbits(s))).collect();
                v.sort();
                v.dedup();
                v.into_iter().map(Val::Float).collect()
            }
            Ty::Str => STRS.iter().cloned().chain([STR_FRESH]).map(|s| Val::Str(s.to_string())).collect(),
            Ty::Tuple(_) | Ty::Struct(_) => {
                let mut acc: Vec<Vec<Val>> = vec![vec![]];
                for t in self.product_tys(ty) {
                    let vs = self.values(&t, depth);
                    let mut next = vec![];
                    for a in &acc {
                        for x in &vs {
                            let mut a2 = a.clone();
                            a2.push(x.clone());
                            next.push(a2);
                        }
                    }
                    acc = next;
                }
                acc.into_iter().map(Val::Prod).collect()
            }
            Ty::Enum(e) => {
                let mut out = vec![];
                for (i, var) in self.enums[*e].iter().enumerate() {
                    if var.fields.is_empty() {
                        out.push(Val::Variant(i, Box::new(Val::Prod(vec![]))));
                    } else if depth > 0 {
                        for pl in self.values(&self.data_ty(*e, i), depth - 1) {
                            out.push(Val::Variant(i, Box::new(pl)));
                        }
                    }
                }
                out
            }
        }
    }
    pub fn val_src(&self, v: &Val, ty: &Ty) -> String {
        match (v, ty) {
            (Val::Bool(b), _) => format!("{b}"),
            (Val::Int(i), _) => format!("{i}"),
            (Val::Float(b), _) => float_spelling(*b),
            (Val::Str(s), _) => format!("\"{s}\""),
            (Val::Prod(_), Ty::Void) => "nil".into(),
            (Val::Prod(vs), Ty::Tuple(ts)) => {
                format!("({})", vs.iter().zip(ts).map(|(v, t)| self.val_src(v, t)).collect::<Vec<_>>().join(", "))
            }
            (Val::Prod(vs), Ty::Struct(id)) => format!(
                "St{id}({})",
                vs.iter().zip(&self.structs[*id]).map(|(v, t)| self.val_src(v, t)).collect::<Vec<_>>().join(", ")
            ),
            (Val::Variant(i, pl), Ty::Enum(e)) => {
                let fs = &self.enums[*e][*i].fields;
                match fs.len() {
                    0 => format!("En{e}.Vr{e}x{i}"),
                    1 => format!("En{e}.Vr{e}x{i}({})", self.val_src(pl, &fs[0])),
                    _ => {
                        let Val::Prod(vs) = &**pl else { panic!() };
                        format!(
                            "En{e}.Vr{e}x{i}({})",
                            vs.iter().zip(fs).map(|(v, t)| self.val_src(v, t)).collect::<Vec<_>>().join(", ")
                        )
                    }
                }
            }
            _ => panic!("ill-typed value {v:?} : {ty:?}"),
        }
    }

    // ------------------------------------------------------------ generation
    pub fn gen_pat(&self, ty: &Ty, depth: usize, rng: &mut Rng, binds: &mut Option<Vec<(String, Ty)>>, avoid_d31: bool) -> Pat {
        let mut r = rng.below(100);
        if MORE_BINDS.load(std::sync::atomic::Ordering::Relaxed) && binds.is_some() {
            // shift a fifth of the draws into the binding / or-with-bindings window
            if r >= 80 {
                r = 18 + (r - 80) * 12 / 20;
            }
        }
        if r < 18 {
            return Pat::Wild;
        }
        if r < 26 {
            if let Some(b) = binds {
                if matches!(ty, Ty::Bool | Ty::Int | Ty::Float | Ty::Str) {
                    let name = format!("x{}", b.len());
                    b.push((name.clone(), ty.clone()));
                    return Pat::Bind(name);
                }
            }
            return Pat::Wild;
        }
        if r < 30 && depth > 0 && binds.is_some() {
            // or-pattern WITH bindings: the right alternative is a literal-mutation of the left one,
            // so both bind the same names at the same types
            let l = self.gen_pat(ty, depth - 1, rng, binds, avoid_d31);
            if !matches!(l, Pat::Or(..)) {
                let r = self.mutate_keep_binds(&l, ty, rng);
                if r != l {
                    return Pat::Or(Box::new(l), Box::new(r));
                }
            }
            return l;
        }
        if r < 38 && depth > 0 {
            // or-pattern: no bindings inside (both sides would have to bind the same names);
            // the left operand is never an or-pattern (`a | b | c` parses as `a | (b | c)`)
            let mut none = None;
            let mut l = self.gen_pat(ty, depth - 1, rng, &mut none, avoid_d31);
            while matches!(l, Pat::Or(..)) {
                l = self.gen_pat(ty, depth - 1, rng, &mut none, avoid_d31);
            }
            let r = self.gen_pat(ty, depth - 1, rng, &mut none, avoid_d31);
            return Pat::Or(Box::new(l), Box::new(r));
        }
        let d = depth.saturating_sub(1);
        match ty {
            Ty::Bool => Pat::Bool(rng.chance(1, 2)),
            Ty::Void => {
                if rng.chance(2, 3) {
                    Pat::Void
                } else {
                    Pat::Wild
                }
            }
            Ty::Int => Pat::Int(*rng.pick(&INTS)),
            Ty::Float => Pat::Float(rng.pick(&FLOATS).to_string()),
            Ty::Str => Pat::Str(rng.pick(&STRS).to_string()),
            Ty::Tuple(ts) => {
                if depth == 0 {
                    return Pat::Wild;
                }
                Pat::Tuple(ts.iter().map(|t| self.gen_pat(t, d, rng, binds, avoid_d31)).collect())
            }
            Ty::Struct(id) => {
                if depth == 0 {
                    return Pat::Wild;
                }
                let ps: Vec<Pat> = self.structs[*id].iter().map(|t| self.gen_pat(t, d, rng, binds, avoid_d31)).collect();
                let order = if rng.chance(1, 2) { Some(shuffled(ps.len(), rng)) } else { None };
                Pat::Struct(*id, ps, order)
            }
            Ty::Enum(e) => {
                let i = rng.below(self.enums[*e].len() as u64) as usize;
                let var = &self.enums[*e][i];
                let q = rng.chance(1, 4);
                let single_void = var.fields.len() == 1 && var.fields[0] == Ty::Void;
                let avoid_named = AVOID_NAMED_VOID.load(std::sync::atomic::Ordering::Relaxed);
                if var.fields.is_empty() || (single_void && !var.named && rng.chance(1, 2)) || (single_void && var.named && avoid_named) {
                    return Pat::Variant0(*e, i, q);
                }
                if depth == 0 && var.fields.len() > 1 {
                    // no room for sub-patterns: all wildcards
                    return Pat::VariantPos(*e, i, Box::new(Pat::Tuple(var.fields.iter().map(|_| Pat::Wild).collect())), q);
                }
                let ps: Vec<Pat> = var.fields.iter().map(|t| self.gen_pat(t, d, rng, binds, avoid_d31)).collect();
                if var.named && rng.chance(2, 3) {
                    let o = shuffled(ps.len(), rng);
                    return Pat::VariantNamed(*e, i, ps, o, q);
                }
                if single_void && avoid_d31 {
                    return if var.named { Pat::VariantNamed(*e, i, ps, vec![0], q) } else { Pat::Variant0(*e, i, q) };
                }
                let inner = if ps.len() == 1 { ps.into_iter().next().unwrap() } else { Pat::Tuple(ps) };
                Pat::VariantPos(*e, i, Box::new(inner), q)
            }
        }
    }

    /// same shape and the same bindings, other literals
    pub fn mutate_keep_binds(&self, p: &Pat, ty: &Ty, rng: &mut Rng) -> Pat {
        match (p, ty) {
            (Pat::Bool(b), _) => if rng.chance(2, 3) { Pat::Bool(!b) } else { Pat::Wild },
            (Pat::Int(_), _) => Pat::Int(*rng.pick(&INTS)),
            (Pat::Float(_), _) => Pat::Float(rng.pick(&FLOATS).to_string()),
            (Pat::Str(_), _) => Pat::Str(rng.pick(&STRS).to_string()),
            (Pat::Wild, Ty::Bool) => Pat::Bool(rng.chance(1, 2)),
            (Pat::Wild, Ty::Int) => Pat::Int(*rng.pick(&INTS)),
            (Pat::Tuple(ps), _) | (Pat::Struct(_, ps, _), _) => {
                let tys = self.product_tys(ty);
                let qs: Vec<Pat> = ps.iter().zip(&tys).map(|(q, t)| self.mutate_keep_binds(q, t, rng)).collect();
                match p {
                    Pat::Tuple(_) => Pat::Tuple(qs),
                    Pat::Struct(id, _, o) => Pat::Struct(*id, qs, o.clone()),
                    _ => unreachable!(),
                }
            }
            (Pat::VariantPos(e, i, q, qual), _) => {
                Pat::VariantPos(*e, *i, Box::new(self.mutate_keep_binds(q, &self.data_ty(*e, *i), rng)), *qual)
            }
            (Pat::VariantNamed(e, i, ps, o, qual), _) => {
                let tys = self.enums[*e][*i].fields.clone();
                let qs = ps.iter().zip(&tys).map(|(q, t)| self.mutate_keep_binds(q, t, rng)).collect();
                Pat::VariantNamed(*e, *i, qs, o.clone(), *qual)
            }
            (other, _) => other.clone(),
        }
    }

    /// every or-free, binding-free pattern of the type with constructor nesting ≤ depth
    pub fn pool(&self, ty: &Ty, depth: usize, avoid_d31: bool) -> Vec<Pat> {
        let mut out = vec![Pat::Wild];
        let prod = |lists: Vec<Vec<Pat>>| -> Vec<Vec<Pat>> {
            let mut acc: Vec<Vec<Pat>> = vec![vec![]];
            for l in lists {
                let mut next = vec![];
                for a in &acc {
                    for x in &l {
                        let mut a2 = a.clone();
                        a2.push(x.clone());
                        next.push(a2);
                    }
                }
                acc = next;
            }
            acc
        };
        match ty {
            Ty::Bool => out.extend([Pat::Bool(false), Pat::Bool(true)]),
            Ty::Void => out.push(Pat::Void),
            Ty::Int => out.extend(INTS.iter().map(|i| Pat::Int(*i))),
            Ty::Float => out.extend(FLOATS.iter().map(|s| Pat::Float(s.to_string()))),
            Ty::Str => out.extend(STRS.iter().map(|s| Pat::Str(s.to_string()))),
            Ty::Tuple(ts) if depth > 0 => {
                for ps in prod(ts.iter().map(|t| self.pool(t, depth - 1, avoid_d31)).collect()) {
                    out.push(Pat::Tuple(ps));
                }
            }
            Ty::Struct(id) if depth > 0 => {
                for ps in prod(self.structs[*id].iter().map(|t| self.pool(t, depth - 1, avoid_d31)).collect()) {
                    out.push(Pat::Struct(*id, ps, None));
                }
            }
            Ty::Enum(e) => {
                for (i, var) in self.enums[*e].iter().enumerate() {
                    let single_void = var.fields.len() == 1 && var.fields[0] == Ty::Void;
                    if var.fields.is_empty() || (single_void && !var.named) {
                        out.push(Pat::Variant0(*e, i, false));
                    }
                    if var.fields.is_empty() || depth == 0 {
                        continue;
                    }
                    for ps in prod(var.fields.iter().map(|t| self.pool(t, depth - 1, avoid_d31)).collect()) {
                        if var.named {
                            let o = (0..ps.len()).collect();
                            out.push(Pat::VariantNamed(*e, i, ps, o, false));
                        } else if !(single_void && avoid_d31) {
                            let inner = if ps.len() == 1 { ps.into_iter().next().unwrap() } else { Pat::Tuple(ps) };
                            out.push(Pat::VariantPos(*e, i, Box::new(inner), false));
                        }
                    }
                }
            }
            _ => {}
        }
        out
    }
}

/// generator switches set by a harness before generating (C14: more bindings; named sub-patterns on
/// void payloads are left out only when the D47 compile-hang regression probe has just failed, so that
/// the run terminates after reporting it)
pub static AVOID_NAMED_VOID: std::sync::atomic::AtomicBool = std::sync::atomic::AtomicBool::new(false);
pub static MORE_BINDS: std::sync::atomic::AtomicBool = std::sync::atomic::AtomicBool::new(false);

pub fn shuffled(n: usize, rng: &mut Rng) -> Vec<usize> {
    let mut v: Vec<usize> = (0..n).collect();
    for i in (1..n).rev() {
        let j = rng.below(i as u64 + 1) as usize;
        v.swap(i, j);
    }
    v
}

// ---------------------------------------------------------------- reference semantics (Rust)
pub fn matches(p: &Pat, v: &Val) -> bool {
    match (p, v) {
        (Pat::Wild, _) | (Pat::Bind(_), _) => true,
        (Pat::Bool(a), Val::Bool(b)) => a == b,
        (Pat::Int(a), Val::Int(b)) => a == b,
        (Pat::Float(a), Val::Float(b)) => fbits(a) == *b,
        (Pat::Str(a), Val::Str(b)) => a == b,
        (Pat::Void, Val::Prod(vs)) => vs.is_empty(),
        (Pat::Tuple(ps), Val::Prod(vs)) | (Pat::Struct(_, ps, _), Val::Prod(vs)) => {
            ps.len() == vs.len() && ps.iter().zip(vs).all(|(p, v)| matches(p, v))
        }
        (Pat::Variant0(_, i, _), Val::Variant(j, _)) => i == j,
        (Pat::VariantPos(_, i, p, _), Val::Variant(j, pl)) => i == j && matches(p, pl),
        (Pat::VariantNamed(_, i, ps, _, _), Val::Variant(j, pl)) => {
            i == j
                && if ps.len() == 1 {
                    matches(&ps[0], pl)
                } else {
                    match &**pl {
                        Val::Prod(vs) => ps.len() == vs.len() && ps.iter().zip(vs).all(|(p, v)| matches(p, v)),
                        _ => false,
                    }
                }
        }
        (Pat::Or(l, r), v) => matches(l, v) || matches(r, v),
        _ => false,
    }
}

pub fn first_match(arms: &[Pat], v: &Val) -> Option<usize> {
    arms.iter().position(|p| matches(p, v))
}

/// number of or-patterns "in parallel" that the D27 shape needs: true when some arm contains two
/// or-patterns neither of which is inside the right operand chain of the other
pub fn or_chains(p: &Pat) -> usize {
    match p {
        Pat::Or(l, r) => {
            // a right-nested chain `a | b | c` is one chain; or-patterns inside operands add up
            let mut n = 1 + or_chains_operand(l);
            let mut cur: &Pat = r;
            loop {
                match cur {
                    Pat::Or(l2, r2) => {
                        n += or_chains_operand(l2);
                        cur = r2;
                    }
                    other => {
                        n += or_chains_operand(other);
                        break;
                    }
                }
            }
            n
        }
        other => or_chains_operand(other),
    }
}
fn or_chains_operand(p: &Pat) -> usize {
    match p {
        Pat::Tuple(ps) | Pat::Struct(_, ps, _) | Pat::VariantNamed(_, _, ps, _, _) => ps.iter().map(or_chains).sum(),
        Pat::VariantPos(_, _, p, _) => or_chains(p),
        Pat::Or(..) => or_chains(p),
        _ => 0,
    }
}

// ---------------------------------------------------------------- witnesses (`Display for DeconstructedPat`)
struct WParser<'a> {
    s: &'a [u8],
    i: usize,
    u: &'a Universe,
}
impl<'a> WParser<'a> {
    fn eat(&mut self, t: &str) -> bool {
        if self.s[self.i..].starts_with(t.as_bytes()) {
            self.i += t.len();
            true
        } else {
            false
        }
    }
    fn token(&mut self) -> String {
        let st = self.i;
        while self.i < self.s.len() && !matches!(self.s[self.i], b',' | b')' | b' ') {
            self.i += 1;
        }
        String::from_utf8_lossy(&self.s[st..self.i]).to_string()
    }
    fn pat(&mut self, ty: &Ty) -> Option<Pat> {
        if self.s[self.i..].starts_with(b"_") && !matches!(ty, Ty::Str) {
            self.i += 1;
            return Some(Pat::Wild);
        }
        match ty {
            Ty::Bool => {
                if self.eat("true") {
                    Some(Pat::Bool(true))
                } else if self.eat("false") {
                    Some(Pat::Bool(false))
                } else {
                    None
                }
            }
            Ty::Int => self.token().parse::<i64>().ok().map(Pat::Int),
            Ty::Float => {
                let t = self.token();
                t.parse::<f64>().ok().map(|_| Pat::Float(t))
            }
            Ty::Str => {
                // printed raw; the universe's strings contain no `,` `)` or space; `_` is the wildcard
                let t = self.token();
                if t == "_" { Some(Pat::Wild) } else { Some(Pat::Str(t)) }
            }
            Ty::Void => {
                if self.eat("()") {
                    Some(Pat::Void)
                } else {
                    None
                }
            }
            Ty::Tuple(ts) => {
                if !self.eat("(") {
                    return None;
                }
                let mut ps = vec![];
                for (k, t) in ts.iter().enumerate() {
                    if k > 0 && !self.eat(", ") {
                        return None;
                    }
                    ps.push(self.pat(t)?);
                }
                if !self.eat(")") {
                    return None;
                }
                Some(Pat::Tuple(ps))
            }
            Ty::Struct(id) => {
                if !self.eat(&format!("St{id}(")) {
                    return None;
                }
                let mut ps = vec![];
                for (k, t) in self.u.structs[*id].iter().enumerate() {
                    if k > 0 && !self.eat(", ") {
                        return None;
                    }
                    if !self.eat(&format!("f{k} = ")) {
                        return None;
                    }
                    ps.push(self.pat(t)?);
                }
                if !self.eat(")") {
                    return None;
                }
                Some(Pat::Struct(*id, ps, None))
            }
            Ty::Enum(e) => {
                let name = self.token();
                let idx = (0..self.u.enums[*e].len()).find(|i| name == format!("Vr{e}x{i}"))?;
                if self.eat(" of ") {
                    let p = self.pat(&self.u.data_ty(*e, idx))?;
                    Some(Pat::VariantPos(*e, idx, Box::new(p), false))
                } else {
                    // no statement about the payload
                    Some(Pat::Variant0(*e, idx, false))
                }
            }
        }
    }
}

/// parse a witness string of the given type (None if it is not in `Display`'s format)
pub fn parse_witness(u: &Universe, s: &str, ty: &Ty) -> Option<Pat> {
    let mut p = WParser { s: s.as_bytes(), i: 0, u };
    let r = p.pat(ty)?;
    if p.i == s.len() { Some(r) } else { None }
}

/// a witness `Vr` without payload covers every payload
pub fn witness_matches(p: &Pat, v: &Val) -> bool {
    match (p, v) {
        (Pat::Variant0(_, i, _), Val::Variant(j, _)) => i == j,
        (Pat::Tuple(ps), Val::Prod(vs)) | (Pat::Struct(_, ps, _), Val::Prod(vs)) => {
            ps.len() == vs.len() && ps.iter().zip(vs).all(|(p, v)| witness_matches(p, v))
        }
        (Pat::VariantPos(_, i, p, _), Val::Variant(j, pl)) => i == j && witness_matches(p, pl),
        _ => matches(p, v),
    }
}

/// the model's rendering of a witness (`showPat` in Drv/PatMatrix.lean)
pub fn witness_canon(u: &Universe, p: &Pat) -> String {
    match p {
        Pat::Wild | Pat::Bind(_) => "_".into(),
        Pat::Bool(b) => format!("{b}"),
        Pat::Int(i) => format!("{i}"),
        Pat::Float(s) => format!("F{}", fbits(s)),
        Pat::Str(s) => hex(s.as_bytes()),
        Pat::Void => "()".into(),
        Pat::Tuple(ps) => format!("({})", ps.iter().map(|p| witness_canon(u, p)).collect::<Vec<_>>().join(", ")),
        Pat::Struct(id, ps, _) => format!(
            "St{id}({})",
            ps.iter().enumerate().map(|(j, p)| format!("f{j} = {}", witness_canon(u, p))).collect::<Vec<_>>().join(", ")
        ),
        Pat::Variant0(e, i, _) => format!("Vr{e}x{i}"),
        Pat::VariantPos(e, i, p, _) => format!("Vr{e}x{i} of {}", witness_canon(u, p)),
        Pat::VariantNamed(..) | Pat::Or(..) => "?".into(),
    }
}

// ---------------------------------------------------------------- the checker's verdict
#[derive(Debug, Clone, Default)]
pub struct Verdict {
    pub crash: Option<String>,
    /// diagnostics other than the two match diagnostics
    pub other: Vec<String>,
    pub nonexhaustive: bool,
    pub witnesses: Vec<String>,
    /// indices of arms reported redundant
    pub redundant: Vec<usize>,
}

pub struct MatchProgram {
    pub src: String,
    /// byte range of every arm's pattern in `src` (a qualified variant pattern's own span starts
    /// after the prefix, so a reported label is matched by containment)
    pub arm_spans: Vec<(usize, usize)>,
}

/// `type …` declarations, `let s = <value>`, `let r = match s { arms }`, `println(r)`; arm k yields k
pub fn match_program(u: &Universe, ty: &Ty, scrutinee: &Val, arms: &[Pat], bodies: Option<&[String]>) -> MatchProgram {
    let mut src = u.decls_src();
    src.push_str(&format!("let s = {}\n", u.val_src(scrutinee, ty)));
    src.push_str("let r = match s {\n");
    let mut arm_spans = vec![];
    for (k, p) in arms.iter().enumerate() {
        src.push_str("  ");
        let lo = src.len();
        src.push_str(&u.pat_src(p));
        arm_spans.push((lo, src.len()));
        match bodies {
            Some(b) => src.push_str(&format!(" -> {}\n", b[k])),
            None => src.push_str(&format!(" -> {k}\n")),
        }
    }
    src.push_str("}\nprintln(r)\n");
    MatchProgram { src, arm_spans }
}

pub fn checker_verdict(prog: &MatchProgram) -> Verdict {
    let src = prog.src.clone();
    let r = std::panic::catch_unwind(std::panic::AssertUnwindSafe(|| {
        let res = abra_core::check_lsp("main.abra", provider(&src, &[]));
        res.errors()
    }));
    let mut v = Verdict::default();
    let errs = match r {
        Ok(e) => e,
        Err(p) => {
            v.crash = Some(panic_msg(p));
            return v;
        }
    };
    for e in &errs {
        if e.message.starts_with("This match expression doesn't cover every case") {
            v.nonexhaustive = true;
        } else if e.message.starts_with("This match expression has redundant cases") {
            for (_, range, _) in &e.secondary_labels {
                match prog.arm_spans.iter().position(|(lo, hi)| *lo <= range.start && range.end <= *hi) {
                    Some(k) => v.redundant.push(k),
                    None => v.other.push(format!("redundant label {:?} is not an arm pattern", range)),
                }
            }
        } else {
            v.other.push(e.message.clone());
        }
    }
    v.redundant.sort();
    if v.nonexhaustive {
        // the witnesses are only in the rendered notes
        let r = std::panic::catch_unwind(std::panic::AssertUnwindSafe(|| {
            abra_core::compile_bytecode("main.abra", provider(&src, &[])).err().map(|e| e.to_string())
        }));
        if let Ok(Some(text)) = r {
            let mut in_missing = false;
            for line in text.lines() {
                if line.contains("The following cases are missing:") {
                    in_missing = true;
                    continue;
                }
                if in_missing {
                    if let Some(a) = line.find("= \t`") {
                        if let Some(b) = line.rfind('`') {
                            if b >= a + 4 {
                                v.witnesses.push(line[a + 4..b].to_string());
                                continue;
                            }
                        }
                    }
                    if line.contains("error:") {
                        in_missing = false;
                    }
                }
            }
        }
    }
    v
}

// ---------------------------------------------------------------- case streams shared by C12 and C13
pub struct MatchCase {
    pub ty: Ty,
    pub arms: Vec<Pat>,
    pub origin: &'static str,
}

/// D31 is repaired; its shape (a positional sub-pattern on a void payload) is always generated
pub fn avoid_d31() -> bool {
    false
}

/// hand-written regression shapes (defects found while building the model), then systematic arm
/// lists over small pattern pools, then seeded random arm lists over the whole universe
pub fn gen_cases(u: &Universe, rng: &mut Rng, quick: bool) -> Vec<MatchCase> {
    use Pat::*;
    let avoid = avoid_d31();
    let mut out: Vec<MatchCase> = vec![];
    let b = |x: Pat| Box::new(x);
    let fl = |s: &str| Float(s.to_string());
    // --- corpus
    if !avoid {
        // D31: positional sub-pattern on a void payload
        let t = Ty::Tuple(vec![Ty::Enum(2), Ty::Bool]);
        out.push(MatchCase { ty: t.clone(), origin: "corpus", arms: vec![
            Tuple(vec![VariantPos(2, 0, b(Wild), false), Bool(true)]),
            Tuple(vec![VariantPos(2, 1, b(Wild), false), Wild]),
            Tuple(vec![VariantPos(2, 2, b(Tuple(vec![Wild, Wild])), false), Wild]),
        ]});
        out.push(MatchCase { ty: t.clone(), origin: "corpus", arms: vec![
            Tuple(vec![VariantPos(2, 0, b(Void), false), Bool(true)]),
            Tuple(vec![VariantPos(2, 0, b(Void), false), Bool(false)]),
            Tuple(vec![Wild, Wild]),
        ]});
    }
    // D15: equal floats in different spellings
    out.push(MatchCase { ty: Ty::Float, origin: "corpus", arms: vec![fl("1.0"), fl("1.00"), Wild] });
    out.push(MatchCase { ty: Ty::Float, origin: "corpus", arms: vec![fl("2.5"), Or(b(fl("1.0")), b(fl("2.50"))), Wild] });
    out.push(MatchCase { ty: Ty::Tuple(vec![Ty::Float, Ty::Bool]), origin: "corpus", arms: vec![
        Tuple(vec![fl("1.0"), Bool(true)]), Tuple(vec![fl("1.00"), Wild]), Tuple(vec![Wild, Bool(false)]) ]});
    // adjacent doubles are different constructors; spellings of one double are the same constructor
    out.push(MatchCase { ty: Ty::Float, origin: "corpus", arms: vec![fl("0.3"), fl("0.30000000000000004")] });
    out.push(MatchCase { ty: Ty::Float, origin: "corpus", arms: vec![fl("0.3"), fl("0.30000000000000004"), Wild] });
    out.push(MatchCase { ty: Ty::Float, origin: "corpus", arms: vec![fl("0.0"), fl("0.0000000000000001"), fl("0.00"), Wild] });
    out.push(MatchCase { ty: Ty::Float, origin: "corpus", arms: vec![fl("1."), fl("01.0"), fl("1_0.0"), fl("10.0"), Wild] });
    {
        let ex = floats_extra();
        let n = ex.len();
        // the two overflowing spellings (both +inf) and f64::MAX
        out.push(MatchCase { ty: Ty::Float, origin: "corpus", arms: vec![fl(&ex[n - 3]), fl(&ex[n - 2]), fl(&ex[n - 1]), Wild] });
        // 1e-300 and its neighbour, the two smallest subnormals
        out.push(MatchCase { ty: Ty::Tuple(vec![Ty::Float, Ty::Bool]), origin: "corpus", arms: vec![
            Tuple(vec![fl(&ex[11]), Bool(true)]), Tuple(vec![fl(&ex[12]), Wild]), Tuple(vec![fl(&ex[13]), Wild]),
            Tuple(vec![fl(&ex[14]), Bool(true)]), Wild ]});
    }
    // D27 shape (the checker expands all combinations)
    out.push(MatchCase { ty: Ty::Tuple(vec![Ty::Int, Ty::Int]), origin: "corpus", arms: vec![
        Tuple(vec![Or(b(Int(1)), b(Int(2))), Or(b(Int(0)), b(Int(1)))]), Wild ]});
    // no arm covers anything of a product / empty-ish lists
    out.push(MatchCase { ty: Ty::Tuple(vec![Ty::Bool, Ty::Bool]), origin: "corpus", arms: vec![Tuple(vec![Bool(true), Bool(true)])] });
    out.push(MatchCase { ty: Ty::Void, origin: "corpus", arms: vec![Void, Wild] });
    out.push(MatchCase { ty: Ty::Enum(4), origin: "corpus", arms: vec![
        Variant0(4, 0, false),
        VariantPos(4, 1, b(Tuple(vec![Bool(true), Variant0(4, 0, false)])), false),
        VariantPos(4, 1, b(Tuple(vec![Wild, VariantPos(4, 1, b(Tuple(vec![Wild, Wild])), false)])), false),
    ]});
    // --- a match with no arms at all, on every scrutinee type (the witness is built from the type alone)
    for ty in scrutinee_types().into_iter().chain(scrutinee_types_d46()) {
        out.push(MatchCase { ty, arms: vec![], origin: "zero-arms" });
    }
    // --- systematic: all arm lists of length 1 and 2 over the depth-1 pool of small types
    let small = [Ty::Bool, Ty::Void, Ty::Enum(0), Ty::Enum(1), Ty::Enum(2), Ty::Enum(3), Ty::Struct(3),
        Ty::Tuple(vec![Ty::Bool, Ty::Bool]), Ty::Tuple(vec![Ty::Void, Ty::Void]), Ty::Struct(0), Ty::Int, Ty::Float, Ty::Str];
    for ty in &small {
        let pool = u.pool(ty, 1, avoid);
        let mut lists: Vec<Vec<Pat>> = pool.iter().map(|p| vec![p.clone()]).collect();
        for p in &pool {
            for q in &pool {
                lists.push(vec![p.clone(), q.clone()]);
            }
        }
        let keep = if quick { 18 } else { lists.len() };
        if lists.len() > keep {
            for _ in 0..keep {
                let i = rng.below(lists.len() as u64) as usize;
                out.push(MatchCase { ty: ty.clone(), arms: lists[i].clone(), origin: "systematic" });
            }
        } else {
            for l in lists {
                out.push(MatchCase { ty: ty.clone(), arms: l, origin: "systematic" });
            }
        }
    }
    // --- random
    let mut tys = scrutinee_types();
    tys.extend(scrutinee_types_d46());
    let n = if quick { 1500 } else { 40000 };
    for _ in 0..n {
        let ty = rng.pick(&tys).clone();
        let narms = 1 + rng.below(4) as usize;
        let depth = 1 + rng.below(3) as usize;
        let mut arms = vec![];
        for k in 0..narms {
            let mut none = None;
            let mut p = u.gen_pat(&ty, depth, rng, &mut none, avoid);
            // a top-level wildcard early makes everything after it redundant: keep that rare
            if k + 1 < narms && matches!(p, Wild) && rng.chance(4, 5) {
                p = u.gen_pat(&ty, depth, rng, &mut none, avoid);
            }
            arms.push(p);
        }
        match rng.below(10) {
            0 | 1 => arms.push(Wild),
            2 => {
                // duplicate an earlier arm
                let k = rng.below(arms.len() as u64) as usize;
                arms.push(arms[k].clone());
            }
            3 => {
                // pool-completion: append every depth-1 pool pattern (often makes the match exhaustive)
                let pool = u.pool(&ty, 1, avoid);
                if pool.len() <= 6 {
                    arms.extend(pool.into_iter().skip(1));
                }
            }
            _ => {}
        }
        if arms.len() > 6 {
            arms.truncate(6);
        }
        out.push(MatchCase { ty, arms, origin: "random" });
    }
    out
}

pub fn head_kind(ty: &Ty) -> &'static str {
    match ty {
        Ty::Bool => "bool",
        Ty::Void => "void",
        Ty::Int => "int",
        Ty::Float => "float",
        Ty::Str => "string",
        Ty::Tuple(_) => "tuple",
        Ty::Struct(_) => "struct",
        Ty::Enum(_) => "enum",
    }
}

pub fn has_or(p: &Pat) -> bool {
    match p {
        Pat::Or(..) => true,
        Pat::Tuple(ps) | Pat::Struct(_, ps, _) | Pat::VariantNamed(_, _, ps, _, _) => ps.iter().any(has_or),
        Pat::VariantPos(_, _, p, _) => has_or(p),
        _ => false,
    }
}

pub fn request(u: &Universe, mode: &str, ty: &Ty, arms: &[Pat]) -> String {
    format!(
        "pm {mode} {} {} {} {}",
        u.env_req(),
        u.ty_req(ty),
        arms.len(),
        arms.iter().map(|p| u.pat_req(p)).collect::<Vec<_>>().join(" ")
    )
}

/// a scrutinee value for the static checks (any value of the type will do)
pub fn some_value(u: &Universe, ty: &Ty) -> Val {
    u.values(ty, 2).into_iter().next().unwrap()
}

// ---------------------------------------------------------------- C14: bindings
/// bindings of the first alternative that matches (left to right), in slot order
pub fn bindings(p: &Pat, v: &Val, out: &mut Vec<(String, Val)>) {
    match (p, v) {
        (Pat::Bind(x), v) => out.push((x.clone(), v.clone())),
        (Pat::Tuple(ps), Val::Prod(vs)) | (Pat::Struct(_, ps, _), Val::Prod(vs)) => {
            for (p, v) in ps.iter().zip(vs) {
                bindings(p, v, out);
            }
        }
        (Pat::VariantPos(_, _, p, _), Val::Variant(_, pl)) => bindings(p, pl, out),
        (Pat::VariantNamed(_, _, ps, _, _), Val::Variant(_, pl)) => {
            if ps.len() == 1 {
                bindings(&ps[0], pl, out)
            } else if let Val::Prod(vs) = &**pl {
                for (p, v) in ps.iter().zip(vs) {
                    bindings(p, v, out);
                }
            }
        }
        (Pat::Or(l, r), v) => {
            if matches(l, v) {
                bindings(l, v, out)
            } else {
                bindings(r, v, out)
            }
        }
        _ => {}
    }
}

/// names bound by a pattern with their types (left alternative of or-patterns)
pub fn bound_vars(u: &Universe, p: &Pat, ty: &Ty, out: &mut Vec<(String, Ty)>) {
    match p {
        Pat::Bind(x) => out.push((x.clone(), ty.clone())),
        Pat::Tuple(ps) | Pat::Struct(_, ps, _) => {
            for (q, t) in ps.iter().zip(u.product_tys(ty)) {
                bound_vars(u, q, &t, out);
            }
        }
        Pat::VariantPos(e, i, q, _) => bound_vars(u, q, &u.data_ty(*e, *i), out),
        Pat::VariantNamed(e, i, ps, _, _) => {
            for (q, t) in ps.iter().zip(&u.enums[*e][*i].fields) {
                bound_vars(u, q, t, out);
            }
        }
        Pat::Or(l, _) => bound_vars(u, l, ty, out),
        _ => {}
    }
}

pub fn val_req(v: &Val) -> String {
    match v {
        Val::Bool(true) => "vt".into(),
        Val::Bool(false) => "vf".into(),
        Val::Int(i) => format!("vi{i}"),
        Val::Float(b) => format!("vd{b}"),
        Val::Str(s) => format!("vs{}", hex(s.as_bytes())),
        Val::Prod(vs) => format!("vP {}{}", vs.len(), vs.iter().map(|v| format!(" {}", val_req(v))).collect::<String>()),
        Val::Variant(i, pl) => format!("vV {i} {}", val_req(pl)),
    }
}

/// the model's rendering of a base value (`showSVal`)
pub fn base_canon(v: &Val) -> String {
    match v {
        Val::Bool(b) => format!("{b}"),
        Val::Int(i) => format!("{i}"),
        Val::Float(b) => format!("F{b}"),
        Val::Str(s) => format!("S{}", hex(s.as_bytes())),
        _ => "?".into(),
    }
}

/// parse what `println("x" .. v)` printed for a base-typed variable back into the canonical form
pub fn printed_canon(text: &str, ty: &Ty) -> String {
    match ty {
        Ty::Bool | Ty::Int => text.to_string(),
        Ty::Float => match text.parse::<f64>() {
            Ok(f) => format!("F{}", f.to_bits()),
            Err(_) => format!("unparsed<{text}>"),
        },
        Ty::Str => format!("S{}", hex(text.as_bytes())),
        _ => "?".into(),
    }
}

// ---------------------------------------------------------------- placements of the match under test (D70)
/// where the match expression under test sits in the program; the checker must give the same
/// verdict at every placement
pub const PLACEMENTS: [&str; 17] = [
    "let-init", "arm-body", "scrutinee", "fn-body", "lambda-body", "task-block", "block-expr", "if-body",
    "while-body", "for-body", "call-arg", "array-elem", "tuple-elem", "struct-elem", "assign-index",
    "field-default", "else-body",
];

/// a match without arms has no type of its own: it only stands where the context gives it one
pub fn placement_for(arms: &[Pat], pl: usize) -> usize {
    if arms.is_empty() && matches!(PLACEMENTS[pl], "scrutinee" | "lambda-body") { 0 } else { pl }
}

/// the program with the match at placement `pl`; arm k yields k
pub fn match_program_at(u: &Universe, ty: &Ty, scrutinee: &Val, arms: &[Pat], pl: usize) -> MatchProgram {
    let v = u.val_src(scrutinee, ty);
    // the match itself, scrutinee inline so that it can sit anywhere (also in a type declaration)
    let mut m = format!("match ({v}) {{\n");
    let mut rel_spans = vec![];
    for (k, p) in arms.iter().enumerate() {
        m.push_str("  ");
        let lo = m.len();
        m.push_str(&u.pat_src(p));
        rel_spans.push((lo, m.len()));
        m.push_str(&format!(" -> {k}\n"));
    }
    m.push('}');
    let (pre, post): (String, String) = match PLACEMENTS[pl] {
        "let-init" => ("let r: int = ".into(), "\nprintln(r)\n".into()),
        "arm-body" => ("let r: int = match true {\n  true -> ".into(), "\n  false -> 0\n}\nprintln(r)\n".into()),
        "scrutinee" => ("let r = match (".into(), ") {\n  _ -> 0\n}\nprintln(r)\n".into()),
        "fn-body" => ("fn ff() -> int {\n  ".into(), "\n}\nprintln(ff())\n".into()),
        "lambda-body" => ("let gg = () -> {\n  ".into(), "\n}\nprintln(gg())\n".into()),
        "task-block" => ("task {\n  let r: int = ".into(), "\n  println(r)\n}\n".into()),
        "block-expr" => ("let r: int = {\n  let q = 1\n  ".into(), "\n}\nprintln(r)\n".into()),
        "if-body" => ("if true {\n  let r: int = ".into(), "\n  println(r)\n}\n".into()),
        "else-body" => ("if false {\n  println(0)\n} else {\n  let r: int = ".into(), "\n  println(r)\n}\n".into()),
        "while-body" => ("var go = true\nwhile go {\n  go = false\n  let r: int = ".into(), "\n  println(r)\n}\n".into()),
        "for-body" => ("for i in 1 {\n  let r: int = ".into(), "\n  println(r)\n}\n".into()),
        "call-arg" => ("fn idf(x: int) -> int {\n  x\n}\nlet r = idf(".into(), ")\nprintln(r)\n".into()),
        "array-elem" => ("let r = [0, ".into(), "]\nprintln(r.len())\n".into()),
        "tuple-elem" => ("let r: (int, int) = (0, ".into(), ")\nprintln(1)\n".into()),
        "struct-elem" => ("type Wrap = {\n  w: int\n}\nlet r = Wrap(".into(), ")\nprintln(r.w)\n".into()),
        "assign-index" => ("let arr = [0, 0, 0, 0, 0, 0, 0]\narr[".into(), "] = 5\nprintln(arr[0])\n".into()),
        "field-default" => ("type Dflt = {\n  d: int = ".into(), "\n}\nprintln(1)\n".into()),
        _ => unreachable!(),
    };
    let mut src = u.decls_src();
    src.push_str(&pre);
    let base = src.len();
    src.push_str(&m);
    src.push_str(&post);
    MatchProgram { src, arm_spans: rel_spans.into_iter().map(|(a, b)| (a + base, b + base)).collect() }
}

/// canonical rendering of a verdict for comparing placements
pub fn verdict_key(v: &Verdict) -> String {
    let mut w = v.witnesses.clone();
    w.sort();
    format!(
        "crash={:?} other={:?} nonexh={} w={:?} red={:?}",
        v.crash.as_ref().map(|s| s.lines().next().unwrap_or("").to_string()),
        v.other, v.nonexhaustive, w, v.redundant
    )
}

/// D70 regression: two fixed matches (one accepted, one non-exhaustive with a redundant arm) must get
/// the same verdict at every placement
pub fn placement_selftest(u: &Universe, ctx: &mut Ctx) {
    for (arms, want_nonexh) in [(vec![Pat::Bool(true), Pat::Bool(false)], false), (vec![Pat::Bool(true), Pat::Bool(true)], true)] {
        let pls: Vec<usize> = (0..PLACEMENTS.len()).collect();
        let vs = par_map(&pls, |&pl| checker_verdict(&match_program_at(u, &Ty::Bool, &Val::Bool(true), &arms, pl)));
        for (pl, v) in vs.iter().enumerate() {
            ctx.count("placement-selftest");
            let ok = v.crash.is_none() && v.other.is_empty() && v.nonexhaustive == want_nonexh
                && (if want_nonexh { v.witnesses == vec!["false".to_string()] && v.redundant == vec![1] } else { v.redundant.is_empty() });
            if !ok {
                ctx.spec_fail(format!(
                    "match on bool with arms [{}] placed as {}: verdict {} (expected {})",
                    arms.iter().map(|p| u.pat_src(p)).collect::<Vec<_>>().join(" ; "), PLACEMENTS[pl], verdict_key(v),
                    if want_nonexh { "non-exhaustive, missing `false`, arm 1 redundant" } else { "accepted" }
                ));
            }
        }
    }
}

// ---------------------------------------------------------------- sibling or-patterns (round-2 seed)
fn orfree_alt(u: &Universe, t: &Ty, rng: &mut Rng) -> Pat {
    let mut none = None;
    let mut l = u.gen_pat(t, 1, rng, &mut none, false);
    let mut tries = 0;
    while has_or(&l) && tries < 8 {
        l = u.gen_pat(t, 1, rng, &mut none, false);
        tries += 1;
    }
    if has_or(&l) { Pat::Wild } else { l }
}

/// a pattern of a type with several components in which (almost) every component is an or-pattern of
/// two different or-free alternatives: tuple / struct components, the fields of a multi-field variant
pub fn sibling_or_pat(u: &Universe, ty: &Ty, rng: &mut Rng) -> Option<Pat> {
    let comp = |t: &Ty, rng: &mut Rng| -> Pat {
        if matches!(t, Ty::Void) {
            return Pat::Wild;
        }
        let l = orfree_alt(u, t, rng);
        let mut r = orfree_alt(u, t, rng);
        let mut tries = 0;
        while (r == l || matches!(l, Pat::Wild)) && tries < 6 {
            r = orfree_alt(u, t, rng);
            tries += 1;
            if matches!(l, Pat::Wild) { break; }
        }
        if r == l || matches!(l, Pat::Wild) { l } else { Pat::Or(Box::new(l), Box::new(r)) }
    };
    match ty {
        Ty::Tuple(ts) => Some(Pat::Tuple(ts.iter().map(|t| comp(t, rng)).collect())),
        Ty::Struct(id) => {
            let ps: Vec<Pat> = u.structs[*id].iter().map(|t| comp(t, rng)).collect();
            let order = if rng.chance(1, 2) { Some(shuffled(ps.len(), rng)) } else { None };
            Some(Pat::Struct(*id, ps, order))
        }
        Ty::Enum(e) => {
            let multi: Vec<usize> = (0..u.enums[*e].len()).filter(|i| u.enums[*e][*i].fields.len() >= 2).collect();
            if multi.is_empty() {
                return None;
            }
            let i = *rng.pick(&multi);
            let var = &u.enums[*e][i];
            let ps: Vec<Pat> = var.fields.iter().map(|t| comp(t, rng)).collect();
            if var.named {
                let o = shuffled(ps.len(), rng);
                Some(Pat::VariantNamed(*e, i, ps, o, false))
            } else {
                Some(Pat::VariantPos(*e, i, Box::new(Pat::Tuple(ps)), false))
            }
        }
        _ => None,
    }
}

// ---------------------------------------------------------------- let / var / for destructuring (D96, D97)
pub const LET_FORMS: [&str; 5] = ["let", "let-annotated", "var", "for", "let-in-fn"];

/// `let (pat) = value` in one of the statement forms; `uses` = statements using the bound variables
pub fn let_program(u: &Universe, ty: &Ty, p: &Pat, v: &Val, form: usize, uses: &[String]) -> String {
    let mut src = u.decls_src();
    let annotated = LET_FORMS[form % LET_FORMS.len()] == "let-annotated";
    let pat = format!("({})", if annotated { u.pat_src(p) } else { u.pat_src(&qualify_all(p)) });
    let val = u.val_src(v, ty);
    let body: String = uses.iter().map(|l| format!("  {l}\n")).collect();
    match LET_FORMS[form % LET_FORMS.len()] {
        "let" => src.push_str(&format!("let {pat} = {val}\n{}", body.replace("  ", ""))),
        "let-annotated" => src.push_str(&format!("let {pat}: {} = {val}\n{}", u.ty_src(ty), body.replace("  ", ""))),
        "var" => src.push_str(&format!("var {pat} = {val}\n{}", body.replace("  ", ""))),
        "for" => src.push_str(&format!("let arr = [{val}]\nfor {pat} in arr {{\n{body}}}\n")),
        _ => src.push_str(&format!("fn ff() -> int {{\n  let {pat} = {val}\n{body}  0\n}}\nprintln(ff())\n")),
    }
    src.push_str("println(\"end\")\n");
    src
}

/// every variant pattern written with its enum name (an un-annotated `let` cannot infer it)
pub fn qualify_all(p: &Pat) -> Pat {
    match p {
        Pat::Tuple(ps) => Pat::Tuple(ps.iter().map(qualify_all).collect()),
        Pat::Struct(id, ps, o) => Pat::Struct(*id, ps.iter().map(qualify_all).collect(), o.clone()),
        Pat::Variant0(e, i, _) => Pat::Variant0(*e, *i, true),
        Pat::VariantPos(e, i, q, _) => Pat::VariantPos(*e, *i, Box::new(qualify_all(q)), true),
        Pat::VariantNamed(e, i, ps, o, _) => Pat::VariantNamed(*e, *i, ps.iter().map(qualify_all).collect(), o.clone(), true),
        Pat::Or(l, r) => Pat::Or(Box::new(qualify_all(l)), Box::new(qualify_all(r))),
        other => other.clone(),
    }
}

pub fn irrefutable_on(u: &Universe, ty: &Ty, p: &Pat) -> bool {
    u.values(ty, 4).iter().all(|x| matches(p, x))
}
