//! Nested values for C08/C09 (included with `#[path]`): a family of concrete Abra types with
//! generated values (nesting ≤ 3), their canonical S-expression (the same grammar the Lean driver
//! `heapcopy` reads), Abra `show_*` functions printing that S-expression, and mutations with their
//! effect computed in Rust.
#![allow(dead_code)]
use vh::Rng;

#[derive(Clone, Debug, PartialEq)]
pub enum V {
    I(i64),
    B(bool),
    S(String),
    /// tuple or struct (both are struct objects in the VM)
    St(Vec<V>),
    A(Vec<V>),
    /// enum value: tag, payload (None = nil payload)
    Var(u64, Option<Box<V>>),
}

#[derive(Clone, Copy, Debug, PartialEq)]
pub enum Ty {
    Int,
    Bool,
    Str,
    Pair,
    OptInt,
    ArrInt,
    ArrStr,
    Box_,
    ArrBox,
    OptBox,
    ArrArr,
    Nest,
}

pub const ALL_TYS: [Ty; 12] = [
    Ty::Int, Ty::Bool, Ty::Str, Ty::Pair, Ty::OptInt, Ty::ArrInt, Ty::ArrStr, Ty::Box_, Ty::ArrBox, Ty::OptBox,
    Ty::ArrArr, Ty::Nest,
];

pub const DECLS: &str = r#"type Box = {
  v: int
  s: string
}
type Nest = {
  b: Box
  xs: array<(int, string)>
  o: option<int>
  bs: array<Box>
}
fn show_int(n: int) -> string {
  "" .. n
}
fn show_bool(b: bool) -> string {
  if b { "t" } else { "f" }
}
fn show_str(s: string) -> string {
  "'" .. s .. "'"
}
fn show_pair(p: (int, string)) -> string {
  let (a, b) = p
  "(S " .. a .. " '" .. b .. "')"
}
fn show_optint(o: option<int>) -> string {
  match o {
    .some(x) -> "(V 0 " .. x .. ")"
    .none -> "(V 1 0)"
  }
}
fn show_arrint(xs: array<int>) -> string {
  var r = "(A"
  for x in xs {
    r = r .. " " .. x
  }
  r .. ")"
}
fn show_arrstr(xs: array<string>) -> string {
  var r = "(A"
  for x in xs {
    r = r .. " '" .. x .. "'"
  }
  r .. ")"
}
fn show_box(b: Box) -> string {
  "(S " .. b.v .. " '" .. b.s .. "')"
}
fn show_arrbox(xs: array<Box>) -> string {
  var r = "(A"
  for x in xs {
    r = r .. " " .. show_box(x)
  }
  r .. ")"
}
fn show_optbox(o: option<Box>) -> string {
  match o {
    .some(x) -> "(V 0 " .. show_box(x) .. ")"
    .none -> "(V 1 0)"
  }
}
fn show_arrarr(xs: array<array<int>>) -> string {
  var r = "(A"
  for x in xs {
    r = r .. " " .. show_arrint(x)
  }
  r .. ")"
}
fn show_pairs(xs: array<(int, string)>) -> string {
  var r = "(A"
  for x in xs {
    r = r .. " " .. show_pair(x)
  }
  r .. ")"
}
fn show_nest(n: Nest) -> string {
  "(S " .. show_box(n.b) .. " " .. show_pairs(n.xs) .. " " .. show_optint(n.o) .. " " .. show_arrbox(n.bs) .. ")"
}
"#;

impl Ty {
    pub fn abra(self) -> &'static str {
        match self {
            Ty::Int => "int",
            Ty::Bool => "bool",
            Ty::Str => "string",
            Ty::Pair => "(int, string)",
            Ty::OptInt => "option<int>",
            Ty::ArrInt => "array<int>",
            Ty::ArrStr => "array<string>",
            Ty::Box_ => "Box",
            Ty::ArrBox => "array<Box>",
            Ty::OptBox => "option<Box>",
            Ty::ArrArr => "array<array<int>>",
            Ty::Nest => "Nest",
        }
    }
    pub fn show(self) -> &'static str {
        match self {
            Ty::Int => "show_int",
            Ty::Bool => "show_bool",
            Ty::Str => "show_str",
            Ty::Pair => "show_pair",
            Ty::OptInt => "show_optint",
            Ty::ArrInt => "show_arrint",
            Ty::ArrStr => "show_arrstr",
            Ty::Box_ => "show_box",
            Ty::ArrBox => "show_arrbox",
            Ty::OptBox => "show_optbox",
            Ty::ArrArr => "show_arrarr",
            Ty::Nest => "show_nest",
        }
    }
    pub fn is_heap(self) -> bool {
        !matches!(self, Ty::Int | Ty::Bool)
    }
    pub fn mutable(self) -> bool {
        matches!(self, Ty::ArrInt | Ty::ArrStr | Ty::Box_ | Ty::ArrBox | Ty::ArrArr | Ty::Nest)
    }
}

fn word(rng: &mut Rng) -> String {
    rng.pick(&["", "a", "bc", "hello", "x y", "zz9", "abra"]).to_string()
}
fn small(rng: &mut Rng) -> i64 {
    *rng.pick(&[0i64, 1, -1, 7, 42, -300, 9000000000, i64::MAX, i64::MIN + 1])
}
fn gen_box(rng: &mut Rng) -> V {
    V::St(vec![V::I(small(rng)), V::S(word(rng))])
}

pub fn gen_value(rng: &mut Rng, ty: Ty) -> V {
    let n = rng.below(4) as usize;
    match ty {
        Ty::Int => V::I(small(rng)),
        Ty::Bool => V::B(rng.chance(1, 2)),
        Ty::Str => V::S(word(rng)),
        Ty::Pair => V::St(vec![V::I(small(rng)), V::S(word(rng))]),
        Ty::OptInt => {
            if rng.chance(2, 3) { V::Var(0, Some(Box::new(V::I(small(rng))))) } else { V::Var(1, None) }
        }
        Ty::ArrInt => V::A((0..n).map(|_| V::I(small(rng))).collect()),
        Ty::ArrStr => V::A((0..n).map(|_| V::S(word(rng))).collect()),
        Ty::Box_ => gen_box(rng),
        Ty::ArrBox => V::A((0..n).map(|_| gen_box(rng)).collect()),
        Ty::OptBox => {
            if rng.chance(2, 3) { V::Var(0, Some(Box::new(gen_box(rng)))) } else { V::Var(1, None) }
        }
        Ty::ArrArr => V::A((0..n).map(|_| gen_value(rng, Ty::ArrInt)).collect()),
        Ty::Nest => V::St(vec![
            gen_box(rng),
            V::A((0..rng.below(3)).map(|_| gen_value(rng, Ty::Pair)).collect()),
            gen_value(rng, Ty::OptInt),
            V::A((0..rng.below(3)).map(|_| gen_box(rng)).collect()),
        ]),
    }
}

pub fn sexpr(v: &V) -> String {
    match v {
        V::I(n) => n.to_string(),
        V::B(b) => if *b { "t".into() } else { "f".into() },
        V::S(s) => format!("'{s}'"),
        V::St(fs) => format!("(S{})", fs.iter().map(|f| format!(" {}", sexpr(f))).collect::<String>()),
        V::A(es) => format!("(A{})", es.iter().map(|f| format!(" {}", sexpr(f))).collect::<String>()),
        V::Var(t, Some(p)) => format!("(V {t} {})", sexpr(p)),
        V::Var(t, None) => format!("(V {t} 0)"),
    }
}

fn int_lit(n: i64) -> String {
    // a negative literal in argument position is parenthesised to stay an operand
    if n < 0 { format!("({n})") } else { n.to_string() }
}

/// Abra expression denoting the value
pub fn expr(v: &V, ty: Ty) -> String {
    match (ty, v) {
        (Ty::Int, V::I(n)) => int_lit(*n),
        (Ty::Bool, V::B(b)) => b.to_string(),
        (Ty::Str, V::S(s)) => format!("\"{s}\""),
        (Ty::Pair, V::St(fs)) => format!("({}, {})", expr(&fs[0], Ty::Int), expr(&fs[1], Ty::Str)),
        (Ty::OptInt, V::Var(0, Some(p))) => format!("option.some({})", expr(p, Ty::Int)),
        (Ty::OptInt, V::Var(..)) => "option.none".into(),
        (Ty::OptBox, V::Var(0, Some(p))) => format!("option.some({})", expr(p, Ty::Box_)),
        (Ty::OptBox, V::Var(..)) => "option.none".into(),
        (Ty::ArrInt, V::A(es)) => format!("[{}]", es.iter().map(|e| expr(e, Ty::Int)).collect::<Vec<_>>().join(", ")),
        (Ty::ArrStr, V::A(es)) => format!("[{}]", es.iter().map(|e| expr(e, Ty::Str)).collect::<Vec<_>>().join(", ")),
        (Ty::ArrBox, V::A(es)) => format!("[{}]", es.iter().map(|e| expr(e, Ty::Box_)).collect::<Vec<_>>().join(", ")),
        (Ty::ArrArr, V::A(es)) => format!("[{}]", es.iter().map(|e| expr(e, Ty::ArrInt)).collect::<Vec<_>>().join(", ")),
        (Ty::Box_, V::St(fs)) => format!("Box({}, {})", expr(&fs[0], Ty::Int), expr(&fs[1], Ty::Str)),
        (Ty::Nest, V::St(fs)) => {
            let xs = match &fs[1] {
                V::A(es) => format!("[{}]", es.iter().map(|e| expr(e, Ty::Pair)).collect::<Vec<_>>().join(", ")),
                _ => unreachable!(),
            };
            format!("Nest({}, {}, {}, {})", expr(&fs[0], Ty::Box_), xs, expr(&fs[2], Ty::OptInt), expr(&fs[3], Ty::ArrBox))
        }
        _ => unreachable!("{ty:?} {v:?}"),
    }
}

/// `n` random mutations of the variable `name` of type `ty`: (Abra statements, the value afterwards)
pub fn mutate(rng: &mut Rng, name: &str, ty: Ty, v: &V, n: usize, salt: i64) -> (String, V) {
    let mut v = v.clone();
    let mut s = String::new();
    for j in 0..n {
        let k = salt + j as i64;
        match (ty, &mut v) {
            (Ty::ArrInt, V::A(es)) => {
                if !es.is_empty() && rng.chance(1, 2) {
                    s.push_str(&format!("{name}[0] = {k}\n"));
                    es[0] = V::I(k);
                } else {
                    s.push_str(&format!("{name}.push({k})\n"));
                    es.push(V::I(k));
                }
            }
            (Ty::ArrStr, V::A(es)) => {
                s.push_str(&format!("{name}.push(\"m{k}\")\n"));
                es.push(V::S(format!("m{k}")));
            }
            (Ty::Box_, V::St(fs)) => {
                if rng.chance(1, 2) {
                    s.push_str(&format!("{name}.v = {k}\n"));
                    fs[0] = V::I(k);
                } else {
                    s.push_str(&format!("{name}.s = \"m{k}\"\n"));
                    fs[1] = V::S(format!("m{k}"));
                }
            }
            (Ty::ArrBox, V::A(es)) => {
                if !es.is_empty() && rng.chance(1, 2) {
                    s.push_str(&format!("{name}[0].v = {k}\n"));
                    if let V::St(fs) = &mut es[0] {
                        fs[0] = V::I(k);
                    }
                } else {
                    s.push_str(&format!("{name}.push(Box({k}, \"n\"))\n"));
                    es.push(V::St(vec![V::I(k), V::S("n".into())]));
                }
            }
            (Ty::ArrArr, V::A(es)) => {
                if !es.is_empty() && rng.chance(1, 2) {
                    s.push_str(&format!("{name}[0].push({k})\n"));
                    if let V::A(inner) = &mut es[0] {
                        inner.push(V::I(k));
                    }
                } else {
                    s.push_str(&format!("{name}.push([{k}])\n"));
                    es.push(V::A(vec![V::I(k)]));
                }
            }
            (Ty::Nest, V::St(fs)) => match rng.below(5) {
                0 => {
                    s.push_str(&format!("{name}.b.v = {k}\n"));
                    if let V::St(b) = &mut fs[0] {
                        b[0] = V::I(k);
                    }
                }
                1 => {
                    s.push_str(&format!("{name}.xs.push(({k}, \"p\"))\n"));
                    if let V::A(xs) = &mut fs[1] {
                        xs.push(V::St(vec![V::I(k), V::S("p".into())]));
                    }
                }
                2 => {
                    s.push_str(&format!("{name}.o = option.some({k})\n"));
                    fs[2] = V::Var(0, Some(Box::new(V::I(k))));
                }
                3 => {
                    s.push_str(&format!("{name}.b = Box({k}, \"nb\")\n"));
                    fs[0] = V::St(vec![V::I(k), V::S("nb".into())]);
                }
                _ => {
                    s.push_str(&format!("{name}.bs.push(Box({k}, \"q\"))\n"));
                    if let V::A(bs) = &mut fs[3] {
                        bs.push(V::St(vec![V::I(k), V::S("q".into())]));
                    }
                }
            },
            _ => {}
        }
    }
    (s, v)
}

pub fn indent(s: &str, pad: &str) -> String {
    s.lines().map(|l| format!("{pad}{l}\n")).collect()
}

// ------------------------------------------------------------------ aliasing and cycles
// (after fix 0cb8741: one map of copies per SpawnTask / per channel read)

pub const ALIAS_DECLS: &str = r#"type Two = {
  p: array<int>
  q: array<int>
}
type Node = {
  v: int
  next: array<Node>
}
type It = {
  id: int
  owner: array<It>
}
type Tr = leaf(int) | kids(array<Tr>) | grid(array<array<Tr>>)
fn tr_len(t: Tr) -> int {
  match t {
    .kids(a) -> a.len()
    .grid(g) -> g.len()
    .leaf(_) -> 0 - 1
  }
}
fn tr_kids(t: Tr) -> array<Tr> {
  match t {
    .kids(a) -> a
    _ -> []
  }
}
fn opt_push(o: option<array<int>>, k: int) -> void {
  match o {
    .some(z) -> z.push(k)
    .none -> {}
  }
}
fn opt_show(o: option<array<int>>) -> string {
  match o {
    .some(z) -> show_arrint(z)
    .none -> "none"
  }
}
"#;

pub struct AliasCase {
    pub src: String,
    pub class: &'static str,
    /// expected output lines: what the task observed (in order), then what the spawner observed
    pub expected: Vec<String>,
    /// `heapalias …` request whose answer must be the expected lines joined by `;` + " owned"
    pub model: Option<String>,
}

fn alias_program(setup: &str, task_body: &str, n_task_shows: usize, main_after: &str, main_shows: &[String]) -> String {
    let mut s = String::from(DECLS);
    s.push_str(ALIAS_DECLS);
    s.push_str("let out: channel<string> = channel()\nlet ack: channel<bool> = channel()\n");
    s.push_str(setup);
    s.push_str(&format!("task {{\n{}  ack.read()\n}}\n", indent(task_body, "  ")));
    s.push_str(main_after);
    for i in 0..n_task_shows {
        s.push_str(&format!("let r{i} = out.read()\n"));
    }
    for i in 0..n_task_shows {
        s.push_str(&format!("println(r{i})\n"));
    }
    for m in main_shows {
        s.push_str(&format!("println({m})\n"));
    }
    s.push_str("ack.write(true)\n");
    s
}

/// a value with aliasing or a cycle is captured by a task; the task mutates through one alias and
/// observes through the other; the spawner does the same on its originals
pub fn gen_alias_capture(rng: &mut Rng, i: usize) -> AliasCase {
    let a = rng.range(0, 99);
    let b = rng.range(0, 99);
    let k = rng.range(100, 199);
    let k2 = rng.range(200, 299);
    match i % 16 {
        0 => AliasCase {
            class: "alias:two-variables",
            src: alias_program(
                &format!("let xs = [{a}, {b}]\nlet ys = xs\n"),
                &format!("xs.push({k})\nlet s1 = show_arrint(ys)\nout.write(s1)\n"),
                1,
                &format!("ys.push({k2})\n"),
                &["show_arrint(xs)".into()],
            ),
            expected: vec![format!("(A {a} {b} {k})"), format!("(A {a} {b} {k2})")],
            model: Some(format!("heapalias &0=(A {a} {b}) &0 | T push 0 {k} ; T show 1 ; M push 1 {k2} ; M show 0")),
        },
        1 => AliasCase {
            class: "alias:two-fields",
            src: alias_program(
                &format!("let xs = [{a}]\nlet t = Two(xs, xs)\n"),
                &format!("t.p.push({k})\nlet s1 = show_arrint(t.q)\nout.write(s1)\n"),
                1,
                &format!("t.q.push({k2})\n"),
                &["show_arrint(t.p)".into()],
            ),
            expected: vec![format!("(A {a} {k})"), format!("(A {a} {k2})")],
            model: Some(format!("heapalias (S &0=(A {a}) &0) | T push 0.0 {k} ; T show 0.1 ; M push 0.1 {k2} ; M show 0.0")),
        },
        2 => AliasCase {
            class: "alias:capture-and-field",
            src: alias_program(
                &format!("let xs = [{a}]\nlet t = Two(xs, [{b}])\n"),
                &format!(
                    "xs.push({k})\nlet s1 = show_arrint(t.p)\nout.write(s1)\nt.p.push({})\nlet s2 = show_arrint(xs)\nout.write(s2)\n",
                    k + 1
                ),
                2,
                &format!("xs.push({k2})\n"),
                &["show_arrint(t.p)".into()],
            ),
            expected: vec![format!("(A {a} {k})"), format!("(A {a} {k} {})", k + 1), format!("(A {a} {k2})")],
            model: Some(format!(
                "heapalias &0=(A {a}) (S &0 (A {b})) | T push 0 {k} ; T show 1.0 ; T push 1.0 {} ; T show 0 ; M push 0 {k2} ; M show 1.0",
                k + 1
            )),
        },
        3 => AliasCase {
            class: "cycle:self",
            src: alias_program(
                &format!("let n = Node({a}, [])\nn.next.push(n)\n"),
                &format!(
                    "n.v = {k}\nlet s1 = show_int(n.next[0].v)\nout.write(s1)\nn.next[0].next[0].v = {}\nlet s2 = show_int(n.v)\nout.write(s2)\n",
                    k + 1
                ),
                2,
                &format!("n.next[0].v = {k2}\n"),
                &["show_int(n.v)".into()],
            ),
            expected: vec![format!("{k}"), format!("{}", k + 1), format!("{k2}")],
            model: Some(format!(
                "heapalias &0=(S {a} (A &0)) | T set 0 0 {k} ; T show 0.1.0.0 ; T set 0.1.0.1.0 0 {} ; T show 0.0 ; M set 0.1.0 0 {k2} ; M show 0.0",
                k + 1
            )),
        },
        4 => AliasCase {
            class: "cycle:two-nodes",
            src: alias_program(
                &format!("let p = Node({a}, [])\nlet q = Node({b}, [p])\np.next.push(q)\n"),
                &format!(
                    "p.next[0].v = {k}\nlet s1 = show_int(p.next[0].next[0].next[0].v)\nout.write(s1)\nlet s2 = show_int(p.next[0].next[0].v)\nout.write(s2)\n"
                ),
                2,
                &format!("q.v = {k2}\n"),
                &["show_int(p.next[0].v)".into()],
            ),
            expected: vec![format!("{k}"), format!("{a}"), format!("{k2}")],
            model: Some(format!(
                "heapalias &0=(S {a} (A &1=(S {b} (A &0)))) | T set 0.1.0 0 {k} ; T show 0.1.0.1.0.1.0.0 ; T show 0.1.0.1.0.0 ; M set 0.1.0 0 {k2} ; M show 0.1.0.0"
            )),
        },
        6 => AliasCase {
            class: "cycle:array-root-ring",
            src: alias_program(
                &format!("let ring: array<It> = []\nring.push(It({a}, ring))\n"),
                &format!("ring.push(It({k}, []))\nlet s1 = show_int(ring[0].owner.len())\nout.write(s1)\n"),
                1,
                &format!("ring.push(It({k2}, []))\nring.push(It({k2}, []))\n"),
                &["show_int(ring[0].owner.len())".into()],
            ),
            expected: vec!["2".into(), "3".into()],
            model: Some(format!("heapalias &0=(A (S {a} &0)) | T pushv 0 (S {k} (A)) ; T len 0.0.1 ; M pushv 0 (S {k2} (A)) ; M pushv 0 (S {k2} (A)) ; M len 0.0.1")),
        },
        7 => AliasCase {
            class: "cycle:array-root-via-variant",
            src: alias_program(
                "let ks: array<Tr> = []\nks.push(Tr.kids(ks))\n",
                &format!("ks.push(Tr.leaf({k}))\nlet s1 = show_int(tr_len(ks[0]))\nout.write(s1)\n"),
                1,
                &format!("ks.push(Tr.leaf({k2}))\nks.push(Tr.leaf({k2}))\n"),
                &["show_int(tr_len(ks[0]))".into()],
            ),
            expected: vec!["2".into(), "3".into()],
            model: Some(format!("heapalias &0=(A (V 1 &0)) | T pushv 0 (V 0 {k}) ; T len 0.0.0 ; M pushv 0 (V 0 {k2}) ; M pushv 0 (V 0 {k2}) ; M len 0.0.0")),
        },
        8 => AliasCase {
            class: "cycle:array-root-nested-arrays",
            src: alias_program(
                "let outer: array<array<Tr>> = []\nlet inner: array<Tr> = []\ninner.push(Tr.grid(outer))\nouter.push(inner)\n",
                "let e: array<Tr> = []\nouter.push(e)\nlet s1 = show_int(tr_len(outer[0][0]))\nout.write(s1)\n",
                1,
                "let e2: array<Tr> = []\nouter.push(e2)\nlet e3: array<Tr> = []\nouter.push(e3)\n",
                &["show_int(tr_len(outer[0][0]))".into()],
            ),
            expected: vec!["2".into(), "3".into()],
            model: Some("heapalias &0=(A (A (V 2 &0))) | T pushv 0 (A) ; T len 0.0.0.0 ; M pushv 0 (A) ; M pushv 0 (A) ; M len 0.0.0.0".to_string()),
        },
        9 => AliasCase {
            class: "cycle:variant-root",
            src: alias_program(
                "let ks2: array<Tr> = []\nlet root = Tr.kids(ks2)\nks2.push(root)\n",
                &format!("tr_kids(root).push(Tr.leaf({k}))\nlet s1 = show_int(tr_len(tr_kids(root)[0]))\nout.write(s1)\n"),
                1,
                &format!("ks2.push(Tr.leaf({k2}))\nks2.push(Tr.leaf({k2}))\n"),
                &["show_int(tr_len(root))".into()],
            ),
            expected: vec!["2".into(), "3".into()],
            model: Some(format!("heapalias &0=(V 1 (A &0)) | T pushv 0.0 (V 0 {k}) ; T len 0.0.0.0 ; M pushv 0.0 (V 0 {k2}) ; M pushv 0.0 (V 0 {k2}) ; M len 0.0")),
        },
        10 | 15 => {
            // an array that is EMPTY at the spawn (literally, or popped down to nothing), grown on both sides
            let setup = if i % 16 == 10 { "let xs: array<int> = []\n".to_string() } else { format!("let xs = [{a}, {b}]\nxs.pop()\nxs.pop()\n") };
            AliasCase {
                class: if i % 16 == 10 { "empty:direct" } else { "empty:popped" },
                src: alias_program(
                    &setup,
                    &format!("xs.push({k})\nxs.push({})\nlet s1 = show_arrint(xs)\nout.write(s1)\n", k + 1),
                    1,
                    &format!("xs.push({k2})\n"),
                    &["show_arrint(xs)".into()],
                ),
                expected: vec![format!("(A {k} {})", k + 1), format!("(A {k2})")],
                model: Some(format!("heapalias (A) | T push 0 {k} ; T push 0 {} ; T show 0 ; M push 0 {k2} ; M show 0", k + 1)),
            }
        }
        11 => AliasCase {
            class: "empty:in-struct",
            src: alias_program(
                &format!("let t = Two([], [{a}])\n"),
                &format!("t.p.push({k})\nlet s1 = show_arrint(t.p)\nout.write(s1)\n"),
                1,
                &format!("t.p.push({k2})\nt.p.push({k2})\n"),
                &["show_arrint(t.p)".into()],
            ),
            expected: vec![format!("(A {k})"), format!("(A {k2} {k2})")],
            model: Some(format!("heapalias (S (A) (A {a})) | T push 0.0 {k} ; T show 0.0 ; M push 0.0 {k2} ; M push 0.0 {k2} ; M show 0.0")),
        },
        12 => AliasCase {
            class: "empty:in-tuple",
            src: alias_program(
                &format!("let em: array<int> = []\nlet tp = ({a}, em)\n"),
                &format!("let (n, arr) = tp\narr.push({k})\nlet s1 = show_arrint(arr)\nout.write(s1)\n"),
                1,
                &format!("em.push({k2})\n"),
                &["show_arrint(em)".into()],
            ),
            expected: vec![format!("(A {k})"), format!("(A {k2})")],
            model: Some(format!("heapalias (S {a} (A)) | T push 0.1 {k} ; T show 0.1 ; M push 0.1 {k2} ; M show 0.1")),
        },
        13 => AliasCase {
            class: "empty:in-enum-payload",
            src: alias_program(
                "let em: array<int> = []\nlet o = option.some(em)\n",
                &format!("opt_push(o, {k})\nlet s1 = opt_show(o)\nout.write(s1)\n"),
                1,
                &format!("em.push({k2})\n"),
                &["show_arrint(em)".into()],
            ),
            expected: vec![format!("(A {k})"), format!("(A {k2})")],
            model: Some(format!("heapalias (V 0 (A)) | T push 0.0 {k} ; T show 0.0 ; M push 0.0 {k2} ; M show 0.0")),
        },
        14 => AliasCase {
            class: "empty:in-closures",
            src: alias_program(
                "let em: array<int> = []\nlet addk = (x) -> em.push(x)\nlet cnt = () -> em.len()\n",
                &format!("addk({k})\naddk({k})\nlet s1 = show_int(cnt())\nout.write(s1)\n"),
                1,
                &format!("em.push({k2})\n"),
                &["show_int(em.len())".into()],
            ),
            expected: vec!["2".into(), "1".into()],
            model: Some(format!("heapalias (S 0 &0=(A)) (S 0 &0) | T push 0.1 {k} ; T push 0.1 {k} ; T len 1.1 ; M push 0.1 {k2} ; M len 0.1")),
        },
        _ => AliasCase {
            class: "alias:same-box-twice-in-array",
            src: alias_program(
                &format!("let bx = Box({a}, \"s\")\nlet arr = [bx, bx]\n"),
                &format!("arr[0].v = {k}\nlet s1 = show_box(arr[1])\nout.write(s1)\n"),
                1,
                &format!("bx.v = {k2}\n"),
                &["show_arrbox(arr)".into()],
            ),
            expected: vec![format!("(S {k} 's')"), format!("(A (S {k2} 's') (S {k2} 's'))")],
            model: Some(format!("heapalias (A &0=(S {a} 's') &0) | T set 0.0 0 {k} ; T show 0.1 ; M set 0.0 0 {k2} ; M show 0")),
        },
    }
}

/// the same shapes sent through a channel (one `ChannelRead` = one fresh map); the sender keeps the value
/// alive and untouched until the reader has it (hypothesis of C09's partial theorem)
pub fn gen_alias_channel(rng: &mut Rng, i: usize) -> AliasCase {
    let a = rng.range(0, 99);
    let k = rng.range(100, 199);
    let k2 = rng.range(200, 299);
    let chan = |ty: &str, setup: &str, send: &str, task_body: &str, n: usize, main_after: &str, shows: &[String]| {
        let mut s = String::from(DECLS);
        s.push_str(ALIAS_DECLS);
        s.push_str("let out: channel<string> = channel()\nlet ack: channel<bool> = channel()\nlet got: channel<bool> = channel()\n");
        s.push_str(&format!("let c: channel<{ty}> = channel()\n"));
        s.push_str(&format!("task {{\n{}  ack.read()\n}}\n", indent(task_body, "  ")));
        s.push_str(setup);
        s.push_str(send);
        s.push_str("got.read()\n");
        s.push_str(main_after);
        for i in 0..n {
            s.push_str(&format!("let r{i} = out.read()\n"));
        }
        for i in 0..n {
            s.push_str(&format!("println(r{i})\n"));
        }
        for m in shows {
            s.push_str(&format!("println({m})\n"));
        }
        s.push_str("ack.write(true)\n");
        s
    };
    match i % 9 {
        0 => AliasCase {
            class: "chan:same-box-twice-in-array",
            src: chan(
                "array<Box>",
                &format!("let bx = Box({a}, \"s\")\nlet arr = [bx, bx]\n"),
                "c.write(arr)\n",
                &format!("let x = c.read()\ngot.write(true)\nx[0].v = {k}\nlet s1 = show_box(x[1])\nout.write(s1)\n"),
                1,
                &format!("bx.v = {k2}\n"),
                &["show_arrbox(arr)".into()],
            ),
            expected: vec![format!("(S {k} 's')"), format!("(A (S {k2} 's') (S {k2} 's'))")],
            model: Some(format!("heapalias (A &0=(S {a} 's') &0) | T set 0.0 0 {k} ; T show 0.1 ; M set 0.0 0 {k2} ; M show 0")),
        },
        1 => AliasCase {
            class: "chan:cycle-self",
            src: chan(
                "Node",
                &format!("let n = Node({a}, [])\nn.next.push(n)\n"),
                "c.write(n)\n",
                &format!("let x = c.read()\ngot.write(true)\nx.v = {k}\nlet s1 = show_int(x.next[0].next[0].v)\nout.write(s1)\n"),
                1,
                &format!("n.next[0].v = {k2}\n"),
                &["show_int(n.v)".into()],
            ),
            expected: vec![format!("{k}"), format!("{k2}")],
            model: Some(format!("heapalias &0=(S {a} (A &0)) | T set 0 0 {k} ; T show 0.1.0.1.0.0 ; M set 0.1.0 0 {k2} ; M show 0.0")),
        },
        2 => AliasCase {
            class: "chan:two-fields",
            src: chan(
                "Two",
                &format!("let xs = [{a}]\nlet t = Two(xs, xs)\n"),
                "c.write(t)\n",
                &format!("let x = c.read()\ngot.write(true)\nx.p.push({k})\nlet s1 = show_arrint(x.q)\nout.write(s1)\n"),
                1,
                &format!("xs.push({k2})\n"),
                &["show_arrint(t.q)".into()],
            ),
            expected: vec![format!("(A {a} {k})"), format!("(A {a} {k2})")],
            model: Some(format!("heapalias (S &0=(A {a}) &0) | T push 0.0 {k} ; T show 0.1 ; M push 0.0 {k2} ; M show 0.1")),
        },
        3 => AliasCase {
            class: "chan:array-root-ring",
            src: chan(
                "array<It>",
                &format!("let ring: array<It> = []\nring.push(It({a}, ring))\n"),
                "c.write(ring)\n",
                &format!("let x = c.read()\ngot.write(true)\nx.push(It({k}, []))\nlet s1 = show_int(x[0].owner.len())\nout.write(s1)\n"),
                1,
                &format!("ring.push(It({k2}, []))\nring.push(It({k2}, []))\n"),
                &["show_int(ring[0].owner.len())".into()],
            ),
            expected: vec!["2".into(), "3".into()],
            model: Some(format!("heapalias &0=(A (S {a} &0)) | T pushv 0 (S {k} (A)) ; T len 0.0.1 ; M pushv 0 (S {k2} (A)) ; M pushv 0 (S {k2} (A)) ; M len 0.0.1")),
        },
        4 => AliasCase {
            class: "chan:array-root-via-variant",
            src: chan(
                "array<Tr>",
                "let ks: array<Tr> = []\nks.push(Tr.kids(ks))\n",
                "c.write(ks)\n",
                &format!("let x = c.read()\ngot.write(true)\nx.push(Tr.leaf({k}))\nlet s1 = show_int(tr_len(x[0]))\nout.write(s1)\n"),
                1,
                &format!("ks.push(Tr.leaf({k2}))\nks.push(Tr.leaf({k2}))\n"),
                &["show_int(tr_len(ks[0]))".into()],
            ),
            expected: vec!["2".into(), "3".into()],
            model: Some(format!("heapalias &0=(A (V 1 &0)) | T pushv 0 (V 0 {k}) ; T len 0.0.0 ; M pushv 0 (V 0 {k2}) ; M pushv 0 (V 0 {k2}) ; M len 0.0.0")),
        },
        5 => AliasCase {
            class: "chan:array-root-nested-arrays",
            src: chan(
                "array<array<Tr>>",
                "let outer: array<array<Tr>> = []\nlet inner: array<Tr> = []\ninner.push(Tr.grid(outer))\nouter.push(inner)\n",
                "c.write(outer)\n",
                "let x = c.read()\ngot.write(true)\nlet e: array<Tr> = []\nx.push(e)\nlet s1 = show_int(tr_len(x[0][0]))\nout.write(s1)\n",
                1,
                "let e2: array<Tr> = []\nouter.push(e2)\nlet e3: array<Tr> = []\nouter.push(e3)\n",
                &["show_int(tr_len(outer[0][0]))".into()],
            ),
            expected: vec!["2".into(), "3".into()],
            model: Some("heapalias &0=(A (A (V 2 &0))) | T pushv 0 (A) ; T len 0.0.0.0 ; M pushv 0 (A) ; M pushv 0 (A) ; M len 0.0.0.0".to_string()),
        },
        6 => AliasCase {
            class: "chan:variant-root",
            src: chan(
                "Tr",
                "let ks2: array<Tr> = []\nlet root = Tr.kids(ks2)\nks2.push(root)\n",
                "c.write(root)\n",
                &format!("let x = c.read()\ngot.write(true)\ntr_kids(x).push(Tr.leaf({k}))\nlet s1 = show_int(tr_len(tr_kids(x)[0]))\nout.write(s1)\n"),
                1,
                &format!("ks2.push(Tr.leaf({k2}))\nks2.push(Tr.leaf({k2}))\n"),
                &["show_int(tr_len(root))".into()],
            ),
            expected: vec!["2".into(), "3".into()],
            model: Some(format!("heapalias &0=(V 1 (A &0)) | T pushv 0.0 (V 0 {k}) ; T len 0.0.0.0 ; M pushv 0.0 (V 0 {k2}) ; M pushv 0.0 (V 0 {k2}) ; M len 0.0")),
        },
        7 => AliasCase {
            class: "chan:empty-array",
            src: chan(
                "array<int>",
                "let em: array<int> = []\n",
                "c.write(em)\n",
                &format!("let x = c.read()\ngot.write(true)\nx.push({k})\nlet s1 = show_arrint(x)\nout.write(s1)\n"),
                1,
                &format!("em.push({k2})\nem.push({k2})\n"),
                &["show_arrint(em)".into()],
            ),
            expected: vec![format!("(A {k})"), format!("(A {k2} {k2})")],
            model: Some(format!("heapalias (A) | T push 0 {k} ; T show 0 ; M push 0 {k2} ; M push 0 {k2} ; M show 0")),
        },
        // the same array written twice: two reads make two independent copies (a fresh map per read)
        _ => AliasCase {
            class: "chan:written-twice",
            src: chan(
                "array<int>",
                &format!("let xs = [{a}]\n"),
                "c.write(xs)\nc.write(xs)\n",
                &format!("let u = c.read()\nlet w = c.read()\ngot.write(true)\nu.push({k})\nlet s1 = show_arrint(w)\nout.write(s1)\nlet s2 = show_arrint(u)\nout.write(s2)\n"),
                2,
                &format!("xs.push({k2})\n"),
                &["show_arrint(xs)".into()],
            ),
            expected: vec![format!("(A {a})"), format!("(A {a} {k})"), format!("(A {a} {k2})")],
            model: None,
        },
    }
}

// ------------------------------------------------------------------ histories of copies on one thread
// Every deep copy (a channel read, a spawn) starts from an empty table of copies: nothing may survive from
// one copy to the next.  The spawning thread reads heap messages it wrote itself (the same source objects
// recur), mutates in between, spawns tasks capturing those objects; afterwards every party mutates its own
// objects and nobody may see anybody else's changes.

pub fn gen_history(rng: &mut Rng) -> AliasCase {
    let fmt = |v: &Vec<i64>| format!("(A{})", v.iter().map(|x| format!(" {x}")).collect::<String>());
    let mut a: Vec<i64> = vec![rng.range(0, 9), rng.range(10, 19)];
    let c0 = rng.range(20, 29);
    let mut s = String::from(DECLS);
    s.push_str(ALIAS_DECLS);
    s.push_str("let ack: channel<bool> = channel()\nlet q: channel<array<int>> = channel()\nlet qt: channel<Two> = channel()\n");
    s.push_str(&format!("let a = [{}, {}]\nlet t = Two(a, [{c0}])\n", a[0], a[1]));
    // snapshots held by the spawner: (variable, is_two, p content, q content)
    let mut snaps: Vec<(String, bool, Vec<i64>, Vec<i64>)> = vec![];
    let mut reports: Vec<(usize, String)> = vec![];
    let n_ops = rng.range(3, 6) as usize;
    let mut have_read = false;
    let mut have_spawn_after_read = false;
    let mut k = 100;
    for i in 0..n_ops {
        // a read first, and at least one spawn after a read
        let op = if i == 0 { rng.below(2) } else if i == n_ops - 1 && !have_spawn_after_read { 3 + rng.below(2) } else { rng.below(5) };
        match op {
            0 => {
                s.push_str(&format!("q.write(a)\nlet b{i} = q.read()\n"));
                snaps.push((format!("b{i}"), false, a.clone(), vec![]));
                have_read = true;
            }
            1 => {
                s.push_str(&format!("qt.write(t)\nlet u{i} = qt.read()\n"));
                snaps.push((format!("u{i}"), true, a.clone(), vec![c0]));
                have_read = true;
            }
            2 => {
                k += 1;
                s.push_str(&format!("a.push({k})\n"));
                a.push(k);
            }
            3 => {
                k += 1;
                s.push_str(&format!(
                    "let o{i}: channel<string> = channel()\ntask {{\n  a.push({k})\n  let s1 = show_arrint(a)\n  o{i}.write(s1)\n  ack.read()\n}}\n"
                ));
                let mut seen = a.clone();
                seen.push(k);
                reports.push((i, fmt(&seen)));
                have_spawn_after_read |= have_read;
            }
            _ => {
                k += 2;
                s.push_str(&format!(
                    "let o{i}: channel<string> = channel()\ntask {{\n  t.p.push({k})\n  t.q.push({})\n  let s1 = show_arrint(t.p) .. show_arrint(t.q)\n  o{i}.write(s1)\n  ack.read()\n}}\n",
                    k + 1
                ));
                let mut p = a.clone();
                p.push(k);
                reports.push((i, format!("{}{}", fmt(&p), fmt(&vec![c0, k + 1]))));
                have_spawn_after_read |= have_read;
            }
        }
    }
    // after all spawns: the spawner mutates every snapshot and the originals
    let mut z = 500;
    for (name, two, p, _) in snaps.iter_mut() {
        z += 1;
        if *two {
            s.push_str(&format!("{name}.p.push({z})\n"));
        } else {
            s.push_str(&format!("{name}.push({z})\n"));
        }
        p.push(z);
    }
    z += 1;
    s.push_str(&format!("a.push({z})\n"));
    a.push(z);
    let mut expected = vec![];
    for (i, _) in &reports {
        s.push_str(&format!("let r{i} = o{i}.read()\n"));
    }
    for (i, r) in &reports {
        s.push_str(&format!("println(r{i})\n"));
        expected.push(r.clone());
    }
    for (name, two, p, qv) in &snaps {
        if *two {
            s.push_str(&format!("println(show_arrint({name}.p) .. show_arrint({name}.q))\n"));
            expected.push(format!("{}{}", fmt(p), fmt(qv)));
        } else {
            s.push_str(&format!("println(show_arrint({name}))\n"));
            expected.push(fmt(p));
        }
    }
    s.push_str("println(show_arrint(a))\nprintln(show_arrint(t.p))\n");
    expected.push(fmt(&a));
    expected.push(fmt(&a));
    for _ in &reports {
        s.push_str("ack.write(true)\n");
    }
    AliasCase { src: s, class: "history:reads-and-spawns-on-one-thread", expected, model: None }
}

// ------------------------------------------------------------------ every constructor at every nesting position
// value = wrap_n(… wrap_1(leaf)): container kinds {struct field, tuple component, array element, variant payload,
// closure capture} over leaves {array<int> (mutable), string, channel<int>}, depth up to 3; transported into the task
// either as a capture or as a channel message.  The innermost mutable object is mutated on both sides.

#[derive(Clone, Copy, PartialEq, Debug)]
pub enum Wrap {
    Struct,
    Tuple,
    ArrOf,
    Opt,
    Closure,
}
pub const ALL_WRAPS: [Wrap; 5] = [Wrap::Struct, Wrap::Tuple, Wrap::ArrOf, Wrap::Opt, Wrap::Closure];

#[derive(Clone, Copy, PartialEq, Debug)]
pub enum Leaf {
    Arr,
    Str,
    Chan,
}

pub const NEST_HELPERS: &str = r#"fn snd(p: (int, T)) -> T {
  let (a, b) = p
  b
}
fn get(o: option<T>) -> T {
  match o {
    .some(x) -> x
    .none -> panic("none")
  }
}
fn call0(f: int -> T) -> T {
  f(0)
}
"#;

pub struct NestCase {
    pub src: String,
    pub class: String,
    pub expected: Vec<String>,
    /// model request and whether its answer carries the " owned" suffix (`heapalias`) or not (`heapsend`)
    pub model: Option<(String, bool)>,
}

/// `wraps[0]` is the innermost container
pub fn gen_nested(rng: &mut Rng, leaf: Leaf, wraps: &[Wrap], as_message: bool) -> NestCase {
    let a = rng.range(0, 99);
    let b = rng.range(0, 99);
    let k = rng.range(100, 199);
    let k2 = rng.range(200, 299);
    let mut decls = String::new();
    let mut lets = String::new();
    let (mut ty, mut sx) = match leaf {
        Leaf::Arr => {
            lets.push_str(&format!("let v0 = [{a}, {b}]\n"));
            ("array<int>".to_string(), format!("(A {a} {b})"))
        }
        Leaf::Str => {
            lets.push_str(&format!("let v0 = \"s{a}\"\n"));
            ("string".to_string(), format!("'s{a}'"))
        }
        Leaf::Chan => {
            lets.push_str("let v0: channel<int> = channel()\n");
            ("channel<int>".to_string(), String::new())
        }
    };
    // accessor from the outermost value down to the leaf, and the model's slot path
    let mut accs: Vec<Box<dyn Fn(String) -> String>> = vec![];
    let mut slots: Vec<usize> = vec![];
    for (i, w) in wraps.iter().enumerate() {
        let prev = format!("v{i}");
        let cur = format!("v{}", i + 1);
        let n = rng.range(1, 9);
        match w {
            Wrap::Struct => {
                let name = format!("Wx{}", (b'a' + i as u8) as char);
                decls.push_str(&format!("type {name} = {{\n  n: int\n  x: {ty}\n}}\n"));
                lets.push_str(&format!("let {cur} = {name}({n}, {prev})\n"));
                ty = name;
                sx = format!("(S {n} {sx})");
                accs.push(Box::new(|e| format!("{e}.x")));
                slots.push(1);
            }
            Wrap::Tuple => {
                lets.push_str(&format!("let {cur} = ({n}, {prev})\n"));
                ty = format!("(int, {ty})");
                sx = format!("(S {n} {sx})");
                accs.push(Box::new(|e| format!("snd({e})")));
                slots.push(1);
            }
            Wrap::ArrOf => {
                lets.push_str(&format!("let {cur} = [{prev}]\n"));
                ty = format!("array<{ty}>");
                sx = format!("(A {sx})");
                accs.push(Box::new(|e| format!("{e}[0]")));
                slots.push(0);
            }
            Wrap::Opt => {
                lets.push_str(&format!("let {cur} = option.some({prev})\n"));
                ty = format!("option<{ty}>");
                sx = format!("(V 0 {sx})");
                accs.push(Box::new(|e| format!("get({e})")));
                slots.push(0);
            }
            Wrap::Closure => {
                lets.push_str(&format!("let {cur}: int -> {ty} = z -> {prev}\n"));
                ty = format!("int -> {ty}");
                sx = format!("(S 0 {sx})");
                accs.push(Box::new(|e| format!("call0({e})")));
                slots.push(1);
            }
        }
    }
    let top = format!("v{}", wraps.len());
    let acc = |root: &str| -> String {
        let mut e = root.to_string();
        for f in accs.iter().rev() {
            e = f(e);
        }
        e
    };
    let path = {
        let mut p = vec!["0".to_string()];
        p.extend(slots.iter().rev().map(|s| s.to_string()));
        p.join(".")
    };
    let mut s = String::from(DECLS);
    s.push_str(NEST_HELPERS);
    s.push_str(&decls);
    s.push_str("let out: channel<string> = channel()\nlet go: channel<bool> = channel()\n");
    if as_message {
        s.push_str(&format!("let c: channel<{ty}> = channel()\n"));
    }
    s.push_str(&lets);
    let troot = if as_message { "x".to_string() } else { top.clone() };
    let tacc = acc(&troot);
    let macc = acc(&top);
    let recv = if as_message { "  let x = c.read()\n" } else { "" };
    let send = if as_message { format!("c.write({top})\n") } else { String::new() };
    let (expected, ops): (Vec<String>, Option<String>) = match leaf {
        Leaf::Arr => {
            s.push_str(&format!(
                "task {{\n{recv}  {tacc}.push({k})\n  let s1 = show_arrint({tacc})\n  out.write(s1)\n  go.read()\n  let s2 = show_arrint({tacc})\n  out.write(s2)\n}}\n{send}let r0 = out.read()\n{macc}.push({k2})\ngo.write(true)\nlet r1 = out.read()\nprintln(r0)\nprintln(r1)\nprintln(show_arrint(v0))\n"
            ));
            (
                vec![format!("(A {a} {b} {k})"), format!("(A {a} {b} {k})"), format!("(A {a} {b} {k2})")],
                Some(format!("T push {path} {k} ; T show {path} ; M push {path} {k2} ; T show {path} ; M show {path}")),
            )
        }
        Leaf::Str => {
            s.push_str(&format!(
                "task {{\n{recv}  let s1 = show_str({tacc})\n  out.write(s1)\n}}\n{send}let r0 = out.read()\nprintln(r0)\nprintln(show_str({macc}))\n"
            ));
            (vec![format!("'s{a}'"), format!("'s{a}'")], Some(format!("T show {path} ; M show {path}")))
        }
        Leaf::Chan => {
            // a channel is shared: what the task writes through its copy of the handle arrives at the spawner's
            s.push_str(&format!(
                "task {{\n{recv}  {tacc}.write({k})\n  {tacc}.write({})\n}}\n{send}println(v0.read())\nprintln({macc}.read())\n",
                k + 1
            ));
            (vec![format!("{k}"), format!("{}", k + 1)], None)
        }
    };
    let model = ops.map(|ops| {
        if as_message { (format!("heapsend {sx} | W 0 ; R ; {ops}"), false) } else { (format!("heapalias {sx} | {ops}"), true) }
    });
    let class = format!(
        "nest{}:{}:{}",
        if as_message { "-msg" } else { "" },
        wraps.iter().rev().map(|w| format!("{w:?}")).collect::<Vec<_>>().join(">"),
        format!("{leaf:?}")
    );
    NestCase { src: s, class, expected, model }
}

/// the grid: every container over every leaf; every pair of containers over the mutable leaf; random triples
pub fn nested_grid(rng: &mut Rng, n_depth3: usize, as_message: bool) -> Vec<NestCase> {
    let mut v = vec![];
    for w in ALL_WRAPS {
        for l in [Leaf::Arr, Leaf::Str, Leaf::Chan] {
            v.push(gen_nested(rng, l, &[w], as_message));
        }
    }
    for inner in ALL_WRAPS {
        for outer in ALL_WRAPS {
            v.push(gen_nested(rng, Leaf::Arr, &[inner, outer], as_message));
        }
    }
    for _ in 0..n_depth3 {
        let ws = [*rng.pick(&ALL_WRAPS), *rng.pick(&ALL_WRAPS), *rng.pick(&ALL_WRAPS)];
        let l = *rng.pick(&[Leaf::Arr, Leaf::Arr, Leaf::Str, Leaf::Chan]);
        v.push(gen_nested(rng, l, &ws, as_message));
    }
    v
}

// ------------------------------------------------------------------ shared objects that have NO children when copied
// The same empty array (or a struct holding immediates only) is reachable along 2-3 paths of one value — struct
// fields, array elements, tuple components, variant payloads, a closure capture and a field.  The copy (a task's
// capture, a channel message) must keep it ONE object: the receiver mutates through one path and observes through
// every other; the sender does the same on its original afterwards.

pub fn gen_shared_childless(rng: &mut Rng, i: usize, as_message: bool) -> NestCase {
    let k = rng.range(100, 199);
    let k2 = rng.range(200, 299);
    let a0 = rng.range(0, 99);
    // (class, decls, lets, type of `top`, mutation stmts on root R, observation exprs on root R,
    //  model value, T-mutation ops, show ops as (kind, path) on either side, expected observations after (k.., k2..))
    struct Sh {
        class: &'static str,
        decls: String,
        lets: String,
        ty: String,
        mutate: Box<dyn Fn(&str, i64) -> String>,
        obs: Vec<Box<dyn Fn(&str) -> String>>,
        sx: String,
        mut_ops: Box<dyn Fn(&str, i64) -> String>,
        show_ops: Vec<String>,
        expect: Box<dyn Fn(i64) -> Vec<String>>,
    }
    let arr2 = |k: i64| format!("(A {k} {})", k + 1);
    let sh: Sh = match i % 9 {
        0 => Sh {
            class: "two-struct-fields",
            decls: "type Two = {\n  p: array<int>\n  q: array<int>\n}\n".into(),
            lets: "let e: array<int> = []\nlet top = Two(e, e)\n".into(),
            ty: "Two".into(),
            mutate: Box::new(|r, k| format!("{r}.p.push({k})\n{r}.p.push({})\n", k + 1)),
            obs: vec![Box::new(|r| format!("show_arrint({r}.q)"))],
            sx: "(S &0=(A) &0)".into(),
            mut_ops: Box::new(|s, k| format!("{s} push 0.0 {k} ; {s} push 0.0 {}", k + 1)),
            show_ops: vec!["show 0.1".into()],
            expect: Box::new(move |k| vec![arr2(k)]),
        },
        1 => Sh {
            class: "three-array-elements",
            decls: String::new(),
            lets: "let e: array<int> = []\nlet top = [e, e, e]\n".into(),
            ty: "array<array<int>>".into(),
            mutate: Box::new(|r, k| format!("{r}[0].push({k})\n{r}[0].push({})\n", k + 1)),
            obs: vec![Box::new(|r| format!("show_arrint({r}[1])")), Box::new(|r| format!("show_arrint({r}[2])"))],
            sx: "(A &0=(A) &0 &0)".into(),
            mut_ops: Box::new(|s, k| format!("{s} push 0.0 {k} ; {s} push 0.0 {}", k + 1)),
            show_ops: vec!["show 0.1".into(), "show 0.2".into()],
            expect: Box::new(move |k| vec![arr2(k), arr2(k)]),
        },
        2 => Sh {
            class: "two-tuple-components",
            decls: "fn fst2(p: (array<int>, array<int>)) -> array<int> {\n  let (a, b) = p\n  a\n}\nfn snd2(p: (array<int>, array<int>)) -> array<int> {\n  let (a, b) = p\n  b\n}\n".into(),
            lets: "let e: array<int> = []\nlet top = (e, e)\n".into(),
            ty: "(array<int>, array<int>)".into(),
            mutate: Box::new(|r, k| format!("fst2({r}).push({k})\nfst2({r}).push({})\n", k + 1)),
            obs: vec![Box::new(|r| format!("show_arrint(snd2({r}))"))],
            sx: "(S &0=(A) &0)".into(),
            mut_ops: Box::new(|s, k| format!("{s} push 0.0 {k} ; {s} push 0.0 {}", k + 1)),
            show_ops: vec!["show 0.1".into()],
            expect: Box::new(move |k| vec![arr2(k)]),
        },
        3 => Sh {
            class: "two-variant-payloads",
            decls: NEST_HELPERS.into(),
            lets: "let e: array<int> = []\nlet top = [option.some(e), option.some(e)]\n".into(),
            ty: "array<option<array<int>>>".into(),
            mutate: Box::new(|r, k| format!("get({r}[0]).push({k})\nget({r}[0]).push({})\n", k + 1)),
            obs: vec![Box::new(|r| format!("show_arrint(get({r}[1]))"))],
            sx: "(A (V 0 &0=(A)) (V 0 &0))".into(),
            mut_ops: Box::new(|s, k| format!("{s} push 0.0.0 {k} ; {s} push 0.0.0 {}", k + 1)),
            show_ops: vec!["show 0.1.0".into()],
            expect: Box::new(move |k| vec![arr2(k)]),
        },
        4 => Sh {
            class: "closure-capture-and-field",
            decls: format!("{NEST_HELPERS}type Cf = {{\n  f: int -> array<int>\n  a: array<int>\n}}\n"),
            lets: "let e: array<int> = []\nlet ff: int -> array<int> = z -> e\nlet top = Cf(ff, e)\n".into(),
            ty: "Cf".into(),
            mutate: Box::new(|r, k| format!("{r}.a.push({k})\n{r}.a.push({})\n", k + 1)),
            obs: vec![Box::new(|r| format!("show_arrint(call0({r}.f))"))],
            sx: "(S (S 0 &0=(A)) &0)".into(),
            mut_ops: Box::new(|s, k| format!("{s} push 0.1 {k} ; {s} push 0.1 {}", k + 1)),
            show_ops: vec!["show 0.0.1".into()],
            expect: Box::new(move |k| vec![arr2(k)]),
        },
        5 => Sh {
            class: "struct-of-immediates-shared",
            decls: "type Cell = {\n  v: int\n}\ntype Pairc = {\n  a: Cell\n  b: Cell\n  c: array<Cell>\n}\n".into(),
            lets: format!("let cl = Cell({a0})\nlet top = Pairc(cl, cl, [cl])\n"),
            ty: "Pairc".into(),
            mutate: Box::new(|r, k| format!("{r}.a.v = {k}\n")),
            obs: vec![Box::new(|r| format!("show_int({r}.b.v)")), Box::new(|r| format!("show_int({r}.c[0].v)"))],
            sx: format!("(S &0=(S {a0}) &0 (A &0))"),
            mut_ops: Box::new(|s, k| format!("{s} set 0.0 0 {k}")),
            show_ops: vec!["show 0.1.0".into(), "show 0.2.0.0".into()],
            expect: Box::new(|k| vec![format!("{k}"), format!("{k}")]),
        },
        6 => Sh {
            class: "empty-array-of-void",
            decls: "type Tv = {\n  p: array<void>\n  q: array<void>\n}\n".into(),
            lets: "let e: array<void> = []\nlet top = Tv(e, e)\n".into(),
            ty: "Tv".into(),
            mutate: Box::new(|r, _| format!("{r}.p.push(nil)\n{r}.p.push(nil)\n")),
            obs: vec![Box::new(|r| format!("show_int({r}.q.len())"))],
            sx: "(S &0=(A) &0)".into(),
            mut_ops: Box::new(|s, _| format!("{s} push 0.0 0 ; {s} push 0.0 0")),
            show_ops: vec!["len 0.1".into()],
            expect: Box::new(|_| vec!["2".into()]),
        },
        7 => Sh {
            class: "empty-nested-arrays",
            decls: "type Tn = {\n  p: array<array<int>>\n  q: array<array<int>>\n}\n".into(),
            lets: "let e: array<array<int>> = []\nlet top = Tn(e, e)\n".into(),
            ty: "Tn".into(),
            mutate: Box::new(|r, k| format!("{r}.p.push([{k}])\n{r}.p.push([])\n")),
            obs: vec![Box::new(|r| format!("show_arrarr({r}.q)"))],
            sx: "(S &0=(A) &0)".into(),
            mut_ops: Box::new(|s, k| format!("{s} pushv 0.0 (A {k}) ; {s} pushv 0.0 (A)")),
            show_ops: vec!["show 0.1".into()],
            expect: Box::new(|k| vec![format!("(A (A {k}) (A))")]),
        },
        _ => Sh {
            class: "field-and-element-of-inner-array",
            decls: "type Tw = {\n  p: array<int>\n  all: array<array<int>>\n}\n".into(),
            lets: "let e: array<int> = []\nlet top = Tw(e, [e, e])\n".into(),
            ty: "Tw".into(),
            mutate: Box::new(|r, k| format!("{r}.all[1].push({k})\n{r}.all[1].push({})\n", k + 1)),
            obs: vec![Box::new(|r| format!("show_arrint({r}.p)")), Box::new(|r| format!("show_arrint({r}.all[0])"))],
            sx: "(S &0=(A) (A &0 &0))".into(),
            mut_ops: Box::new(|s, k| format!("{s} push 0.1.1 {k} ; {s} push 0.1.1 {}", k + 1)),
            show_ops: vec!["show 0.0".into(), "show 0.1.0".into()],
            expect: Box::new(move |k| vec![arr2(k), arr2(k)]),
        },
    };
    let mut s = String::from(DECLS);
    s.push_str(&sh.decls);
    s.push_str("let out: channel<string> = channel()\n");
    if as_message {
        s.push_str(&format!("let c: channel<{}> = channel()\n", sh.ty));
    }
    s.push_str(&sh.lets);
    let troot = if as_message { "x" } else { "top" };
    s.push_str("task {\n");
    if as_message {
        s.push_str("  let x = c.read()\n");
    }
    s.push_str(&indent(&(sh.mutate)(troot, k), "  "));
    for (j, o) in sh.obs.iter().enumerate() {
        s.push_str(&format!("  let s{j} = {}\n  out.write(s{j})\n", o(troot)));
    }
    s.push_str("}\n");
    if as_message {
        s.push_str("c.write(top)\n");
    }
    for j in 0..sh.obs.len() {
        s.push_str(&format!("let r{j} = out.read()\n"));
    }
    // the sender / spawner then changes its original through the same path and looks through the others
    s.push_str(&(sh.mutate)("top", k2));
    for j in 0..sh.obs.len() {
        s.push_str(&format!("println(r{j})\n"));
    }
    for o in &sh.obs {
        s.push_str(&format!("println({})\n", o("top")));
    }
    let mut expected = (sh.expect)(k);
    expected.extend((sh.expect)(k2));
    let shows = |side: &str| sh.show_ops.iter().map(|o| format!("{side} {o}")).collect::<Vec<_>>().join(" ; ");
    let ops = format!("{} ; {} ; {} ; {}", (sh.mut_ops)("T", k), shows("T"), (sh.mut_ops)("M", k2), shows("M"));
    let model = if as_message { (format!("heapsend {} | W 0 ; R ; {ops}", sh.sx), false) } else { (format!("heapalias {} | {ops}", sh.sx), true) };
    NestCase { src: s, class: format!("shared-childless{}:{}", if as_message { "-msg" } else { "" }, sh.class), expected, model: Some(model) }
}
