//! scratch probe (bG4): compile + run the files given on the command line, print diagnostics and output
use vh::*;
fn main() {
    for path in std::env::args().skip(1) {
        let src = std::fs::read_to_string(&path).unwrap();
        for chunk in src.split("\n=====\n") {
            println!("--- program:\n{chunk}");
            let r = std::thread::Builder::new().stack_size(256<<20).spawn({
                let chunk = chunk.to_string();
                move || {
                    let lsp = std::panic::catch_unwind(|| {
                        let res = abra_core::check_lsp("main.abra", provider(&chunk, &[]));
                        res.errors().iter().map(|e| format!("{} @{:?} sec={:?}", e.message, e.range, e.secondary_labels.iter().map(|l| l.1.clone()).collect::<Vec<_>>())).collect::<Vec<_>>()
                    });
                    println!("lsp: {:?}", lsp);
                    run_program(&chunk)
                }
            }).unwrap().join().unwrap();
            println!("outcome: {:?}\nout: {}\nerr: {}", r.outcome, r.out, r.err_text);
        }
    }
}
