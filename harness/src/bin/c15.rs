//! C15 correspondence: integer operators on the boundary grid and random pairs, in every operand
//! form (variable/variable, literal/literal = folded, variable/literal = *Imm, compound assignment),
//! executed by the real compiler + VM; the answer is compared with the Lean model `Abra.I64`.
use vh::*;

const OPS: [(&str, &str); 6] =
    [("add", "+"), ("sub", "-"), ("mul", "*"), ("div", "/"), ("mod", "%"), ("pow", "^")];

fn grid() -> Vec<i64> {
    let mut v: Vec<i64> = vec![0, 1, -1, 2, -2, 3, -3, 7, -7, 10, 62, 63, 64, 65];
    for p in [31u32, 32, 53, 62] {
        let x = 1i64 << p;
        v.extend_from_slice(&[x - 1, x, x + 1, -(x - 1), -x, -(x + 1)]);
    }
    v.extend_from_slice(&[(1i64 << 32) + 2, 3037000499, 3037000500, -3037000500, 2097151, 2097152]);
    v.extend_from_slice(&[i64::MAX, i64::MAX - 1, i64::MIN, i64::MIN + 1]);
    v.sort();
    v.dedup();
    v
}

fn lit(n: i64) -> String {
    // a negative literal is folded by the parser; MIN is spelled directly
    format!("{n}")
}

/// Each operand pair is evaluated in all forms by one program that prints one line per form;
/// a runtime error stops the program, so every form gets its own program when any form errs.
fn forms(op: &str, a: i64, b: i64) -> Vec<(&'static str, String)> {
    vec![
        ("var", format!("let a = {}\nlet b = {}\nprintln(a {op} b)\n", lit(a), lit(b))),
        ("lit", format!("println(({}) {op} ({}))\n", lit(a), lit(b))),
        ("imm", format!("let a = {}\nprintln(a {op} ({}))\n", lit(a), lit(b))),
        ("cmp", format!("var a = {}\na {op}= {}\nprintln(a)\n", lit(a), lit(b))),
        ("cmpv", format!("var a = {}\nlet b = {}\na {op}= b\nprintln(a)\n", lit(a), lit(b))),
    ]
}

fn render(r: &RunResult) -> String {
    match &r.outcome {
        Outcome::Done => format!("ok {}", r.out.trim()),
        Outcome::Error(k) => format!("err {k}"),
        o => format!("other {}", o.tag()),
    }
}

fn main() {
    let mut ctx = Ctx::from_env("C15");
    let g = grid();
    let mut pairs: Vec<(i64, i64)> = vec![];
    for &a in &g {
        for &b in &g {
            pairs.push((a, b));
        }
    }
    // quick: a seeded subset of the grid plus the known trouble spots; thorough: the whole grid
    let must: Vec<(i64, i64)> = vec![
        (i64::MIN, -1), (i64::MIN, 1), (i64::MAX, -1), (2, 4294967298), (2, 4294967296), (3, 4294967297),
        (-1, 4294967297), (1, i64::MAX), (0, i64::MAX), (0, 0), (-1, i64::MAX), (-1, i64::MAX - 1),
        (2, 63), (2, 62), (-2, 63), (-2, 64), (3037000500, 3037000500), (-7, 3), (7, -3), (-7, -3),
        (i64::MIN, i64::MIN), (i64::MIN, 0), (5, 0), (i64::MIN, 2), (i64::MIN + 1, -1),
    ];
    let n_grid = if ctx.quick() { 220 } else { pairs.len() };
    let n_rand = if ctx.quick() { 120 } else { 4000 };
    let mut chosen = must.clone();
    if ctx.quick() {
        for _ in 0..n_grid {
            let i = ctx.rng.below(pairs.len() as u64) as usize;
            chosen.push(pairs[i]);
        }
    } else {
        chosen.extend(pairs.iter().cloned());
    }
    for _ in 0..n_rand {
        let a = ctx.rng.next() as i64;
        let b = match ctx.rng.below(4) {
            0 => ctx.rng.next() as i64,
            1 => ctx.rng.range(-70, 70),
            2 => ctx.rng.range(-(1 << 33), 1 << 33),
            _ => *ctx.rng.pick(&g),
        };
        let a = if ctx.rng.chance(1, 3) { ctx.rng.range(-1000, 1000) } else { a };
        chosen.push((a, b));
    }
    // build all programs first, run them on the worker pool, then record in order
    struct Job { req: String, src: String, spec: Option<String>, what: String, name: String, form: String }
    let mut jobs: Vec<Job> = vec![];
    for (a, b) in chosen {
        for (name, sym) in OPS {
            for (form, src) in forms(sym, a, b) {
                if name == "pow" && form.starts_with("cmp") { continue; } // there is no `^=`
                let model_form = if form == "lit" { "lit" } else { "var" };
                jobs.push(Job {
                    req: format!("i64 {model_form} {name} {a} {b} #{form}"),
                    src, spec: spec(name, a, b), what: format!("{form} {a} {sym} {b}"),
                    name: name.to_string(), form: form.to_string(),
                });
            }
        }
        jobs.push(Job {
            req: format!("i64 neg {a}"),
            src: format!("let a = {}\nprintln(-a)\n", lit(a)),
            spec: Some(match a.checked_neg() { Some(n) => format!("ok {n}"), None => "err overflow".into() }),
            what: format!("neg {a}"), name: "neg".into(), form: "var".into(),
        });
    }
    // chains `(x op1 c1) op2 c2` with a variable x and two literal operands: two consecutive *Imm instructions, the
    // shape a reassociating peephole rule would rewrite; the first inexact step must decide the outcome
    let small: Vec<i64> = vec![-5, -2, -1, 0, 1, 2, 3, 5, 7, 64, -64, 1 << 32, -(1 << 32)];
    let edge: Vec<i64> = vec![i64::MAX, i64::MAX - 1, i64::MAX - 2, i64::MAX - 5, i64::MIN, i64::MIN + 1, i64::MIN + 2, i64::MIN + 5,
                              i64::MAX / 2, i64::MAX / 2 + 1, i64::MIN / 2, i64::MIN / 2 - 1, 0, 1, -1];
    let n_chain = if ctx.quick() { 700 } else { 20000 };
    let chain_ops: Vec<(&str, &str)> = OPS.iter().filter(|(n, _)| *n != "pow").cloned().collect();
    let mut chains: Vec<(usize, usize, i64, i64, i64)> = vec![
        (0, 0, i64::MAX, 1, -1), (0, 0, i64::MIN + 1, -2, 5), (0, 1, i64::MAX, 1, 1), (1, 0, i64::MIN, 1, 1), (2, 3, i64::MAX, 2, 2),
        (2, 2, i64::MIN, -1, -1), (3, 2, i64::MIN, -1, 0), (0, 4, i64::MAX, 1, 7), (1, 1, i64::MIN, 3, -3), (0, 0, i64::MAX - 2, 5, -5),
    ];
    for _ in 0..n_chain {
        let x = if ctx.rng.chance(3, 4) { *ctx.rng.pick(&edge) } else { ctx.rng.next() as i64 };
        let c1 = if ctx.rng.chance(4, 5) { *ctx.rng.pick(&small) } else { *ctx.rng.pick(&g) };
        let c2 = if ctx.rng.chance(1, 3) { c1.checked_neg().unwrap_or(1) } else { *ctx.rng.pick(&small) };
        chains.push((ctx.rng.below(chain_ops.len() as u64) as usize, ctx.rng.below(chain_ops.len() as u64) as usize, x, c1, c2));
    }
    for (i1, i2, x, c1, c2) in chains {
        let ((n1, s1), (n2, s2)) = (chain_ops[i1], chain_ops[i2]);
        let spec = match spec(n1, x, c1) {
            Some(r) if r.starts_with("ok ") => spec(n2, r[3..].parse::<i64>().unwrap(), c2),
            other => other,
        };
        for (form, src) in [
            ("chain", format!("let x = {}\nprintln((x {s1} ({})) {s2} ({}))\n", lit(x), lit(c1), lit(c2))),
            ("chainfn", format!("fn f(x: int) -> int {{ (x {s1} ({})) {s2} ({}) }}\nprintln(f({}))\n", lit(c1), lit(c2), lit(x))),
            ("chainlet", format!("let x = {}\nlet r = (x {s1} ({})) {s2} ({})\nprintln(r)\n", lit(x), lit(c1), lit(c2))),
        ] {
            jobs.push(Job {
                req: format!("i64 chain {n1} {n2} {x} {c1} {c2} #{form}"),
                src, spec: spec.clone(), what: format!("{form} ({x} {s1} {c1}) {s2} {c2}"),
                name: format!("chain:{n1}:{n2}"), form: form.to_string(),
            });
        }
    }
    let results = par_map(&jobs, |j| render(&run_program(&j.src)));
    for (j, imp) in jobs.iter().zip(results) {
        let class = if imp.starts_with("ok") { "ok".to_string() } else { imp.replace(' ', "_") };
        ctx.count(&format!("{}:{}", j.name, class));
        ctx.count(&format!("form:{}", j.form));
        if let Some(spec) = &j.spec {
            if *spec != imp {
                ctx.spec_fail(format!("{}: implementation `{imp}`, exact arithmetic `{spec}`", j.what));
            }
        }
        ctx.case(j.req.clone(), imp);
    }
    ctx.finish();
}

/// The property stated directly (exact arithmetic in i128), independent of the Lean model.
/// `None` where the property leaves the behaviour open (negative exponent).
fn spec(op: &str, a: i64, b: i64) -> Option<String> {
    let fit = |x: i128| -> String {
        if x >= i64::MIN as i128 && x <= i64::MAX as i128 { format!("ok {x}") } else { "err overflow".into() }
    };
    let (a128, b128) = (a as i128, b as i128);
    Some(match op {
        "add" => fit(a128 + b128),
        "sub" => fit(a128 - b128),
        "mul" => fit(a128 * b128),
        "div" => if b == 0 { "err divzero".into() } else { fit(a128 / b128) },
        "mod" => if b == 0 { "err divzero".into() } else { fit(a128.rem_euclid(b128)) },
        "pow" => {
            if b < 0 { return None; }
            match a {
                0 => fit(if b == 0 { 1 } else { 0 }),
                1 => fit(1),
                -1 => fit(if b % 2 == 0 { 1 } else { -1 }),
                _ => {
                    let mut acc: i128 = 1;
                    let mut over = false;
                    for _ in 0..b.min(200) {
                        acc *= a128;
                        if acc > i64::MAX as i128 || acc < i64::MIN as i128 { over = true; break; }
                    }
                    if over { "err overflow".into() } else { fit(acc) }
                }
            }
        }
        _ => return None,
    })
}
