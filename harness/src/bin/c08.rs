//! C08 correspondence: programs capture each kind of value (nesting ≤ 3) in a task, mutate on both
//! sides and report through channels, under the step budgets {1,2,3,7,100}.
//! Property check (`spec_fail`): what the task sees at its start is the value as it was at the spawn
//! (even though the spawner mutates its original right after the spawn); what the task sees after its own
//! mutations is exactly its mutated copy; the spawner's original shows only the spawner's mutations; a
//! captured channel is shared.  Expected renderings are computed in Rust from the generated value.
//! Model case: `heapcopy <value>` — the Lean `deepCopy` must render the copy exactly as the task saw it
//! and own all of it; `heapalias <captures> | <ops>` — values with sharing and cycles copied with one map,
//! mutated through one alias and observed through another.  The repaired defect D24 (cyclic capture) is
//! kept as a regression run in a child process.
#[path = "../sched_common.rs"]
mod sched_common;
#[path = "../sched_vals.rs"]
mod sched_vals;
use sched_common::*;
use sched_vals::*;
use vh::*;

const BUDGETS: [u32; 5] = [1, 2, 3, 7, 100];

struct Job {
    src: String,
    class: &'static str,
    ty: Ty,
    expected: Vec<String>,
    /// (original value's S-expression, index of the output line showing what the task saw first)
    model: Option<(String, usize)>,
    /// `heapalias` request: the answer is all printed lines joined by `;`
    alias_model: Option<String>,
}

fn gen_job(rng: &mut Rng, i: usize) -> Job {
    let ty = ALL_TYS[i % ALL_TYS.len()];
    let v = gen_value(rng, ty);
    let show = ty.show();
    let mut s = String::from(DECLS);
    s.push_str("let out: channel<string> = channel()\nlet ack: channel<bool> = channel()\n");
    s.push_str(&format!("let v: {} = {}\n", ty.abra(), expr(&v, ty)));
    let nm = if ty.mutable() { rng.range(1, 3) as usize } else { 0 };
    match rng.below(4) {
        // one task; main mutates right after the spawn, before anything is read back
        0 | 1 => {
            let (tm, tv) = mutate(rng, "v", ty, &v, nm, 500);
            let (mm, mv) = mutate(rng, "v", ty, &v, nm, 900);
            s.push_str(&format!(
                "task {{\n  let s1 = {show}(v)\n  out.write(s1)\n{}  let s2 = {show}(v)\n  out.write(s2)\n  ack.read()\n}}\n",
                indent(&tm, "  ")
            ));
            s.push_str(&mm);
            s.push_str(&format!("let a = out.read()\nlet b = out.read()\nprintln(a)\nprintln(b)\nprintln({show}(v))\nack.write(true)\n"));
            Job { src: s, class: "capture", ty, expected: vec![sexpr(&v), sexpr(&tv), sexpr(&mv)], model: Some((sexpr(&v), 0)), alias_model: None }
        }
        // two tasks capture the same value and mutate it differently
        2 => {
            let (t1m, t1v) = mutate(rng, "v", ty, &v, nm, 100);
            let (mm, mv) = mutate(rng, "v", ty, &v, nm, 300);
            // the second task copies the value as main has it at ITS spawn: main's mutations included
            let (t2m, t2v) = mutate(rng, "v", ty, &mv, nm, 200);
            s.push_str("let out2: channel<string> = channel()\nlet ack2: channel<bool> = channel()\n");
            s.push_str(&format!(
                "task {{\n{}  let s1 = {show}(v)\n  out.write(s1)\n  ack.read()\n}}\n",
                indent(&t1m, "  ")
            ));
            s.push_str(&mm);
            s.push_str(&format!(
                "task {{\n  let s0 = {show}(v)\n  out2.write(s0)\n{}  let s1 = {show}(v)\n  out2.write(s1)\n  ack2.read()\n}}\n",
                indent(&t2m, "  ")
            ));
            s.push_str(&format!(
                "let a = out.read()\nlet b0 = out2.read()\nlet b = out2.read()\nprintln(a)\nprintln(b0)\nprintln(b)\nprintln({show}(v))\nack.write(true)\nack2.write(true)\n"
            ));
            Job {
                src: s,
                class: "capture-two-tasks",
                ty,
                expected: vec![sexpr(&t1v), sexpr(&mv), sexpr(&t2v), sexpr(&mv)],
                model: Some((sexpr(&mv), 1)),
                alias_model: None,
            }
        }
        // a captured channel is shared: the task answers on a channel created by main and captured
        _ => {
            let (tm, tv) = mutate(rng, "v", ty, &v, nm, 700);
            s.push_str(&format!("let data: channel<{}> = channel()\n", ty.abra()));
            s.push_str(&format!(
                "task {{\n{}  data.write(v)\n  let s1 = {show}(v)\n  out.write(s1)\n  ack.read()\n}}\n",
                indent(&tm, "  ")
            ));
            // main receives the task's mutated copy through the captured channel (the task stays alive
            // and does not touch it until acknowledged), mutates what it received, and still has its own
            let (rm, rv) = mutate(rng, "w", ty, &tv, nm, 800);
            s.push_str(&format!(
                "let w = data.read()\nlet a = out.read()\nprintln({show}(w))\n{}println({show}(w))\nprintln(a)\nprintln({show}(v))\nack.write(true)\n",
                rm
            ));
            Job {
                src: s,
                class: "capture-shared-channel",
                ty,
                expected: vec![sexpr(&tv), sexpr(&rv), sexpr(&tv), sexpr(&v)],
                model: Some((sexpr(&tv), 0)),
                alias_model: None,
            }
        }
    }
}

fn host() -> impl FnMut(u16, &mut abra_core::vm::VmGreenThread, &mut String) -> Option<String> {
    prelude_host(&PRELUDE_HOSTS)
}

const D24_PROGRAM: &str = r#"type Node = {
  v: int
  next: array<Node>
}
let n = Node(1, [])
n.next.push(n)
let out: channel<int> = channel()
task {
  out.write(n.v)
}
println(out.read())
"#;

fn main() {
    child_run_if_requested();
    let args: Vec<String> = std::env::args().collect();
    if args.get(1).map(|s| s.as_str()) == Some("--child-d24") {
        // runs in a child process: a host stack overflow aborts the process
        let r = run_program_budget(D24_PROGRAM, 100);
        println!("child: {} out={:?}", r.outcome.tag(), r.out);
        std::process::exit(if matches!(r.outcome, Outcome::Done) && r.out == "1\n" { 0 } else { 3 });
    }
    if let Ok(f) = std::env::var("VERIF_PROBE") {
        let src = std::fs::read_to_string(&f).unwrap();
        for b in BUDGETS {
            let mut h = host();
            let t = run_traced(&src, &Schedule::constant(b), 2_000_000, &mut h);
            println!("budget {b}: {:?} steps={} out={:?}", t.outcome, t.total_steps, t.out);
        }
        return;
    }
    let mut ctx = Ctx::from_env("C08");
    let n = if ctx.quick() { 240 } else { 3000 };
    let mut jobs: Vec<Job> = (0..n).map(|i| gen_job(&mut ctx.rng, i)).collect();
    // aliasing inside and between captures, cyclic values (one map of copies per SpawnTask, fix 0cb8741)
    for i in 0..n / 2 {
        let c = gen_alias_capture(&mut ctx.rng, i);
        jobs.push(Job { src: c.src, class: c.class, ty: Ty::Nest, expected: c.expected, model: None, alias_model: c.model });
    }
    // every constructor at every nesting position (container kinds x heap kinds, depth <= 3)
    for c in nested_grid(&mut ctx.rng, n / 8, false) {
        let (alias_model, _) = match c.model { Some((m, _)) => (Some(m), true), None => (None, true) };
        jobs.push(Job { src: c.src, class: "nested-grid", ty: Ty::Nest, expected: c.expected, model: None, alias_model });
        ctx.count(&format!("grid:{}", c.class));
    }
    // a shared object without children at the spawn (empty array, struct of immediates) along 2-3 paths
    for i in 0..(n / 10).max(18) {
        let c = gen_shared_childless(&mut ctx.rng, i, false);
        ctx.count(&format!("grid:{}", c.class));
        jobs.push(Job { src: c.src, class: "shared-childless", ty: Ty::Nest, expected: c.expected, model: None, alias_model: c.model.map(|m| m.0) });
    }
    // histories: several copies (self-reads, spawns) on one thread with recurring source objects
    for _ in 0..n / 4 {
        let c = gen_history(&mut ctx.rng);
        jobs.push(Job { src: c.src, class: c.class, ty: Ty::Nest, expected: c.expected, model: None, alias_model: c.model });
    }
    // every program runs in a child process: a defect can abort the process (teardown panics, heap
    // corruption) and must be attributed to the program that triggered it
    let scheds: Vec<Schedule> = BUDGETS.iter().map(|&b| Schedule::constant(b)).collect();
    let batches: Vec<&[Job]> = jobs.chunks(8).collect();
    let results: Vec<ChildResult> = par_map(&batches, |b| {
        let cj: Vec<ChildJob> = b.iter().map(|j| ChildJob { src: &j.src, scheds: &scheds, trace_idx: None }).collect();
        run_batch_in_child(&cj, 2_000_000)
    })
    .into_iter()
    .flatten()
    .collect();
    for (j, r) in jobs.iter().zip(results) {
        ctx.count(&format!("class:{}", j.class));
        if j.alias_model.is_none() {
            ctx.count(&format!("type:{:?}", j.ty));
        }
        let prog = || j.src.replace(DECLS, "").replace(ALIAS_DECLS, "").replace(NEST_HELPERS, "").replace('\n', "\\n");
        let runs: Vec<(u32, Outcome, String, String)> = match r {
            ChildResult::Runs(x) => x
                .into_iter()
                .zip(BUDGETS.iter())
                .map(|(c, &b)| {
                    let o = match c.outcome.as_str() {
                        "done" => Outcome::Done,
                        "timeout" => Outcome::Timeout,
                        "crash" => Outcome::Crash(c.err_text.clone()),
                        k => Outcome::Error(k.trim_start_matches("error:").to_string()),
                    };
                    (b, o, c.out, c.err_text)
                })
                .collect(),
            ChildResult::Compile(tag, text) if tag == "rejected" => {
                ctx.count("rejected");
                if ctx.notes.len() < 5 {
                    ctx.notes.push(format!("rejected: {} :: {}", text.lines().find(|l| !l.trim().is_empty()).unwrap_or(""), prog()));
                }
                continue;
            }
            ChildResult::Compile(tag, text) => {
                ctx.spec_fail(format!("compiler: {tag} {} :: {}", text.replace('\n', " | "), prog()));
                continue;
            }
            ChildResult::Died(what, done, in_progress) => {
                ctx.count("child-died");
                ctx.spec_fail(format!(
                    "the host process died while running this program ({what}); schedule in progress: {}; completed runs before: {} :: {}",
                    in_progress.unwrap_or_else(|| "teardown/after the last run".into()),
                    done.len(),
                    prog()
                ));
                continue;
            }
        };
        let mut all_ok = true;
        let mut first_lines: Vec<String> = vec![];
        for (b, outcome, out, err) in &runs {
            let lines: Vec<String> = out.lines().map(|l| l.to_string()).collect();
            if !matches!(outcome, Outcome::Done) {
                all_ok = false;
                ctx.spec_fail(format!("budget {b}: {} ({}) — a task capturing {:?} must run :: {}", outcome.tag(), err.replace('\n', " | "), j.ty, prog()));
                continue;
            }
            if lines != j.expected {
                all_ok = false;
                ctx.spec_fail(format!("budget {b}: printed {:?}, copies/isolation demand {:?} :: {}", lines, j.expected, prog()));
            }
            if first_lines.is_empty() {
                first_lines = lines;
            }
        }
        ctx.count(if all_ok { "isolated:yes" } else { "isolated:NO" });
        if let Some(req) = &j.alias_model {
            ctx.case(format!("{req} #{}", j.class), format!("{} {}", first_lines.join(";"), if all_ok { "owned" } else { "shared" }));
        }
        if let Some((sx, line)) = &j.model {
            if let Some(seen) = first_lines.get(*line) {
                ctx.case(format!("heapcopy {sx} #{}", j.class), format!("{seen} {}", if all_ok { "owned" } else { "shared" }));
            }
        }
    }
    // regression of the repaired defect D24 (fix 0cb8741): a cyclic captured value, in a child process
    // because the unrepaired code aborts the host with a stack overflow
    let exe = std::env::current_exe().unwrap();
    match std::process::Command::new(exe).arg("--child-d24").output() {
        Ok(o) => {
            let text = String::from_utf8_lossy(&o.stdout).trim().to_string();
            if o.status.success() {
                ctx.count("regression:D24-ok");
            } else {
                ctx.spec_fail(format!("a task capturing a cyclic struct must run and print 1 (D24 regression): child ended with {:?} {text} :: {}", o.status, D24_PROGRAM.replace('\n', "\\n")));
            }
        }
        Err(e) => ctx.notes.push(format!("D24 regression could not be started: {e}")),
    }
    ctx.finish();
}
