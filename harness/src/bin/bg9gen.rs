//! scratch tool (bG9): generate programs of a tier and report the rejected ones with their diagnostics,
//! plus the generator's feature histogram.   usage: bg9gen <tier> <count> <seed> [nesting] [lambda] [try]
#[path = "../progen.rs"]
mod progen;
use progen::*;
use vh::*;

fn main() {
    std::panic::set_hook(Box::new(|_| {}));
    let a: Vec<String> = std::env::args().skip(1).collect();
    let tier: u8 = a.first().and_then(|s| s.parse().ok()).unwrap_or(3);
    let count: usize = a.get(1).and_then(|s| s.parse().ok()).unwrap_or(100);
    let seed: u64 = a.get(2).and_then(|s| s.parse().ok()).unwrap_or(1);
    let has = |k: &str| a.iter().any(|x| x == k);
    let mut rng = Rng::new(seed);
    let mut hist: std::collections::BTreeMap<&'static str, u64> = Default::default();
    let (mut rej, mut shown) = (0, 0);
    for k in 0..count {
        let mut r = Rng::new(rng.next());
        let o = GenOpts { tier, stmts: 4 + (k % 9), budget: 40 + (k as i32 % 5) * 12, nesting: has("nesting"), lambda_boost: has("lambda"), try_boost: has("try"), no_unit_vars: has("nounit"), ..Default::default() };
        let (p, h) = generate(&mut r, o);
        for (k, v) in h {
            *hist.entry(k).or_insert(0) += v;
        }
        let src = program_src(&p);
        if let Err(e) = abra_core::check("main.abra", provider(&src, &[])) {
            rej += 1;
            if shown < 4 {
                shown += 1;
                println!("---- rejected #{k}\n{}\n{src}", e.to_string());
            }
        }
    }
    println!("rejected {rej}/{count}");
    println!("{hist:?}");
}
