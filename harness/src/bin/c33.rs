//! C33 correspondence: erroneous programs of every diagnostic kind the generator can provoke, with
//! non-ASCII text in strings and comments before (and inside) the error site.  For every diagnostic
//! returned by `check_lsp(...).errors()`: the primary range (and every secondary label) lies within
//! the file and on char boundaries (spec); the diagnostic the template is about covers exactly the
//! offending text known to the generator (spec); and the token spans / lexer diagnostics of the real
//! lexer are compared with the Lean lexer model's byte spans (case).
#[path = "../frontend.rs"]
#[allow(dead_code)]
mod frontend;
use frontend::*;
use vh::*;

const FILLER: [&str; 14] = [
    "let s0 = \"héllo 漢字 😀\"\n", "// cömment ü — ∑\n", "/* блок\n   многострочный */\n", "println(\"ß\" .. \"✓\")\n",
    "let n0 = 1 // 😀😀\n", "let t0 = 'ä\\'ö'\n", "let m0 = \"\"\"\n  überall\n    «q»\n  \"\"\"\n", "\n", "let ok = 2 /* é */ + 3\n",
    "let plain = 5\n", "println(\"plain ü\")\n", "/* * / ** é */ let z9 = 0\n", "let e0 = \"\\x41é\\n\"\n", "   \t// только комментарий\n",
];

struct Template { name: &'static str, text: &'static str, msg: &'static str, want: &'static str, last_only: bool }

const TEMPLATES: [Template; 55] = [
    Template { name: "unrecognized-ascii", text: "let a = 1 $ 2\n", msg: "Unrecognized token", want: "$", last_only: false },
    Template { name: "unrecognized-nonascii", text: "let a = 1 é 2\n", msg: "Unrecognized token", want: "é", last_only: false },
    Template { name: "unrecognized-nonascii4", text: "let a = 😀\n", msg: "Unrecognized token", want: "😀", last_only: false },
    Template { name: "unexpected-token", text: "let = 5\n", msg: "Unexpected token", want: "=", last_only: false },
    Template { name: "unexpected-token-after-string", text: "let q = \"ü\" \"ö\" let\n", msg: "Unexpected token", want: "", last_only: false },
    Template { name: "int-out-of-range", text: "let a = 9223372036854775808\n", msg: "Could not parse integer literal", want: "9223372036854775808", last_only: false },
    Template { name: "neg-int-out-of-range", text: "let a = -9_223_372_036_854_775_809\n", msg: "Could not parse negated integer literal", want: "9_223_372_036_854_775_809", last_only: false },
    Template { name: "bad-escape", text: "let s = \"a\\qb\"\n", msg: "Unrecognized escape sequence", want: "\\q", last_only: false },
    Template { name: "bad-escape-after-nonascii", text: "let s = \"é漢\\qb\"\n", msg: "Unrecognized escape sequence", want: "\\q", last_only: false },
    Template { name: "bad-escape-nonascii-char", text: "let s = 'a\\éb'\n", msg: "Unrecognized escape sequence", want: "\\é", last_only: false },
    Template { name: "bad-escape-triple", text: "let s = \"\"\"\n    ü\n      a\\qb\n    \"\"\"\n", msg: "Unrecognized escape sequence", want: "\\q", last_only: false },
    Template { name: "bad-hex-escape", text: "let s = \"é\\xZ1\"\n", msg: "Unrecognized escape sequence", want: "\\x", last_only: false },
    Template { name: "unresolved-name", text: "println(zzz)\n", msg: "Could not resolve identifier", want: "zzz", last_only: false },
    Template { name: "type-conflict-annotation", text: "let a: int = \"é\"\n", msg: "Variable and assignment do not match", want: "\"é\"", last_only: false },
    Template { name: "type-conflict-operands", text: "let a = 1 + \"ü😀\"\n", msg: "Operands must have the same type", want: "1 + \"ü😀\"", last_only: false },
    Template { name: "empty-parens", text: "let a = ()\n", msg: "Parentheses are empty", want: "()", last_only: false },
    Template { name: "non-exhaustive-match", text: "match \"ä\" {\n  \"ä\" -> 1\n}\n", msg: "This match expression doesn't cover every case", want: "match \"ä\" {\n  \"ä\" -> 1\n}", last_only: false },
    Template { name: "redundant-arm", text: "match true {\n  true -> \"é\"\n  false -> \"b\"\n  true -> \"c\"\n}\n", msg: "This match expression has redundant cases", want: "match true {\n  true -> \"é\"\n  false -> \"b\"\n  true -> \"c\"\n}", last_only: false },
    Template { name: "immutable-assignment", text: "let imm = \"ö\"\nimm = \"ü\"\n", msg: "Can't modify immutable variable", want: "imm", last_only: false },
    Template { name: "unresolved-member", text: "let xs = [\"é\"]\nxs.nope()\n", msg: "Could not resolve member function", want: "xs", last_only: false },
    // ---- diagnostic kinds no other generator reaches (coverage report gaps_A / gaps_B)
    Template { name: "let-annotation-vs-pattern", text: "let (pa, pb): int = (1, 2)\n", msg: "Variable and annotation do not match", want: "(pa, pb)", last_only: false },
    Template { name: "binop-right-mod", text: "let g = 5 % 2.5\n", msg: "Operands must have the same type", want: "5 % 2.5", last_only: false },
    Template { name: "binop-right-mod-assign", text: "var md = 5\nmd %= \"ß\"\n", msg: "Conflicting types", want: "\"ß\"", last_only: false },
    Template { name: "operand-must-be-bool", text: "let d = true and 5\n", msg: "Operand must be `bool`", want: "true and 5", last_only: false },
    Template { name: "clash-builtin-type", text: "type array = { x: int }\n", msg: "`array` was declared more than once", want: "array", last_only: false },
    Template { name: "clash-prelude-function", text: "fn array_push(x: int) -> int { x }\n", msg: "`array_push` was declared more than once", want: "array_push", last_only: false },
    Template { name: "clash-host-function", text: "fn print_string(s: string) -> void { }\n", msg: "`print_string` was declared more than once", want: "<other-file>", last_only: false },
    Template { name: "duplicate-interface-method", text: "interface Foo {\n    fn foo(self) -> int\n    fn foo(self) -> int\n}\n", msg: "`foo` was declared more than once", want: "foo", last_only: false },
    Template { name: "duplicate-output-type", text: "interface Bar {\n    outputtype Aa\n    outputtype Aa\n    fn bar(self) -> int\n}\n", msg: "`Aa` was declared more than once", want: "Aa", last_only: false },
    Template { name: "duplicate-variant", text: "type Ee = Cc | Cc\n", msg: "`Cc` was declared more than once", want: "Cc", last_only: false },
    Template { name: "duplicate-field", text: "type Pt2 = { x: int, x: int }\n", msg: "`x` was declared more than once", want: "x", last_only: false },
    Template { name: "duplicate-parameter", text: "fn gen(a: T, a: T) -> T { a }\n", msg: "`a` was declared more than once", want: "a", last_only: false },
    Template { name: "impl-type-not-generic", text: "implement ToString for array<int> {\n    fn str(self) -> string { \"ïnts\" }\n}\n", msg: "Interface cannot be implemented for this type", want: "array<int>", last_only: false },
    Template { name: "interface-method-without-self", text: "interface NoSelf {\n    fn nothing(x: int) -> int\n}\nimplement NoSelf for int {\n    fn nothing(x: int) -> int { x }\n}\n", msg: "This interface method must contain `Self`", want: "nothing", last_only: false },
    Template { name: "host-and-foreign", text: "#host\n#foreign\nfn both(x: int) -> int\n", msg: "function declaration cannot be #host and #foreign", want: "fn both(x: int) -> int", last_only: false },
    Template { name: "foreign-not-enabled", text: "#foreign(blocking)\nfn slow(x: int) -> int\n", msg: "Foreign functions are not enabled", want: "fn slow(x: int) -> int", last_only: false },
    Template { name: "struct-pattern-too-many-fields", text: "type Pt3 = { x: int, y: int }\nlet sp = match Pt3(1, 2) {\n    Pt3(a, b, c) -> \"é\"\n}\n", msg: "Struct pattern for `Pt3` has 3 field(s)", want: "Pt3(a, b, c)", last_only: false },
    Template { name: "empty-parens-pattern", text: "let ep = match 5 {\n    () -> 1\n    _ -> 2\n}\n", msg: "Parentheses are empty", want: "()", last_only: false },
    Template { name: "int-pattern-out-of-range", text: "let ip = match 5 {\n    99_999_999_999_999_999_999 -> \"ü\"\n    _ -> \"x\"\n}\n", msg: "Could not parse integer literal", want: "99_999_999_999_999_999_999", last_only: false },
    Template { name: "unresolvable-use", text: "use no_such_module\n", msg: "Could not resolve identifier", want: "use no_such_module", last_only: false },
    // ---- postfix forms on a PARENTHESISED operand: the node starts at the `(`, not at the inner expression
    Template { name: "postfix-method-call-on-paren", text: "extend int {\n  fn plus(self, s: int) -> int { self + s }\n}\nlet pm = (1 + 2).plus(\"três\")\n", msg: "Wrong argument type", want: "(1 + 2).plus(\"três\")", last_only: false },
    Template { name: "postfix-call-on-paren", text: "let pc = (5)(1)\n", msg: "Wrong argument type", want: "(5)(1)", last_only: false },
    Template { name: "postfix-index-on-paren", text: "let pi = (5)[0]\n", msg: "Interface `Index` is not implemented", want: "(5)[0]", last_only: false },
    Template { name: "postfix-try-on-paren", text: "let po: option<int> = .some(1)\nlet pq = (po)?\n", msg: "Cannot use `?` operator at the top level", want: "(po)?", last_only: false },
    Template { name: "postfix-call-on-paren-nested", text: "let pn = ((5))(\"é\", (2))\n", msg: "Wrong argument type", want: "((5))(\"é\", (2))", last_only: false },
    Template { name: "postfix-index-on-paren-call", text: "let px = (5)[0](1)\n", msg: "Interface `Index` is not implemented", want: "(5)[0]", last_only: false },
    Template { name: "postfix-unwrap-on-paren", text: "let pu = (5)!\n", msg: "Interface `Unwrap` is not implemented", want: "5", last_only: false },
    Template { name: "postfix-member-on-paren", text: "let xs9 = [1]\nlet pmm = (xs9).nope(1)\n", msg: "Could not resolve member function", want: "xs9", last_only: false },
    // ---- D106 (f9af9cf): a label on a qualified variant pattern underlines the qualifier too
    Template { name: "d106-qualified-variant-pattern", text: "type Cl = Rd | Gn\nlet qr = match 5 {\n  Cl.Rd -> \"é\"\n  _ -> \"x\"\n}\n", msg: "Match expression input has type", want: "Cl.Rd", last_only: false },
    Template { name: "d106-redundant-qualified", text: "type Cq = Rd | Gn\nlet cq = Cq.Rd\nlet rq = match cq {\n  Cq.Rd -> 1\n  Cq.Rd -> 3\n  _ -> 2\n}\n", msg: "This match expression has redundant cases", want: "match cq {\n  Cq.Rd -> 1\n  Cq.Rd -> 3\n  _ -> 2\n}", last_only: false },
    // ---- D111 (0832a58): a missing closing token at the end of the file is a diagnostic, placed where
    //      the closer was expected (the end of input)
    Template { name: "d111-missing-paren-eof", text: "let x = foo9(1, 2", msg: "Unexpected token", want: "<at-eof>", last_only: true },
    Template { name: "d111-missing-bracket-eof", text: "let x = [1, 2 // é", msg: "Unexpected token", want: "<at-eof>", last_only: true },
    Template { name: "d111-missing-paren-newline-eof", text: "let y = (1 + 2\n", msg: "Unexpected token", want: "<at-eof>", last_only: true },
    Template { name: "d111-missing-brace-eof", text: "fn f9() {\n  1\n", msg: "Unexpected token", want: "<at-eof>", last_only: true },
    Template { name: "unexpected-eof", text: "let a = 1 +", msg: "Unexpected token", want: "<eof>", last_only: true },
];

struct Diag { message: String, file: u32, range: std::ops::Range<usize>, secondary: Vec<(u32, std::ops::Range<usize>)> }

fn diagnostics(src: &str) -> Result<Vec<Diag>, String> {
    let r = std::panic::catch_unwind(|| {
        let res = abra_core::check_lsp("main.abra", provider(src, &[]));
        res.errors()
    });
    match r {
        Ok(es) => Ok(es.into_iter().map(|e| Diag {
            message: e.message, file: e.file_id, range: e.range,
            secondary: e.secondary_labels.into_iter().map(|(f, r, _)| (f, r)).collect(),
        }).collect()),
        Err(p) => Err(panic_msg(p)),
    }
}

/// brackets of the labelled text are balanced (string literals skipped); a label that starts or ends
/// inside a bracket pair does not cover a construct
fn balanced(text: &str) -> bool {
    let mut stack: Vec<char> = vec![];
    let mut chars = text.chars().peekable();
    while let Some(c) = chars.next() {
        match c {
            '"' | '\'' => { while let Some(d) = chars.next() { if d == '\\' { chars.next(); } else if d == c { break; } } }
            '(' | '[' | '{' => stack.push(c),
            ')' => if stack.pop() != Some('(') { return false; },
            ']' => if stack.pop() != Some('[') { return false; },
            '}' => if stack.pop() != Some('{') { return false; },
            _ => {}
        }
    }
    stack.is_empty()
}

fn range_ok(src: &str, r: &std::ops::Range<usize>) -> Result<(), String> {
    if r.start > r.end { return Err(format!("{r:?} is reversed")); }
    if r.end > src.len() { return Err(format!("{r:?} is not within the file ({} bytes)", src.len())); }
    if !src.is_char_boundary(r.start) || !src.is_char_boundary(r.end) { return Err(format!("{r:?} does not start and end on character boundaries")); }
    Ok(())
}

fn main() {
    let mut ctx = Ctx::from_env("C33");
    let quick = ctx.quick();
    let per_template = if quick { 14 } else { 150 };
    struct Job { src: String, t: usize, err_at: usize }
    let mut jobs: Vec<Job> = vec![];
    for (ti, t) in TEMPLATES.iter().enumerate() {
        for k in 0..per_template {
            let mut src = String::new();
            let n_pre = if k == 0 { 0 } else { ctx.rng.below(5) };
            for _ in 0..n_pre { src.push_str(FILLER[ctx.rng.below(FILLER.len() as u64) as usize]); }
            let err_at = src.len();
            src.push_str(t.text);
            if !t.last_only {
                for _ in 0..ctx.rng.below(3) { src.push_str(FILLER[ctx.rng.below(FILLER.len() as u64) as usize]); }
            }
            jobs.push(Job { src, t: ti, err_at });
        }
    }
    let results = par_map(&jobs, |j| (diagnostics(&j.src), impl_lex(&j.src, true)));
    for (j, (diags, lexed)) in jobs.iter().zip(results) {
        let t = &TEMPLATES[j.t];
        ctx.count(&format!("template:{}", t.name));
        if !j.src[..j.err_at].is_ascii() { ctx.count("non-ascii-before-error"); }
        // `+na` = non-ASCII text precedes the error site (the non-trivial cases of this property)
        ctx.case(format!("lex {} #{}{}", hex_str(&j.src), t.name, if j.src[..j.err_at].is_ascii() { "" } else { "+na" }), lexed);
        let diags = match diags {
            Ok(d) => d,
            Err(p) => { ctx.spec_fail(format!("{}: analysis panicked ({p}) on {:?}", t.name, j.src)); continue; }
        };
        if diags.is_empty() { ctx.spec_fail(format!("{}: no diagnostic at all for {:?}", t.name, j.src)); continue; }
        let mut matched = false;
        for d in &diags {
            ctx.count(&format!("diag:{}", d.message.lines().next().unwrap_or("").chars().take(40).collect::<String>()));
            if d.file != 0 {
                // a label in the prelude (file 1): still a range of *that* file
                ctx.count("diag:other-file");
                if d.file == 1 {
                    if let Err(why) = range_ok(abra_core::PRELUDE, &d.range) {
                        ctx.spec_fail(format!("{}: diagnostic {:?}: primary range in the prelude {why}", t.name, d.message));
                    }
                    for (f, r) in &d.secondary {
                        if *f == 0 {
                            if let Err(why) = range_ok(&j.src, r) { ctx.spec_fail(format!("{}: diagnostic {:?}: secondary label {why}; source {:?}", t.name, d.message, j.src)); }
                            else if d.message.starts_with(t.msg) && t.want == "<other-file>" {
                                matched = true;
                                if &j.src[r.clone()] != "print_string" { ctx.spec_fail(format!("{}: the label in the user's file covers {:?}, not the clashing name; source {:?}", t.name, &j.src[r.clone()], j.src)); }
                            }
                        }
                    }
                }
                continue;
            }
            if let Err(why) = range_ok(&j.src, &d.range) {
                ctx.spec_fail(format!("{}: diagnostic {:?}: primary range {why}; source {:?}", t.name, d.message, j.src));
                if d.message.starts_with(t.msg) && d.range.start >= j.err_at { matched = true; }
                continue;
            }
            for (f, r) in &d.secondary {
                if *f == 1 {
                    if let Err(why) = range_ok(abra_core::PRELUDE, r) {
                        ctx.spec_fail(format!("{}: diagnostic {:?}: secondary label in the prelude {why}", t.name, d.message));
                    }
                }
                if *f == 0 {
                    if let Err(why) = range_ok(&j.src, r) {
                        ctx.spec_fail(format!("{}: diagnostic {:?}: secondary label {why}; source {:?}", t.name, d.message, j.src));
                    }
                }
            }
            // generic oracle: a label covers a whole construct, so its brackets are balanced
            // (diagnostics about a single token, which may itself be a bracket, excepted)
            if !d.message.starts_with("Unexpected token") && !d.message.starts_with("Unrecognized") {
                let mut labels = vec![d.range.clone()];
                for (f, r) in &d.secondary { if *f == 0 && range_ok(&j.src, r).is_ok() { labels.push(r.clone()); } }
                for r in labels {
                    ctx.count("oracle:balanced-label");
                    if !balanced(&j.src[r.clone()]) {
                        ctx.spec_fail(format!("{}: diagnostic {:?}: the label {:?} covers {:?}, which starts or ends inside a bracket pair; source {:?}",
                            t.name, d.message, r, &j.src[r.clone()], j.src));
                    }
                }
            }
            if d.message.starts_with(t.msg) && d.range.start >= j.err_at && d.range.start < j.err_at + t.text.len().max(1) + 1 {
                matched = true;
                let got = &j.src[d.range.clone()];
                let ok = match t.want {
                    "" => !got.is_empty(),                                        // some token of the statement
                    "<eof>" => d.range.end <= j.src.len(),                        // anything within the file
                    "<at-eof>" => d.range.start == j.src.len() && d.range.end == j.src.len(), // where the closer was expected
                    w => got == w,
                };
                if t.name == "d106-redundant-qualified" {
                    let secs: Vec<&str> = d.secondary.iter().filter(|(f, r)| *f == 0 && range_ok(&j.src, r).is_ok()).map(|(_, r)| &j.src[r.clone()]).collect();
                    if secs != vec!["Cq.Rd"] {
                        ctx.spec_fail(format!("{}: the redundant arm's label covers {:?}, expected the whole qualified pattern `Cq.Rd`; source {:?}", t.name, secs, j.src));
                    }
                }
                if !ok {
                    ctx.spec_fail(format!("{}: diagnostic {:?} covers {:?} (range {:?}) but the offending text is {:?}; source {:?}",
                        t.name, d.message, got, d.range, t.want, j.src));
                }
            }
        }
        if !matched {
            ctx.spec_fail(format!("{}: the expected diagnostic `{}` was not reported at the error site; got {:?}; source {:?}",
                t.name, t.msg, diags.iter().map(|d| (d.message.clone(), d.range.clone())).collect::<Vec<_>>(), j.src));
        }
    }
    // ---- hard regression probe for D111: a file that only lacks a closing token is REJECTED
    for src in ["let x = [1, 2", "println(1\n", "let t = (1, 2 // é", "fn f() {\n  1\n", "let x = foo(1, 2"] {
        ctx.count("probe:D111");
        match run_program(src).outcome {
            Outcome::Rejected(_) => {}
            o => ctx.spec_fail(format!("D111 probe: {src:?} lacks its closing token but was not rejected: {:?}", o.tag())),
        }
    }
    // ---- hard regression probe for D93 (567a3fd): the locals-limit diagnostic of the main program names
    //      the line of its first statement (it used to say line 0); behind a non-ASCII comment line
    {
        let mut big = String::from("// é — ∑\n\n");
        for i in 0..32768 { big.push_str(&format!("let x{i} = {i}\n")); }
        let r = std::thread::Builder::new().stack_size(512 << 20).spawn(move || run_program(&big)).unwrap().join().unwrap();
        ctx.count("probe:D93");
        match &r.outcome {
            Outcome::Rejected(t) if t.starts_with("main.abra:3: too many local variables") => {}
            o => ctx.spec_fail(format!("D93 probe: 32768 top-level locals behind a comment line and a blank line: expected `main.abra:3: too many local variables…`, got {:?}", format!("{o:?}").chars().take(200).collect::<String>())),
        }
        if !quick {
            let mut f = String::from("fn f() {\n");
            for i in 0..32768 { f.push_str(&format!("  let x{i} = {i}\n")); }
            f.push_str("  0\n}\nprintln(f())\n");
            let r = std::thread::Builder::new().stack_size(512 << 20).spawn(move || run_program(&f)).unwrap().join().unwrap();
            match &r.outcome {
                Outcome::Rejected(t) if t.starts_with("main.abra:1: too many local variables") => {}
                o => ctx.spec_fail(format!("D93 probe (function frame): got {:?}", format!("{o:?}").chars().take(200).collect::<String>())),
            }
        }
    }

    // ---- end-of-input family: the file ends exactly where more input is required, and its last
    //      character is ASCII / 2-byte / 3-byte / 4-byte, with and without a trailing newline.  Errors
    //      raised after the parser has stepped past the lexer's Eof token use `Parser::eof()`'s position.
    const TRUNC: [&str; 34] = ["fn", "type", "use", "interface", "implement", "extend", "let", "var", "let t = s.", "s.", "use a/",
        "fn f(", "fn f(x:", "fn f(x) ->", "type T =", "type T = {", "type T = | A |", "let a:", "let a =", "let a = 1 +", "let a = -", "let a = not",
        "let a = [1,", "let a = f(1,", "let a = (", "match x {", "match x { 1 ->", "for", "for i in", "if", "while", "interface I {", "implement I for", "x = "];
    const LAST: [(&str, &str); 4] = [("ascii", "z"), ("2-byte", "é"), ("3-byte", "語"), ("4-byte", "🦀")];
    struct EJob { src: String, code_end: usize, what: String }
    let mut ejobs: Vec<EJob> = vec![];
    for (ti, t) in TRUNC.iter().enumerate() {
        for (lname, last) in LAST {
            for style in 0..4 {
                for nl in [false, true] {
                    let mut src = String::new();
                    if (ti + style) % 3 == 0 { src.push_str(FILLER[(ti * 7 + style) % FILLER.len()]); }
                    src.push_str(t);
                    let code_end = src.len();
                    match style {
                        0 => { src.push_str(" // caf"); src.push_str(last); }
                        1 => { src.push_str("// "); src.push_str(last); }
                        2 => { src.push_str(" /* 日本語 */ //"); src.push_str(last); }
                        _ => { src.push_str("\n\n  // x"); src.push_str(last); }
                    }
                    if nl { src.push('\n'); }
                    ejobs.push(EJob { src, code_end, what: format!("eof:{t}|last={lname}|style={style}|nl={nl}") });
                }
            }
        }
    }
    let eresults = par_map(&ejobs, |j| (diagnostics(&j.src), impl_lex(&j.src, true)));
    for (j, (diags, lexed)) in ejobs.iter().zip(eresults) {
        ctx.count("family:end-of-input");
        ctx.case(format!("lex {} #end-of-input{}", hex_str(&j.src), if j.src.trim_end_matches('\n').chars().next_back().map_or(true, |c| c.is_ascii()) { "" } else { "+na" }), lexed);
        let diags = match diags {
            Ok(d) => d,
            Err(p) => { ctx.spec_fail(format!("{}: analysis panicked ({p}) on {:?}", j.what, j.src)); continue; }
        };
        let len = j.src.len();
        let last_start = j.src.char_indices().next_back().map_or(0, |(i, _)| i);
        for d in &diags {
            if d.file != 0 { continue; }
            let mut all = vec![("primary", d.range.clone())];
            for (f, r) in &d.secondary { if *f == 0 { all.push(("secondary", r.clone())); } }
            for (which, r) in all {
                if let Err(why) = range_ok(&j.src, &r) {
                    ctx.spec_fail(format!("{}: diagnostic {:?}: {which} range {why}; source {:?}", j.what, d.message, j.src));
                    continue;
                }
                // a diagnostic located behind the code (in the trailing comment / at the end of input)
                // can only mean "end of input": the end of the text or its last character
                // (a line break between the code and the comment is a token of its own)
                if which == "primary" && r.start > j.code_end && &j.src[r.clone()] != "\n" {
                    ctx.count("eof-diagnostic");
                    let ok = (r.start == len || r.start == last_start) && (r.end == r.start || r.end == len);
                    if !ok {
                        ctx.spec_fail(format!("{}: diagnostic {:?} at {:?} lies in the trailing comment, neither at the end of input ({len}) nor on its last character ({last_start}); source {:?}",
                            j.what, d.message, r, j.src));
                    }
                }
            }
        }
        if diags.is_empty() { ctx.count("eof:no-diagnostic"); }
    }
    ctx.finish();
}
