//! C22 correspondence: dispatch of interface methods and generic functions.
//!
//! Each generated program declares a two-method user interface `Tg` with implementations for a seeded
//! subset of {int, float, string, bool, (int, float), (int, int, string), array<T>, struct Sa, struct Sb,
//! generic struct Bx<T>, enum Ea, option<T>} in seeded declaration order, each implementation listing
//! its methods in seeded order, plus implementations of the builtin interfaces Equal, Ord, Num,
//! ToString, Clone, Index, Iterable/Iterator for a user struct.  Every method returns / prints a tag
//! naming implementation and method.  Calls: direct (`Tg.tag(v)`, `v.tag()`), through generic functions
//! with one and two type parameters, nested generic calls, a generic over `array<T>`, a generic over a
//! tuple, and the operators / for-loop / indexing / string conversion on the user struct directly and
//! inside generic functions.  The output names the code that ran.
//! * vs the Lean model (`mono …`): same implementation index and method.
//! * vs the property itself (`spec_fail`): a Rust reference dispatch (implementation declared for the
//!   concrete type, method with the called name).
use vh::*;
#[path = "../bg8_probes.rs"]
mod bg8_probes;
use bg8_probes::{Probe, Want, run_probes};

#[derive(Clone)]
struct CT {
    name: &'static str,
    /// type as written in an `implement … for` header
    impl_ty: &'static str,
    /// model term of the implementation type
    impl_term: &'static str,
    /// concrete instances: (model term, value expression)
    insts: Vec<(&'static str, &'static str)>,
}

fn universe() -> Vec<CT> {
    vec![
        CT { name: "int", impl_ty: "int", impl_term: "i", insts: vec![("i", "3")] },
        CT { name: "float", impl_ty: "float", impl_term: "f", insts: vec![("f", "2.5")] },
        CT { name: "string", impl_ty: "string", impl_term: "s", insts: vec![("s", "\"q\"")] },
        CT { name: "bool", impl_ty: "bool", impl_term: "b", insts: vec![("b", "true")] },
        CT { name: "tuple2", impl_ty: "(int, float)", impl_term: "T[i,f]", insts: vec![("T[i,f]", "(3, 2.5)")] },
        CT { name: "tuple3", impl_ty: "(int, int, string)", impl_term: "T[i,i,s]", insts: vec![("T[i,i,s]", "(1, 2, \"z\")")] },
        CT { name: "array", impl_ty: "array<T>", impl_term: "N1[p5]", insts: vec![("N1[i]", "[1, 2]"), ("N1[s]", "[\"x\"]"), ("N1[N10[]]", "[Sa(1)]")] },
        CT { name: "Sa", impl_ty: "Sa", impl_term: "N10[]", insts: vec![("N10[]", "Sa(1)")] },
        CT { name: "Sb", impl_ty: "Sb", impl_term: "N11[]", insts: vec![("N11[]", "Sb(2)")] },
        CT { name: "Bx", impl_ty: "Bx<T>", impl_term: "N12[p5]", insts: vec![("N12[i]", "Bx(5)"), ("N12[N10[]]", "Bx(Sa(1))")] },
        CT { name: "Ea", impl_ty: "Ea", impl_term: "N13[]", insts: vec![("N13[]", "Ea.One")] },
        CT { name: "option", impl_ty: "option<T>", impl_term: "N2[p5]", insts: vec![("N2[i]", "option.some(4)")] },
    ]
}

const TYPES: &str = "type Sa = { v: int }\ntype Sb = { v: int }\ntype Bx<T> = { inner: T }\ntype Ea = | One | Two\n";

const GENERICS: &str = "fn g1t(x: T Tg) -> string { Tg.tag(x) }\nfn g1a(x: T Tg) -> string { Tg.alt(x) }\n\
fn g2t(x: T Tg, y: U Tg) -> string { Tg.tag(y) }\nfn g2a(x: T Tg, y: U Tg) -> string { Tg.alt(y) }\n\
fn g3t(x: T Tg) -> string { g1t(x) }\nfn g3a(x: T Tg) -> string { g1a(x) }\n\
fn g4t(xs: array<T Tg>) -> string { Tg.tag(xs[0]) }\nfn g4a(xs: array<T Tg>) -> string { Tg.alt(xs[0]) }\n\
fn g5t(pr: (T Tg, U Tg)) -> string {\n  match pr {\n    (a, b) -> Tg.tag(b)\n  }\n}\n\
fn g5a(pr: (T Tg, U Tg)) -> string {\n  match pr {\n    (a, b) -> Tg.alt(b)\n  }\n}\n";

/// Lambdas and tasks inside generic functions ({M} = method, {S} = suffix t/a).  Capture sets: only the
/// generic value (h1), only a concrete value (h2), generic + concrete (h3, h7 with an int), generic +
/// concrete through a nested lambda (h4), a lambda whose own type mentions the type parameter and
/// that captures a concrete value (h5) / a concrete and a generic value (h8), a task with generic +
/// concrete captures (h6), a generic struct field + concrete (h9).  Every one is called at two or
/// three different types in one program: each instantiation needs its own copy of the lambda.
const CLOSURES: &str = "fn h1{S}(x: T Tg) -> string {\n  let f = () -> Tg.{M}(x)\n  f()\n}\n\
fn h2{S}(x: T Tg, p: string) -> string {\n  let f = () -> p\n  f() .. Tg.{M}(x)\n}\n\
fn h3{S}(x: T Tg, p: string) -> string {\n  let f = () -> p .. Tg.{M}(x)\n  f()\n}\n\
fn h4{S}(x: T Tg, p: string) -> string {\n  let f = () -> {\n    let g = () -> p .. Tg.{M}(x)\n    g()\n  }\n  f()\n}\n\
fn h5{S}(x: T Tg, p: string) -> string {\n  let f = (y: T) -> p .. Tg.{M}(y)\n  f(x)\n}\n\
fn h6{S}(x: T Tg, p: string) -> string {\n  let c: channel<string> = channel()\n  task {\n    c.write(p .. Tg.{M}(x))\n  }\n  c.read()\n}\n\
fn h7{S}(x: T Tg, n: int) -> string {\n  let f = () -> {\n    if n > 0 {\n      Tg.{M}(x)\n    } else {\n      \"none\"\n    }\n  }\n  f()\n}\n\
fn h8{S}(x: T Tg, p: string) -> string {\n  let f = (y: T) -> p .. Tg.{M}(y) .. p\n  let g = () -> f(x)\n  g()\n}\n\
fn h9{S}(b: Bx<T Tg>, p: string) -> string {\n  let f = () -> p .. Tg.{M}(b.inner)\n  f()\n}\n\
fn gv1{S}(x: T Tg) -> string {\n  let f = Tg.{M}\n  f(x)\n}\n\
fn gv2{S}(x: T Tg) -> string { apply1(Tg.{M}, x) }\n\
fn gv3{S}(x: T Tg) -> string {\n  let fs = [Tg.{M}]\n  fs[0](x)\n}\n";

/// higher-order helpers for interface methods used as VALUES
const APPLY: &str = "fn apply1(f: T -> U, x: T) -> U { f(x) }\nfn apply2(f: (T, T) -> U, a: T, b: T) -> U { f(a, b) }\n";

/// implementations of the builtin interfaces for `Sc` (each prints a tag) and generic users of them
const BUILTIN: &str = "type Sc = { v: int }\n\
implement Equal for Sc {\n  fn equal(a, b) {\n    println(\"Equal.Sc.equal\")\n    a.v == b.v\n  }\n}\n\
implement Ord for Sc {\n  fn greater_than(a, b) {\n    println(\"Ord.Sc.greater_than\")\n    a.v > b.v\n  }\n  fn less_than(a, b) {\n    println(\"Ord.Sc.less_than\")\n    a.v < b.v\n  }\n  fn less_than_or_equal(a, b) {\n    println(\"Ord.Sc.less_than_or_equal\")\n    a.v <= b.v\n  }\n  fn greater_than_or_equal(a, b) {\n    println(\"Ord.Sc.greater_than_or_equal\")\n    a.v >= b.v\n  }\n}\n\
implement ToString for Sc {\n  fn str(s) {\n    println(\"ToString.Sc.str\")\n    \"sc\"\n  }\n}\n\
implement Clone for Sc {\n  fn clone(x) {\n    println(\"Clone.Sc.clone\")\n    Sc(x.v)\n  }\n}\n\
fn geq(a: T Equal, b: T Equal) -> bool { a == b }\n\
fn glt(a: T Ord, b: T Ord) -> bool { a < b }\n\
fn gge(a: T Ord, b: T Ord) -> bool { a >= b }\n\
fn gstr(a: T ToString) -> string { ToString.str(a) }\n\
fn gclone(a: T Clone) -> T Clone { Clone.clone(a) }\n";

/// `Num` for a user type (kept apart: today the arithmetic operators on it panic the compiler)
const NUM: &str = "implement Num for Sc {\n  fn add(a, b) {\n    println(\"Num.Sc.add\")\n    Sc(a.v + b.v)\n  }\n  fn subtract(a, b) {\n    println(\"Num.Sc.subtract\")\n    Sc(a.v - b.v)\n  }\n  fn multiply(a, b) {\n    println(\"Num.Sc.multiply\")\n    Sc(a.v * b.v)\n  }\n  fn divide(a, b) {\n    println(\"Num.Sc.divide\")\n    Sc(a.v / b.v)\n  }\n  fn power(a, b) {\n    println(\"Num.Sc.power\")\n    Sc(a.v ^ b.v)\n  }\n}\n\
fn gadd(a: T Num, b: T Num) -> T Num { a + b }\n\
fn gmul(a: T Num, b: T Num) -> T Num { a * b }\n\
fn gsub(a: T Num, b: T Num) -> T Num { a - b }\n\
fn gdiv(a: T Num, b: T Num) -> T Num { a / b }\n\
fn gpow(a: T Num, b: T Num) -> T Num { a ^ b }\n\
type Hs = { s: Sc }\n";

struct BCase {
    expr: &'static str,
    /// tags expected in the output, in order
    expect: &'static [&'static str],
    iface: &'static str,
    methods: &'static str,
    idx: usize,
    generic: bool,
}

fn builtin_cases(num: bool) -> Vec<BCase> {
    let c = |expr, expect, iface, methods, idx, generic| BCase { expr, expect, iface, methods, idx, generic };
    let all = vec![
        c("let r = Sc(1) == Sc(1)", &["Equal.Sc.equal"][..], "Equal", "equal", 0, false),
        c("let r = geq(Sc(1), Sc(2))", &["Equal.Sc.equal"][..], "Equal", "equal", 0, true),
        c("let r = geq(3, 3)", &[][..], "Equal", "equal", 0, true),
        c("let r = Sc(1) < Sc(2)", &["Ord.Sc.less_than"][..], "Ord", "less_than+less_than_or_equal+greater_than+greater_than_or_equal", 0, false),
        c("let r = Sc(1) <= Sc(2)", &["Ord.Sc.less_than_or_equal"][..], "Ord", "less_than+less_than_or_equal+greater_than+greater_than_or_equal", 1, false),
        c("let r = Sc(1) > Sc(2)", &["Ord.Sc.greater_than"][..], "Ord", "less_than+less_than_or_equal+greater_than+greater_than_or_equal", 2, false),
        c("let r = glt(Sc(1), Sc(2))", &["Ord.Sc.less_than"][..], "Ord", "less_than+less_than_or_equal+greater_than+greater_than_or_equal", 0, true),
        c("let r = gge(Sc(1), Sc(2))", &["Ord.Sc.greater_than_or_equal"][..], "Ord", "less_than+less_than_or_equal+greater_than+greater_than_or_equal", 3, true),
        c("let r = glt(1.5, 2.5)", &[][..], "Ord", "less_than+less_than_or_equal+greater_than+greater_than_or_equal", 0, true),
        c("let r = Sc(1) + Sc(2)", &["Num.Sc.add"][..], "Num", "add+subtract+multiply+divide+power", 0, false),
        c("let r = Sc(6) / Sc(2)", &["Num.Sc.divide"][..], "Num", "add+subtract+multiply+divide+power", 3, false),
        c("let r = gadd(Sc(1), Sc(2))", &["Num.Sc.add"][..], "Num", "add+subtract+multiply+divide+power", 0, true),
        c("let r = gmul(Sc(1), Sc(2))", &["Num.Sc.multiply"][..], "Num", "add+subtract+multiply+divide+power", 2, true),
        c("let r = gadd(1, 2)", &[][..], "Num", "add+subtract+multiply+divide+power", 0, true),
        // every Num operator on the user type, directly, in generic code and as compound assignment
        // on a variable, a struct field and an array element
        c("let r = Sc(6) - Sc(2)", &["Num.Sc.subtract"][..], "Num", "add+subtract+multiply+divide+power", 1, false),
        c("let r = Sc(6) * Sc(2)", &["Num.Sc.multiply"][..], "Num", "add+subtract+multiply+divide+power", 2, false),
        c("let r = Sc(2) ^ Sc(3)", &["Num.Sc.power"][..], "Num", "add+subtract+multiply+divide+power", 4, false),
        c("let r = gsub(Sc(6), Sc(2))", &["Num.Sc.subtract"][..], "Num", "add+subtract+multiply+divide+power", 1, true),
        c("let r = gdiv(Sc(6), Sc(2))", &["Num.Sc.divide"][..], "Num", "add+subtract+multiply+divide+power", 3, true),
        c("let r = gpow(Sc(2), Sc(3))", &["Num.Sc.power"][..], "Num", "add+subtract+multiply+divide+power", 4, true),
        c("let r = gpow(2, 3)", &[][..], "Num", "add+subtract+multiply+divide+power", 4, true),
        c("var cv1 = Sc(6)\ncv1 += Sc(1)", &["Num.Sc.add"][..], "Num", "add+subtract+multiply+divide+power", 0, false),
        c("var cv2 = Sc(6)\ncv2 -= Sc(1)", &["Num.Sc.subtract"][..], "Num", "add+subtract+multiply+divide+power", 1, false),
        c("var cv3 = Sc(6)\ncv3 *= Sc(2)", &["Num.Sc.multiply"][..], "Num", "add+subtract+multiply+divide+power", 2, false),
        c("var cv4 = Sc(6)\ncv4 /= Sc(2)", &["Num.Sc.divide"][..], "Num", "add+subtract+multiply+divide+power", 3, false),
        c("let hs1 = Hs(Sc(6))\nhs1.s += Sc(1)", &["Num.Sc.add"][..], "Num", "add+subtract+multiply+divide+power", 0, false),
        c("let hs2 = Hs(Sc(6))\nhs2.s /= Sc(2)", &["Num.Sc.divide"][..], "Num", "add+subtract+multiply+divide+power", 3, false),
        c("let ae1 = [Sc(6), Sc(7)]\nae1[1] -= Sc(1)", &["Num.Sc.subtract"][..], "Num", "add+subtract+multiply+divide+power", 1, false),
        c("let ae2 = [Sc(6), Sc(7)]\nae2[0] *= Sc(2)", &["Num.Sc.multiply"][..], "Num", "add+subtract+multiply+divide+power", 2, false),
        c("let r = \"a\" .. Sc(1)", &["ToString.Sc.str"][..], "ToString", "str", 0, false),
        c("let r = gstr(Sc(1))", &["ToString.Sc.str"][..], "ToString", "str", 0, true),
        c("let r = gstr(7)", &[][..], "ToString", "str", 0, true),
        c("let r = Sc(1).clone()", &["Clone.Sc.clone"][..], "Clone", "clone", 0, false),
        c("let r = gclone(Sc(1))", &["Clone.Sc.clone"][..], "Clone", "clone", 0, true),
        c("let r = gclone([Sc(1), Sc(2)])", &["Clone.Sc.clone", "Clone.Sc.clone"][..], "Clone", "clone", 0, true),
        // prelude interface methods as VALUES at the user type (its Ord implementation lists greater_than first)
        c("let r = apply1(ToString.str, Sc(1))", &["ToString.Sc.str"][..], "ToString", "str", 0, false),
        c("let r = apply2(Equal.equal, Sc(1), Sc(1))", &["Equal.Sc.equal"][..], "Equal", "equal", 0, false),
        c("let r = apply2(Ord.less_than, Sc(1), Sc(2))", &["Ord.Sc.less_than"][..], "Ord", "less_than+less_than_or_equal+greater_than+greater_than_or_equal", 0, false),
        c("let r = apply2(Ord.less_than_or_equal, Sc(1), Sc(2))", &["Ord.Sc.less_than_or_equal"][..], "Ord", "less_than+less_than_or_equal+greater_than+greater_than_or_equal", 1, false),
        c("let r = apply2(Ord.greater_than, Sc(1), Sc(2))", &["Ord.Sc.greater_than"][..], "Ord", "less_than+less_than_or_equal+greater_than+greater_than_or_equal", 2, false),
        c("let ofs = [Ord.greater_than_or_equal, Ord.less_than]\nlet r = ofs[1](Sc(1), Sc(2))", &["Ord.Sc.less_than"][..], "Ord", "less_than+less_than_or_equal+greater_than+greater_than_or_equal", 0, false),
        c("let r = apply1(Clone.clone, Sc(1))", &["Clone.Sc.clone"][..], "Clone", "clone", 0, false),
        c("let r = apply2(Num.subtract, Sc(6), Sc(1))", &["Num.Sc.subtract"][..], "Num", "add+subtract+multiply+divide+power", 1, false),
        c("let nf = Num.power\nlet r = nf(Sc(2), Sc(3))", &["Num.Sc.power"][..], "Num", "add+subtract+multiply+divide+power", 4, false),
    ];
    all.into_iter().filter(|b| (b.iface == "Num") == num).collect()
}

const CONTAINER: &str = "type Bag = { items: array<int> }\n\
implement Index for Bag {\n  fn index_get(self, index: int) -> int {\n    println(\"Index.Bag.index_get\")\n    self.items[index]\n  }\n  fn index_set(self, index: int, val: int) -> void {\n    println(\"Index.Bag.index_set\")\n    self.items[index] = val\n  }\n}\n\
type BagIter = { b: Bag, i: int }\n\
implement Iterator for BagIter {\n  fn next(self) -> option<int> {\n    println(\"Iterator.BagIter.next\")\n    if self.i == self.b.items.len() {\n      .none\n    } else {\n      let r = option.some(self.b.items[self.i])\n      self.i = self.i + 1\n      r\n    }\n  }\n}\n\
implement Iterable for Bag {\n  fn make_iterator(self) -> BagIter {\n    println(\"Iterable.Bag.make_iterator\")\n    BagIter(self, 0)\n  }\n}\n";

struct Case {
    req: String,
    expr: String,
    expect: String, // reference: "impl=k method=name"
    what: String,
    /// a prelude implementation must run (nothing is printed): only checked against the reference
    prelude: bool,
    /// operator cases: the model request `monoop <operator> <compound>` and the interface's methods
    op_req: Option<(String, String)>,
}

/// which operator (model name, compound?) a builtin-interface case exercises
fn operator_of(expr: &str) -> Option<(&'static str, bool)> {
    for (sym, name) in [(" += ", "add"), (" -= ", "sub"), (" *= ", "mul"), (" /= ", "div")] {
        if expr.contains(sym) {
            return Some((name, true));
        }
    }
    for (sym, name) in [
        (" == ", "eq"), (" <= ", "le"), (" >= ", "ge"), (" < ", "lt"), (" > ", "gt"), (" + ", "add"), (" - ", "sub"),
        (" * ", "mul"), (" / ", "div"), (" ^ ", "pow"), (" .. ", "concat"),
        ("geq(", "eq"), ("glt(", "lt"), ("gge(", "ge"), ("gadd(", "add"), ("gmul(", "mul"), ("gsub(", "sub"), ("gdiv(", "div"), ("gpow(", "pow"),
    ] {
        if expr.contains(sym) {
            return Some((name, false));
        }
    }
    None
}

struct Prog {
    src: String,
    cases: Vec<Case>,
    impl_names: Vec<&'static str>,
    impl_orders: Vec<[&'static str; 2]>,
    with_builtin: bool,
    with_container: bool,
    /// further modules of the program
    files: Vec<(String, String)>,
    /// (case index, case index, `monolabel` request): two instantiations of one generic function at two
    /// same-named types — they need two labels
    label_pairs: Vec<(usize, usize, String)>,
}

/// Two modules declare types with the SAME unqualified names (`Item`, a struct; `Kind`, an enum) with
/// different layouts and their own Tg / ToString / Equal / Ord implementations; one program
/// instantiates the same generic functions (plain, with a capturing closure) and interface methods
/// at both.  Implementation 0 = the main module's type, 1 = the imported module's.
fn multi_module_prog(rng: &mut Rng) -> Prog {
    let base = "interface Tg {\n  fn tag(self) -> string\n  fn alt(self) -> string\n}\n\
fn g1t(x: T Tg) -> string { Tg.tag(x) }\nfn g1a(x: T Tg) -> string { Tg.alt(x) }\n\
fn h3t(x: T Tg, p: string) -> string {\n  let f = () -> p .. Tg.tag(x)\n  f()\n}\n\
fn h3a(x: T Tg, p: string) -> string {\n  let f = () -> p .. Tg.alt(x)\n  f()\n}\n\
fn gstr(a: T ToString) -> string { ToString.str(a) }\n\
fn geq(a: T Equal, b: T Equal) -> bool { a == b }\n\
fn glt(a: T Ord, b: T Ord) -> bool { a < b }\n\
fn ggt(a: T Ord, b: T Ord) -> bool { a > b }\n\
fn apply1(f: T -> U, x: T) -> U { f(x) }\n\
fn gvt(x: T Tg) -> string { apply1(Tg.tag, x) }\n\
fn gva(x: T Tg) -> string {\n  let f = Tg.alt\n  f(x)\n}\n";
    let impls = |k: usize, ty: &str, key: &str, swap: bool| -> String {
        let (m1, m2) = if swap { ("alt", "tag") } else { ("tag", "alt") };
        format!(
            "implement Tg for {ty} {{\n  fn {m1}(self) -> string {{ \"{k}.{m1}\" }}\n  fn {m2}(self) -> string {{ \"{k}.{m2}\" }}\n}}\n\
implement ToString for {ty} {{\n  fn str(s) {{ \"{k}.str\" }}\n}}\n\
implement Equal for {ty} {{\n  fn equal(a, b) {{\n    println(\"{k}.equal\")\n    {key}\n  }}\n}}\n\
implement Ord for {ty} {{\n  fn less_than(a, b) {{\n    println(\"{k}.less_than\")\n    true\n  }}\n  fn less_than_or_equal(a, b) {{ true }}\n  fn greater_than(a, b) {{\n    println(\"{k}.greater_than\")\n    false\n  }}\n  fn greater_than_or_equal(a, b) {{ false }}\n}}\n"
        )
    };
    let mut inv = String::from("use base\ntype Item = { qty: int }\ntype Kind = | Ka | Kb\n");
    inv.push_str(&impls(1, "Item", "true", rng.chance(1, 2)));
    inv.push_str(&impls(1, "Kind", "true", rng.chance(1, 2)));
    let mut src = String::from("use base\n");
    if rng.chance(2, 3) {
        src.push_str("use inv except (Item, Kind)\n");
    }
    src.push_str("use inv as iv\ntype Item = { name: string, w: int }\ntype Kind = | Kx(int) | Ky\n");
    src.push_str(&impls(0, "Item", "true", rng.chance(1, 2)));
    src.push_str(&impls(0, "Kind", "true", rng.chance(1, 2)));
    // values: [main's, inv's] per type name
    let vals: [(&str, [&str; 2], [&str; 2]); 2] =
        [("Item", ["Item(\"a\", 1)", "iv.Item(3)"], ["N40[]", "N41[]"]), ("Kind", ["Kind.Kx(2)", "iv.Kind.Ka"], ["N42[]", "N43[]"])];
    // (function, model signature, call type, interface methods, method index, is binary)
    let fns: [(&str, &str, &str, &str, &str, usize, bool); 13] = [
        ("gvt", "F[p1>s]", "F[p0>s]", "F[p1>s]", "tag+alt", 0, false),
        ("gva", "F[p1>s]", "F[p0>s]", "F[p1>s]", "tag+alt", 1, false),
        ("valt", "F[>v]", "F[p0>s]", "", "tag+alt", 0, false),
        ("vala", "F[>v]", "F[p0>s]", "", "tag+alt", 1, false),
        ("g1t", "F[p1>s]", "F[p0>s]", "F[p1>s]", "tag+alt", 0, false),
        ("g1a", "F[p1>s]", "F[p0>s]", "F[p1>s]", "tag+alt", 1, false),
        ("h3t", "F[p1,s>s]", "F[p0>s]", "F[p1>s]", "tag+alt", 0, false),
        ("h3a", "F[p1,s>s]", "F[p0>s]", "F[p1>s]", "tag+alt", 1, false),
        ("gstr", "F[p1>s]", "F[p0>s]", "F[p1>s]", "str", 0, false),
        ("geq", "F[p1,p1>b]", "F[p0,p0>b]", "F[p1,p1>b]", "equal", 0, true),
        ("glt", "F[p1,p1>b]", "F[p0,p0>b]", "F[p1,p1>b]", "less_than+less_than_or_equal+greater_than+greater_than_or_equal", 0, true),
        ("ggt", "F[p1,p1>b]", "F[p0,p0>b]", "F[p1,p1>b]", "less_than+less_than_or_equal+greater_than+greater_than_or_equal", 2, true),
        ("dot", "F[>v]", "F[p0>s]", "", "tag+alt", 0, false),
    ];
    let mut cases = vec![];
    let mut label_pairs = vec![];
    for (tyname, vs, terms) in vals {
        for (f, sig, msig, callty, methods, midx, binary) in fns {
            let first = rng.below(2) as usize; // which module's type is instantiated first
            let mut idxs = [0usize; 2];
            for step in 0..2 {
                let k = if step == 0 { first } else { 1 - first };
                let (v, term) = (vs[k], terms[k]);
                let q = cases.len();
                let m = methods.split('+').nth(midx).unwrap();
                let (expr, sig_s, inst, callty_s) = if f == "dot" {
                    (format!("Tg.tag({v})"), "F[>v]".to_string(), "F[>v]".to_string(), format!("F[{term}>s]"))
                } else if f == "valt" || f == "vala" {
                    (format!("apply1(Tg.{m}, {v})"), "F[>v]".to_string(), "F[>v]".to_string(), format!("F[{term}>s]"))
                } else if f.starts_with("h3") {
                    (format!("{f}({v}, \"\")"), sig.to_string(), format!("F[{term},s>s]"), callty.to_string())
                } else if binary {
                    (format!("{f}({v}, {v})"), sig.to_string(), format!("F[{term},{term}>b]"), callty.to_string())
                } else {
                    (format!("{f}({v})"), sig.to_string(), format!("F[{term}>s]"), callty.to_string())
                };
                let all = vec![methods; 2].join(";");
                let opname = if f.starts_with("gv") || f.starts_with("val") { "monov" } else { "mono" };
                let req = format!("{opname} {sig_s} {inst} {msig} {callty_s} {};{} {methods} {all} {midx} #same-name-{f}:{tyname}", terms[0], terms[1]);
                cases.push(Case {
                    req,
                    expr: format!("println(\"#{q}\")\nprintln({expr})\n"),
                    expect: format!("impl={k} method={m}"),
                    what: format!("`{expr}`: two modules declare a type `{tyname}`; this value is the {} module's", if k == 0 { "main" } else { "imported" }),
                    prelude: false,
                    op_req: None,
                });
                idxs[step] = q;
            }
            if f != "dot" && f != "valt" && f != "vala" {
                label_pairs.push((idxs[0], idxs[1], format!("monolabel {} {} #same-name-{f}:{tyname}", terms[0], terms[1])));
            }
        }
    }
    for c in &cases {
        src.push_str(&c.expr);
    }
    Prog {
        src,
        cases,
        impl_names: vec!["main.Item", "inv.Item"],
        impl_orders: vec![],
        with_builtin: false,
        with_container: false,
        files: vec![("base.abra".to_string(), base.to_string()), ("inv.abra".to_string(), inv)],
        label_pairs,
    }
}

fn gen_prog(rng: &mut Rng, idx: usize) -> Prog {
    let uni = universe();
    // seeded subset in seeded order
    let mut order: Vec<usize> = (0..uni.len()).collect();
    for i in (1..order.len()).rev() {
        let j = rng.below(i as u64 + 1) as usize;
        order.swap(i, j);
    }
    let n = 3 + rng.below((uni.len() - 2) as u64) as usize;
    let chosen: Vec<usize> = order.into_iter().take(n.min(uni.len())).collect();
    let mut src = String::from(TYPES);
    src.push_str("interface Tg {\n  fn tag(self) -> string\n  fn alt(self) -> string\n}\n");
    let mut impl_orders = vec![];
    for (k, &ci) in chosen.iter().enumerate() {
        let c = &uni[ci];
        let ord: [&'static str; 2] = if rng.chance(1, 2) { ["tag", "alt"] } else { ["alt", "tag"] };
        src.push_str(&format!("implement Tg for {} {{\n", c.impl_ty));
        for m in ord {
            src.push_str(&format!("  fn {m}(self) -> string {{ \"{k}.{m}\" }}\n"));
        }
        src.push_str("}\n");
        impl_orders.push(ord);
    }
    src.push_str(GENERICS);
    src.push_str(APPLY);
    src.push_str(&CLOSURES.replace("{M}", "tag").replace("{S}", "t"));
    src.push_str(&CLOSURES.replace("{M}", "alt").replace("{S}", "a"));
    let impls_term: String = chosen.iter().map(|&ci| uni[ci].impl_term).collect::<Vec<_>>().join(";");
    let impl_methods: String = impl_orders.iter().map(|o| format!("{}+{}", o[0], o[1])).collect::<Vec<_>>().join(";");
    let with_num = idx % 6 == 3;
    let with_builtin = idx % 3 == 0 && !with_num;
    let with_container = idx % 4 == 1;
    if with_builtin {
        src.push_str(BUILTIN);
    }
    if with_num {
        src.push_str(BUILTIN);
        src.push_str(NUM);
    }
    if with_container {
        src.push_str(CONTAINER);
    }
    let mut cases = vec![];
    let ncalls = 10 + rng.below(8) as usize;
    for q in 0..ncalls {
        let k = rng.below(chosen.len() as u64) as usize;
        let c = &uni[chosen[k]];
        let (term, val) = c.insts[rng.below(c.insts.len() as u64) as usize];
        let k2 = rng.below(chosen.len() as u64) as usize;
        let c2 = &uni[chosen[k2]];
        let (term2, val2) = c2.insts[rng.below(c2.insts.len() as u64) as usize];
        let midx = rng.below(2) as usize;
        let m = ["tag", "alt"][midx];
        let sfx = ["t", "a"][midx];
        let (expr, sig, inst, callty, form) = match rng.below(8) {
            0 => (format!("Tg.{m}({val})"), "F[>v]".to_string(), "F[>v]".to_string(), format!("F[{term}>s]"), "qualified"),
            1 => (format!("c{q}.{m}()"), "F[>v]".to_string(), "F[>v]".to_string(), format!("F[{term}>s]"), "dot"),
            2 => (format!("g1{sfx}({val})"), "F[p1>s]".into(), format!("F[{term}>s]"), "F[p1>s]".into(), "generic1"),
            3 => (format!("g2{sfx}({val2}, {val})"), "F[p1,p2>s]".into(), format!("F[{term2},{term}>s]"), "F[p2>s]".into(), "generic2"),
            4 => (format!("g3{sfx}({val})"), "F[p1>s]".into(), format!("F[{term}>s]"), "F[p1>s]".into(), "nested-generic"),
            5 => (format!("g4{sfx}([{val}])"), "F[N1[p1]>s]".into(), format!("F[N1[{term}]>s]"), "F[p1>s]".into(), "generic-array"),
            6 => (format!("g5{sfx}(({val2}, {val}))"), "F[T[p1,p2]>s]".into(), format!("F[T[{term2},{term}]>s]"), "F[p2>s]".into(), "generic-tuple"),
            _ => (format!("g2{sfx}({val}, {val})"), "F[p1,p2>s]".into(), format!("F[{term},{term}>s]"), "F[p2>s]".into(), "generic2-same"),
        };
        let pre = if expr.starts_with(&format!("c{q}.")) { format!("let c{q} = {val}\n") } else { String::new() };
        let req = format!("mono {sig} {inst} F[p0>s] {callty} {impls_term} tag+alt {impl_methods} {midx} #{form}:{}", c.name);
        cases.push(Case {
            req,
            expr: format!("{pre}println(\"#{q}\")\nprintln({expr})\n"),
            expect: format!("impl={k} method={m}"),
            what: format!("{form} call `{expr}` on {} (implementation {k} declares {:?})", c.name, impl_orders[k]),
            prelude: false,
            op_req: None,
        });
    }
    // closures in generic functions: each chosen form at 2-3 different implementations
    let mut q = ncalls;
    let nclos = 3 + rng.below(3) as usize;
    for _ in 0..nclos {
        let form_no = 1 + rng.below(9) as usize;
        let midx = rng.below(2) as usize;
        let m = ["tag", "alt"][midx];
        let sfx = ["t", "a"][midx];
        let ninst = 2 + rng.below(2) as usize;
        let start = rng.below(chosen.len() as u64) as usize;
        for j in 0..ninst {
            let k = (start + j) % chosen.len();
            let c = &uni[chosen[k]];
            let (term, val) = c.insts[rng.below(c.insts.len() as u64) as usize];
            let (expr, sig, inst, callty) = match form_no {
                1 => (format!("h1{sfx}({val})"), "F[p1>s]".to_string(), format!("F[{term}>s]"), "F[p1>s]"),
                7 => (format!("h7{sfx}({val}, 1)"), "F[p1,i>s]".to_string(), format!("F[{term},i>s]"), "F[p1>s]"),
                9 => (format!("h9{sfx}(Bx({val}), \"\")"), "F[N12[p1],s>s]".to_string(), format!("F[N12[{term}],s>s]"), "F[p1>s]"),
                n => (format!("h{n}{sfx}({val}, \"\")"), "F[p1,s>s]".to_string(), format!("F[{term},s>s]"), "F[p1>s]"),
            };
            let form = ["", "closure-generic-capture", "closure-concrete-capture", "closure-mixed-capture", "closure-mixed-nested", "closure-typed-by-param", "task-mixed-capture", "closure-mixed-int", "closure-calls-closure", "closure-generic-struct"][form_no];
            let req = format!("mono {sig} {inst} F[p0>s] {callty} {impls_term} tag+alt {impl_methods} {midx} #{form}:{}", c.name);
            cases.push(Case {
                req,
                expr: format!("println(\"#{q}\")\nprintln({expr})\n"),
                expect: format!("impl={k} method={m}"),
                what: format!("{form} call `{expr}` on {} (implementation {k} declares {:?})", c.name, impl_orders[k]),
                prelude: false,
                op_req: None,
            });
            q += 1;
        }
    }
    // interface methods as first-class VALUES (let, higher-order argument, array element, tuple component,
    // inside generic functions): the closure must run the method of that NAME of the type's implementation
    let nval = 4 + rng.below(3) as usize;
    for _ in 0..nval {
        let form_no = rng.below(7) as usize;
        let midx = rng.below(2) as usize;
        let m = ["tag", "alt"][midx];
        let sfx = ["t", "a"][midx];
        let ninst = 2 + rng.below(2) as usize;
        let start = rng.below(chosen.len() as u64) as usize;
        for j in 0..ninst {
            let k = (start + j) % chosen.len();
            let c = &uni[chosen[k]];
            let (term, val) = c.insts[rng.below(c.insts.len() as u64) as usize];
            let (pre, expr, sig, inst, callty) = match form_no {
                0 => (format!("let mv{q} = Tg.{m}\n"), format!("mv{q}({val})"), "F[>v]".to_string(), "F[>v]".to_string(), format!("F[{term}>s]")),
                1 => (String::new(), format!("apply1(Tg.{m}, {val})"), "F[>v]".to_string(), "F[>v]".to_string(), format!("F[{term}>s]")),
                2 => (format!("let ma{q} = [Tg.tag, Tg.alt]\n"), format!("ma{q}[{midx}]({val})"), "F[>v]".to_string(), "F[>v]".to_string(), format!("F[{term}>s]")),
                3 => (format!("let (mt{q}, _) = (Tg.{m}, 1)\n"), format!("mt{q}({val})"), "F[>v]".to_string(), "F[>v]".to_string(), format!("F[{term}>s]")),
                4 => (String::new(), format!("gv1{sfx}({val})"), "F[p1>s]".to_string(), format!("F[{term}>s]"), "F[p1>s]".to_string()),
                5 => (String::new(), format!("gv2{sfx}({val})"), "F[p1>s]".to_string(), format!("F[{term}>s]"), "F[p1>s]".to_string()),
                _ => (String::new(), format!("gv3{sfx}({val})"), "F[p1>s]".to_string(), format!("F[{term}>s]"), "F[p1>s]".to_string()),
            };
            let form = ["value-let", "value-higher-order", "value-in-array", "value-in-tuple", "value-generic-let", "value-generic-higher-order", "value-generic-array"][form_no];
            let req = format!("monov {sig} {inst} F[p0>s] {callty} {impls_term} tag+alt {impl_methods} {midx} #{form}:{}", c.name);
            cases.push(Case {
                req,
                expr: format!("{pre}println(\"#{q}\")\nprintln({expr})\n"),
                expect: format!("impl={k} method={m}"),
                what: format!("{form} `{pre}{expr}` on {} (implementation {k} declares {:?})", c.name, impl_orders[k]),
                prelude: false,
                op_req: None,
            });
            q += 1;
        }
    }
    if with_builtin || with_num {
        for b in builtin_cases(with_num) {
            // model: implementations [int, float, string, Sc]; the user type is N20[]
            let (selfty, pos) = if b.expr.contains("Sc(") { ("N20[]", 3) } else if b.expr.contains("1.5") { ("f", 1) } else { ("i", 0) };
            let nm = b.methods.split('+').count();
            let msig = if b.iface == "ToString" || b.iface == "Clone" { "F[p0>s]" } else { "F[p0,p0>b]" };
            let (sig, inst, callty) = if b.generic {
                if msig == "F[p0>s]" { ("F[p1>s]".to_string(), format!("F[{selfty}>s]"), "F[p1>s]".to_string()) } else { ("F[p1,p1>b]".to_string(), format!("F[{selfty},{selfty}>b]"), "F[p1,p1>b]".to_string()) }
            } else if msig == "F[p0>s]" {
                ("F[>v]".to_string(), "F[>v]".to_string(), format!("F[{selfty}>s]"))
            } else {
                ("F[>v]".to_string(), "F[>v]".to_string(), format!("F[{selfty},{selfty}>b]"))
            };
            let all = vec![b.methods; 4].join(";");
            let _ = nm;
            let req = format!("mono {sig} {inst} {msig} {callty} i;f;s;N20[] {} {all} {} #builtin:{}", b.methods, b.idx, b.iface);
            let mname = b.methods.split('+').nth(b.idx).unwrap();
            let expr = if b.expr.contains("[Sc(1), Sc(2)]") { b.expr.to_string() } else { b.expr.to_string() };
            cases.push(Case {
                req: if b.expr.contains("[Sc(1), Sc(2)]") {
                    // the array implementation of Clone calls the element implementation: selection at the element type
                    format!("mono F[p1>s] F[N20[]>s] F[p0>s] F[p1>s] i;f;s;N20[] {} {all} {} #builtin:{}:elements", b.methods, b.idx, b.iface)
                } else {
                    req
                },
                expr: format!("println(\"#{q}\")\n{expr}\n"),
                expect: format!("impl={pos} method={mname}"),
                what: format!("builtin interface {} via `{}`; expected tags {:?}", b.iface, b.expr, b.expect),
                prelude: pos != 3,
                op_req: if pos == 3 { operator_of(b.expr).map(|(o, c)| (format!("monoop {o} {} #{}", c as u8, b.iface), b.methods.to_string())) } else { None },
            });
            q += 1;
        }
    }
    if with_container {
        let items = [
            ("let bag = Bag([7, 8])\nprintln(\"#Q\")\nlet r = bag[1]\n", "Index", "index_get+index_set", 0usize, "Index.Bag.index_get"),
            ("println(\"#Q\")\nbag[0] = 5\n", "Index", "index_get+index_set", 1, "Index.Bag.index_set"),
            ("println(\"#Q\")\nfor it in bag {\n  let u = it\n}\n", "Iterable", "make_iterator", 0, "Iterable.Bag.make_iterator"),
            // compound assignment through the user Index: index_get runs first (index_set after it)
            ("println(\"#Q\")\nbag[1] += 5\n", "Index", "index_get+index_set", 0, "Index.Bag.index_get"),
            ("println(\"#Q\")\nbag[0] *= 2\n", "Index", "index_get+index_set", 0, "Index.Bag.index_get"),
        ];
        for (code, iface, methods, midx, _tag) in items {
            let all = vec![methods; 2].join(";");
            let req = format!("mono F[>v] F[>v] F[p0,i>i] F[N21[],i>i] N1[p5];N21[] {methods} {all} {midx} #builtin:{iface}");
            let mname = methods.split('+').nth(midx).unwrap();
            cases.push(Case {
                req,
                expr: code.replace("#Q", &format!("#{q}")),
                expect: format!("impl=1 method={mname}"),
                what: format!("builtin interface {iface} on a user container"),
                prelude: false,
                op_req: None,
            });
            q += 1;
        }
    }
    for c in &cases {
        src.push_str(&c.expr);
    }
    Prog { src, cases, impl_names: chosen.iter().map(|&ci| uni[ci].name).collect(), impl_orders, with_builtin: with_builtin || with_num, with_container, files: vec![], label_pairs: vec![] }
}

/// what ran, from the lines printed for one case
fn observe(lines: &[String], case: &Case) -> String {
    // user interface: the returned tag "k.method"
    if let Some(l) = lines.iter().find(|l| l.contains('.') && l.split('.').next().map(|p| p.parse::<usize>().is_ok()).unwrap_or(false)) {
        let mut it = l.split('.');
        let k = it.next().unwrap();
        let m = it.next().unwrap_or("?");
        return format!("impl={k} method={m}");
    }
    // builtin interfaces: tags printed by the user implementation; none = a prelude implementation ran
    let tags: Vec<&String> = lines.iter().filter(|l| l.contains(".Sc.") || l.contains(".Bag.") || l.contains(".BagIter.")).collect();
    let _ = case;
    if tags.is_empty() {
        return "impl=prelude".into();
    }
    let first = tags[0];
    let m = first.rsplit('.').next().unwrap_or("?");
    let pos = if first.contains(".Bag.") { 1 } else { 3 };
    format!("impl={pos} method={m}")
}


macro_rules! w {
    ($f:literal) => {
        include_str!(concat!("../../probes_bg8/", $f))
    };
}

/// constructs of the dispatch machinery outside the generated family; expected behaviour = what the
/// hand-monomorphised program does (Rust-side oracle)
fn fixed_probes() -> Vec<Probe> {
    let p = |name, main, want| Probe { name, main, files: &[], want };
    vec![
        p("num-user-type-minus-power", w!("A_01.abra"), Want::Out("5\n6\n49\n729\n")),
        p("num-user-type-compound-assign", w!("A_02.abra"), Want::Out("11 22\n8 19\n16 57\n4 3\n6 7\n30 40\n")),
        p(
            "user-index-compound-assign-order",
            w!("A_03.abra"),
            Want::Out("get 0,1\nset 0,1 := 7\n[ 1, 7, 3, 4 ]\nix\nget 1,0\nrhs\nset 1,0 := 30\n[ 1, 7, 30, 4 ]\nmk\nix\nget 1,0\nrhs\nset 1,0 := -7\nget 1,1\nset 1,1 := 2\nget 1,1\nset 1,1 := 0\n[ 1, 7, 30, 0 ]\n"),
        ),
        p(
            "qualified-interface-calls-at-builtin-types",
            w!("A_23.abra"),
            Want::Out("-1\n-0.125\ntrue\nfalse\ntrue\ntrue\n3\ntrue\n3\n[ 9, 2, 3 ]\nnil\n20\n3\n1024\n3.75\n-0.75\n3\n0.25\n8\ntrue\nfalse\ntrue\n"),
        ),
        // D86 (cab8299): unary minus on a user Num type is a diagnostic
        p("D86-unary-minus-user-num", w!("A_D1_unary_minus_user_num.abra"), Want::Rejected(&["Unary minus"])),
        p("wildcard-annotations", w!("B_10.abra"), Want::Out("[ 1, 2, 3 ]\n(1, s)\n")),
        p("type-qualified-channel-array-members", w!("B_12.abra"), Want::Out("9\n2\n")),
        p("extend-void-bool-string-tuple", w!("B_17.abra"), Want::Out("void!\nfalse\nabab\n7\n")),
        // D99: implement an interface for a function type, called through the interface name
        p("D99-impl-for-function-type-qualified", w!("B_20.abra"), Want::Out("3\n")),
        p(
            "D99-impl-for-function-type-all-call-forms",
            "interface Foo { fn foo(self) -> int }\nimplement Foo for int -> int {\n    fn foo(self) -> int { self(2) }\n}\nfn g(x: T Foo) -> int { Foo.foo(x) }\nlet f = x -> x + 1\nprintln(Foo.foo(f))\nprintln(f.foo())\nprintln(g(f))\n",
            Want::Out("3\n3\n3\n"),
        ),
        p("impl-for-function-type-generic", w!("B_20b.abra"), Want::Out("100\n")),
        p("impl-for-channel", w!("B_42.abra"), Want::Out("chan\nchan\n")),
        p("constraint-on-type-definition-parameter", w!("B_06.abra"), Want::Out("3\n")),
        p("generic-at-never", w!("B_22.abra"), Want::RuntimeError("panic")),
        p("impl-for-instantiated-array", w!("B_24.abra"), Want::Rejected(&["unless it has generic arguments"])),
        p("impl-for-instantiated-struct", w!("B_29.abra"), Want::Rejected(&["unless it has generic arguments"])),
        p("iterable-without-iterator-impl", w!("B_30.abra"), Want::Rejected(&["unable to determine `IterableItem`"])),
        // D98: the item type of an unknown `T Iterator` must not unify with int
        p("D98-output-type-of-constrained-variable", w!("B_31.abra"), Want::Rejected(&["`IteratorItem` of this type variable is not known here"])),
        // …and with the item type fixed by the constraint the function is sound and runs
        p(
            "D98-output-type-fixed-by-constraint",
            "fn first_int(it: T Iterator<IteratorItem=int>) -> int {\n    match Iterator.next(it) {\n        .some(x) -> x\n        .none -> 0\n    }\n}\nprintln(first_int([7, 8].make_iterator()) + 1)\n",
            Want::Out("8\n"),
        ),
        // D100: method syntax on a constrained type variable dispatches like the qualified call
        p(
            "D100-method-syntax-on-constrained-variable",
            "interface Foo { fn foo(self) -> string }\ntype Aa = { v: int }\ntype Bb = { v: int }\nimplement Foo for Aa { fn foo(self) -> string { \"Aa.foo\" } }\nimplement Foo for Bb { fn foo(self) -> string { \"Bb.foo\" } }\nimplement Foo for int { fn foo(self) -> string { \"int.foo\" } }\nfn viam(x: T Foo) -> string { x.foo() }\nfn vias(x: T ToString) -> string { x.str() }\nprintln(viam(Aa(1)))\nprintln(viam(Bb(2)))\nprintln(viam(3))\nprintln(vias(41))\n",
            Want::Out("Aa.foo\nBb.foo\nint.foo\n41\n"),
        ),
        // a for loop over a value of type `T Iterable`: a recorded limitation (rejected); if accepted it must count 3
        p("D100-for-over-constrained-iterable", w!("B_46.abra"), Want::RejectedOrOut("3\n")),
    ]
}

/// A lambda created in a GENERIC function, using a variable of the type parameter (directly or through a
/// nested lambda) and 1..8 int variables with distinct values that are combined positionally, so any
/// permutation of the capture slots shows; the variables are reassigned after the lambda was created
/// (it keeps the values of its creation).  Each function is instantiated at void (argument nil), at
/// int and at a user struct.  Oracle: the digits in order, computed here.
fn capture_order_probes() -> Vec<Probe> {
    let leak = |s: String| -> &'static str { Box::leak(s.into_boxed_str()) };
    let mut out = vec![];
    for n in 1..=8usize {
        for nested in [false, true] {
            let params: Vec<String> = (1..=n).map(|i| format!("c{i}: int")).collect();
            let vars: String = (1..=n).map(|i| format!("  var v{i} = c{i}\n")).collect();
            let mut sum = String::new();
            for i in 1..=n {
                if i > 1 {
                    sum.push_str(" + ");
                }
                sum.push_str(&format!("v{i} * {}", 10u64.pow((n - i) as u32)));
            }
            let body = if nested {
                format!("  let f = () -> {{\n    let g = () -> {{\n      let t = u\n      {sum}\n    }}\n    g()\n  }}\n")
            } else {
                format!("  let f = () -> {{\n    let t = u\n    {sum}\n  }}\n")
            };
            let reassign: String = (1..=n).map(|i| format!("  v{i} = 0\n")).collect();
            let args: String = (1..=n).map(|i| format!(", {i}")).collect();
            let src = format!(
                "type Sq = {{ w: int }}\nfn cap(u: T, {}) -> int {{\n{vars}{body}{reassign}  f()\n}}\nprintln(cap(nil{args}))\nprintln(cap(7{args}))\nprintln(cap(Sq(3){args}))\nprintln(cap(nil{args}))\n",
                params.join(", ")
            );
            let digits: String = (1..=n).map(|i| i.to_string()).collect();
            let want = format!("{digits}\n{digits}\n{digits}\n{digits}\n");
            out.push(Probe {
                name: leak(format!("capture-order-{n}-ints{}", if nested { "-nested" } else { "" })),
                main: leak(src),
                files: &[],
                want: Want::Out(leak(want)),
            });
        }
    }
    out
}

fn main() {
    let mut ctx = Ctx::from_env("C22");
    let n_prog = if ctx.quick() { 160 } else { 3000 };
    let mut progs = vec![];
    for i in 0..n_prog {
        progs.push(gen_prog(&mut ctx.rng, i));
    }
    let n_multi = if ctx.quick() { 12 } else { 200 };
    for _ in 0..n_multi {
        progs.push(multi_module_prog(&mut ctx.rng));
    }
    let results = par_map(&progs, |p| run_program_opts(&p.src, &RunOpts { files: p.files.clone(), ..Default::default() }));
    for (p, r) in progs.iter().zip(results) {
        ctx.count(&format!("impls:{}", p.impl_names.len()));
        for o in &p.impl_orders {
            ctx.count(if o[0] == "tag" { "impl-order:as-interface" } else { "impl-order:swapped" });
        }
        if p.with_builtin {
            ctx.count("program:builtin-interfaces");
        }
        if p.with_container {
            ctx.count("program:index-iterable");
        }
        if r.outcome != Outcome::Done {
            ctx.count(&format!("program:{}", r.outcome.tag()));
            let detail = match &r.outcome {
                Outcome::Rejected(t) => t.lines().filter(|l| l.starts_with("error")).take(3).collect::<Vec<_>>().join(" | "),
                Outcome::Crash(m) => m.lines().next().unwrap_or("").to_string(),
                o => o.tag(),
            };
            let mut text = p.src.clone();
            for (n, f) in &p.files {
                text.push_str(&format!("--- {n}\n{f}"));
            }
            ctx.spec_fail(format!("program does not run ({}): {detail}\n{text}", r.outcome.tag()));
            for c in &p.cases {
                ctx.case(c.req.clone(), format!("not-run {}", r.outcome.tag()));
            }
            continue;
        }
        // split output by markers
        let mut segs: std::collections::HashMap<usize, Vec<String>> = Default::default();
        let mut cur: Option<usize> = None;
        for line in r.out.lines() {
            if let Some(m) = line.strip_prefix('#') {
                cur = m.parse().ok();
                if let Some(c) = cur {
                    segs.entry(c).or_default();
                }
            } else if let Some(c) = cur {
                segs.entry(c).or_default().push(line.to_string());
            }
        }
        // two instantiations at same-named types: did each run its own code (two labels) or one body (one label)?
        for (qa, qb, lreq) in &p.label_pairs {
            let ok = |q: &usize| observe(&segs.get(q).cloned().unwrap_or_default(), &p.cases[*q]) == p.cases[*q].expect;
            ctx.case(lreq.clone(), if ok(qa) && ok(qb) { "distinct" } else { "same" });
        }
        if !p.files.is_empty() {
            ctx.count("program:two-modules-same-type-names");
        }
        let mut shown = false;
        for (q, c) in p.cases.iter().enumerate() {
            let lines = segs.get(&q).cloned().unwrap_or_default();
            let imp = observe(&lines, c);
            let form = c.req.rsplit('#').next().unwrap_or("").split(':').next().unwrap_or("").to_string();
            ctx.count(&format!("form:{form}"));
            if c.prelude {
                if imp != "impl=prelude" {
                    ctx.spec_fail(format!("{}: a user implementation ran (`{imp}`, output {:?}) for a builtin type", c.what, lines));
                }
                continue;
            }
            if imp != c.expect {
                // the whole program goes with the first failure of a program
                let prog = if shown {
                    String::new()
                } else {
                    let mut t = format!("\nprogram:\n--- main.abra\n{}", p.src);
                    for (n, f) in &p.files {
                        t.push_str(&format!("--- {n}\n{f}"));
                    }
                    t
                };
                shown = true;
                ctx.spec_fail(format!("{}: ran `{imp}` (output {:?}), the implementation declared for the type is `{}`{prog}", c.what, lines, c.expect));
            }
            if let Some((oreq, methods)) = &c.op_req {
                // the method the operator was lowered to, read off the tag the user implementation printed
                let tag = lines.iter().find(|l| l.contains(".Sc.")).cloned().unwrap_or_default();
                let mut it = tag.split('.');
                let iface = it.next().unwrap_or("?").to_string();
                let m = it.nth(1).unwrap_or("?").to_string();
                let idx = methods.split('+').position(|x| x == m).map(|i| i.to_string()).unwrap_or("?".into());
                ctx.case(oreq.clone(), format!("{iface} {m} {idx}"));
            }
            ctx.case(c.req.clone(), imp);
        }
    }
    run_probes(&mut ctx, &fixed_probes());
    run_probes(&mut ctx, &capture_order_probes());
    ctx.finish();
}
