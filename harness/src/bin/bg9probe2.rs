//! scratch probe (bG9): dump unoptimised assembly of main for a file
use vh::*;
fn main() {
    let a = std::env::args().nth(1).unwrap();
    let src = std::fs::read_to_string(&a).unwrap();
    let r = std::thread::Builder::new().stack_size(256 << 20).spawn(move || {
        abra_core::verif_asm::start_optimize_trace();
        let _ = abra_core::compile_bytecode("main.abra", provider(&src, &[]));
        let tr = abra_core::verif_asm::take_optimize_trace_display();
        for l in &tr[0] {
            println!("{l}");
            if l.trim() == "stop" && std::env::var("ALL").is_err() { break; }
        }
    }).unwrap().join();
    let _ = r;
}
