//! C34: editor analysis on incomplete code — crash search plus the search-model tie on partial ASTs.
//!
//! Texts: every prefix (thorough: at every char boundary; quick: line ends, positions behind a `.`, a stride)
//! of every corpus program (the Abra programs embedded in the repository's integration tests, read at run
//! time, plus hand-written programs with non-ASCII strings / comments / identifier-adjacent text), and
//! token- and char-level mutations of them, and grammar garbage.
//! Per text: `check_lsp`, `errors()`, then `definition_at`, `type_at`, `completions_at` at EVERY byte offset
//! 0..=len+2 (so also inside multi-byte characters and past the end), each under `catch_unwind`.
//! A panic is a failing input (`spec_fail`: query, offset, panic site, the text shrunk to its shortest
//! panicking prefix); one report per distinct panic site, the rest is counted.
//! For a sample of the texts the parsed (partial, error-recovered) file is also sent to the Lean model of
//! the two AST searches (`spantree …`), every offset — the model must pick the same node on damaged trees too.
use abra_core::check_lsp;
use std::cell::RefCell;
use std::collections::BTreeMap;
use std::panic::{AssertUnwindSafe, catch_unwind};
use vh::*;

#[path = "../lspgen.rs"]
mod lspgen;
use lspgen::{parse_debug, render_tree};
#[path = "../fecorpus.rs"]
mod fecorpus;
use fecorpus::*;
#[path = "../fework.rs"]
mod fework;
use fework::*;

thread_local! {
    static SITE: RefCell<String> = RefCell::new(String::new());
}

fn install_hook() {
    std::panic::set_hook(Box::new(|info| {
        let loc = info.location().map(|l| format!("{}:{}", l.file().rsplit('/').next().unwrap_or(""), l.line())).unwrap_or_default();
        SITE.with(|s| *s.borrow_mut() = loc);
    }));
}

fn site() -> String {
    SITE.with(|s| s.borrow().clone())
}

#[derive(Clone, Debug)]
struct Crash {
    query: &'static str,
    offset: usize,
    site: String,
    msg: String,
}

struct Job {
    label: String,
    text: String,
    model: bool,
}

#[derive(Default)]
struct Out {
    crashes: Vec<Crash>,
    cases: Vec<(String, String)>,
    queries: u64,
    errors: usize,
    answered: [u64; 3],
}

/// all queries on one text; at most one crash per (query, site) is kept
/// `text` = main file, optionally followed by `\x1e` and the text of `lib1.abra` (queries go to the main file)
fn analyze(text: &str, model: bool, tag: &str) -> Out {
    let mut out = Out::default();
    let (text, extra): (&str, Vec<(String, String)>) = match text.split_once('\x1e') {
        Some((m, l)) => (m, vec![("lib1.abra".to_string(), l.to_string())]),
        None => (text, vec![]),
    };
    let a = match catch_unwind(AssertUnwindSafe(|| check_lsp("main.abra", provider(text, &extra)))) {
        Ok(a) => a,
        Err(p) => {
            out.crashes.push(Crash { query: "check_lsp", offset: 0, site: site(), msg: panic_msg(p) });
            return out;
        }
    };
    match catch_unwind(AssertUnwindSafe(|| a.errors().len())) {
        Ok(n) => out.errors = n,
        Err(p) => out.crashes.push(Crash { query: "errors", offset: 0, site: site(), msg: panic_msg(p) }),
    }
    let maxoff = text.len() + 2;
    let mut push = |out: &mut Out, c: Crash| {
        if !out.crashes.iter().any(|d| d.query == c.query && d.site == c.site) {
            out.crashes.push(c);
        }
    };
    for off in 0..=maxoff {
        out.queries += 3;
        match catch_unwind(AssertUnwindSafe(|| a.definition_at(0, off).is_some())) {
            Ok(b) => out.answered[0] += b as u64,
            Err(p) => push(&mut out, Crash { query: "definition_at", offset: off, site: site(), msg: panic_msg(p) }),
        }
        match catch_unwind(AssertUnwindSafe(|| a.type_at(0, off).is_some())) {
            Ok(b) => out.answered[1] += b as u64,
            Err(p) => push(&mut out, Crash { query: "type_at", offset: off, site: site(), msg: panic_msg(p) }),
        }
        match catch_unwind(AssertUnwindSafe(|| !a.completions_at(0, off).is_empty())) {
            Ok(b) => out.answered[2] += b as u64,
            Err(p) => push(&mut out, Crash { query: "completions_at", offset: off, site: site(), msg: panic_msg(p) }),
        }
    }
    if model && out.crashes.is_empty() {
        if let Some(dv) = a.verif_ast_debug(0).and_then(|d| parse_debug(&d)) {
            let mut tree = String::new();
            render_tree(&dv, &mut tree);
            let ids = |v: Vec<Option<(u32, usize, usize)>>| {
                let mut s = String::from("ok ");
                for (i, x) in v.iter().enumerate() {
                    if i > 0 {
                        s.push(',');
                    }
                    match x {
                        Some((id, _, _)) => s.push_str(&id.to_string()),
                        None => s.push('-'),
                    }
                }
                s
            };
            let r = catch_unwind(AssertUnwindSafe(|| {
                (
                    (0..=maxoff).map(|o| a.verif_find_identifier(0, o)).collect::<Vec<_>>(),
                    (0..=maxoff).map(|o| a.verif_find_innermost(0, o)).collect::<Vec<_>>(),
                )
            }));
            if let Ok((i1, i2)) = r {
                out.cases.push((format!("spantree ident {maxoff} {tree}#{tag}"), ids(i1)));
                out.cases.push((format!("spantree inner {maxoff} {tree}#{tag}"), ids(i2)));
            }
        }
    }
    out
}

fn encode(o: &Out) -> String {
    let mut s = format!("Q\x1f{}\x1f{}\x1f{}\x1f{}\x1f{}", o.queries, o.errors, o.answered[0], o.answered[1], o.answered[2]);
    for c in &o.crashes {
        s.push_str(&format!("\nC\x1f{}\x1f{}\x1f{}\x1f{}", c.query, c.offset, c.site, c.msg.replace('\n', " ")));
    }
    for (r, i) in &o.cases {
        s.push_str(&format!("\nK\x1f{r}\x1f{i}"));
    }
    s
}

const QUERIES: [&str; 5] = ["check_lsp", "errors", "definition_at", "type_at", "completions_at"];

fn decode(s: &str) -> Out {
    let mut o = Out::default();
    for line in s.split('\n') {
        let f: Vec<&str> = line.split('\x1f').collect();
        match f[0] {
            "Q" if f.len() == 6 => {
                o.queries = f[1].parse().unwrap_or(0);
                o.errors = f[2].parse().unwrap_or(0);
                for k in 0..3 {
                    o.answered[k] = f[3 + k].parse().unwrap_or(0);
                }
            }
            "C" if f.len() == 5 => o.crashes.push(Crash {
                query: QUERIES.iter().find(|q| **q == f[1]).copied().unwrap_or("?"),
                offset: f[2].parse().unwrap_or(0),
                site: f[3].to_string(),
                msg: f[4].to_string(),
            }),
            "K" if f.len() == 3 => o.cases.push((f[1].to_string(), f[2].to_string())),
            _ => {}
        }
    }
    o
}

fn job_input(j: &Job) -> String {
    format!("{}\x1f{}\x1f{}", if j.model { "M" } else { "-" }, j.label.replace(' ', "_"), j.text)
}

/// the shortest prefix (at a char boundary, from a grid of at most ~120) of `text` that fails the same way:
/// `want` = Some((query, site)) for a panic, None for a dead worker
fn shrink(text: &str, want: Option<(&str, &str)>, n_workers: usize) -> (String, usize) {
    let bounds: Vec<usize> = text.char_indices().map(|(i, _)| i).chain(std::iter::once(text.len())).collect();
    let step = (bounds.len() / (if want.is_none() { 28 } else { 120 })).max(1);
    let cuts: Vec<usize> = bounds.iter().step_by(step).copied().collect();
    let inputs: Vec<String> = cuts.iter().map(|&b| format!("-\x1fshrink\x1f{}", &text[..b])).collect();
    let rs = run_workers(&["--worker"], &inputs, n_workers, std::time::Duration::from_secs(10));
    for (b, r) in cuts.iter().zip(rs) {
        match (&r, want) {
            (Res::Died(_), None) => return (text[..*b].to_string(), 0),
            (Res::Ok(s), Some((q, site))) => {
                if let Some(c) = decode(s).crashes.iter().find(|c| c.query == q && c.site == site) {
                    return (text[..*b].to_string(), c.offset);
                }
            }
            _ => {}
        }
    }
    (text.to_string(), 0)
}

fn main() {
    if std::env::args().nth(1).as_deref() == Some("--worker") {
        install_hook();
        worker_loop(|input| {
            let mut it = input.splitn(3, '\x1f');
            let model = it.next() == Some("M");
            let tag = it.next().unwrap_or("").to_string();
            let text = it.next().unwrap_or("");
            encode(&analyze(text, model, &tag))
        });
        return;
    }
    let mut ctx = Ctx::from_env("C34");
    let quick = ctx.quick();
    let corpus = corpus();
    ctx.notes.push(format!("corpus: {} programs ({} bytes)", corpus.len(), corpus.iter().map(|c| c.1.len()).sum::<usize>()));
    let mut jobs: Vec<Job> = vec![];
    let n_mut = if quick { 12 } else { 200 };
    for (ci, (name, text)) in corpus.iter().enumerate() {
        // quick: a rotating third of the corpus gets the prefix treatment, all of it gets mutations
        let do_prefixes = !quick || (ci as u64 + ctx.seed) % 3 == 0 || name.starts_with("own");
        if do_prefixes {
            for (k, b) in prefixes(text, !quick, 9).into_iter().enumerate() {
                jobs.push(Job { label: format!("prefix:{name}@{b}"), text: text[..b].to_string(), model: k % (if quick { 6 } else { 40 }) == 0 });
            }
        }
        jobs.push(Job { label: format!("whole:{name}"), text: text.clone(), model: true });
        for k in 0..n_mut {
            let (mut t, mut op) = mutate(&mut ctx.rng, text);
            if ctx.rng.chance(1, 4) {
                let (t2, op2) = mutate(&mut ctx.rng, &t);
                t = t2;
                op = op2;
            }
            jobs.push(Job { label: format!("mut:{op}:{name}"), text: t, model: k % (if quick { 6 } else { 50 }) == 0 });
        }
    }
    for k in 0..(if quick { 300 } else { 5000 }) {
        let t = garbage(&mut ctx.rng);
        jobs.push(Job { label: "garbage".into(), text: t, model: k % 10 == 0 });
    }
    // self-referential definitions through every type constructor; generic names with every type-argument count
    for (k, (label, text)) in infinite_type_texts().into_iter().chain(arity_texts()).chain(illformed_decl_texts()).chain(diverging_texts()).chain(literal_edge_texts()).chain(default_binding_texts()).chain(default_context_texts()).chain(namespace_texts()).chain(assignment_texts()).enumerate() {
        jobs.push(Job { label, text, model: k % 25 == 0 });
    }
    // editing states: balanced skeletons, truncated identifiers, shuffled items, impl / extend headers
    for (ci, (name, text)) in corpus.iter().enumerate() {
        let (bs, ts) = if quick {
            (balanced_states(text, 11, ci), identifier_truncations(text, false, 13, ci))
        } else {
            (balanced_states(text, 1, 0), identifier_truncations(text, true, 1, 0))
        };
        for t in bs {
            jobs.push(Job { label: format!("edit:balanced:{name}"), text: t, model: false });
        }
        for t in ts {
            jobs.push(Job { label: format!("edit:truncated-ident:{name}"), text: t, model: false });
        }
        for t in item_shuffles(&mut ctx.rng, text, if quick { 1 } else { 12 }) {
            jobs.push(Job { label: format!("edit:items-shuffled:{name}"), text: t, model: false });
        }
    }
    for (label, text) in if quick { call_shape_texts(2, false) } else { call_shape_texts(3, true) } {
        jobs.push(Job { label, text, model: false });
    }
    for (k, (label, text)) in impl_header_texts().into_iter().enumerate() {
        jobs.push(Job { label, text, model: k % 40 == 0 });
    }
    // dot completion behind every kind of receiver: in the stream (every offset, worker processes) …
    let compl = completion_texts();
    for (label, text, _, _, _) in &compl {
        jobs.push(Job { label: label.clone(), text: text.clone(), model: false });
    }
    // … and against their expected answers (in process; a panic is caught and reported with text and offset)
    for (label, text, off, must, empty) in &compl {
        let (main, extra): (&str, Vec<(String, String)>) = match text.split_once('\x1e') {
            Some((m, l)) => (m, vec![("lib1.abra".to_string(), l.to_string())]),
            None => (text.as_str(), vec![]),
        };
        let r = catch_unwind(AssertUnwindSafe(|| {
            let a = check_lsp("main.abra", provider(main, &extra));
            a.completions_at(0, *off).into_iter().map(|c| c.label).collect::<Vec<String>>()
        }));
        ctx.count("completion-oracle");
        match r {
            Err(p) => ctx.spec_fail(format!("completions_at panics ({}) at byte offset {off} of the text {:?} ({label})", panic_msg(p), main)),
            Ok(labels) => {
                let missing: Vec<&&str> = must.iter().filter(|m| !labels.iter().any(|l| l == **m)).collect();
                if !missing.is_empty() || (*empty && !labels.is_empty()) {
                    ctx.spec_fail(format!(
                        "completions_at at byte offset {off} of {:?} ({label}) answers {:?}; expected {}",
                        main, labels.iter().take(12).collect::<Vec<_>>(),
                        if *empty { "nothing".to_string() } else { format!("to contain {:?}", must) }
                    ));
                }
            }
        }
    }
    // the entry points of the API on degenerate arguments
    {
        let r = catch_unwind(|| {
            let mut notes = vec![];
            // a main file that does not exist
            let a = check_lsp("main.abra", abra_core::MockFileProvider::new(Default::default()));
            if a.errors().is_empty() {
                notes.push("check_lsp on a missing main file reports no error".to_string());
            }
            for off in [0usize, 1, 7] {
                if a.definition_at(0, off).is_some() || a.type_at(0, off).is_some() || !a.completions_at(0, off).is_empty() {
                    notes.push(format!("a query at offset {off} answers although the main file does not exist"));
                }
            }
            // file ids that do not exist
            let b = check_lsp("main.abra", provider("let v = [1]\nv.\n", &[]));
            for fid in [7u32, 99, u32::MAX] {
                if !b.completions_at(fid, 14).is_empty() || b.definition_at(fid, 4).is_some() || b.type_at(fid, 4).is_some() {
                    notes.push(format!("a query on file id {fid}, which does not exist, answers"));
                }
            }
            if b.file_id_for_path(std::path::Path::new("nothere.abra")).is_some() {
                notes.push("file_id_for_path finds a file that was never loaded".to_string());
            }
            // D94: a main file named prelude.abra
            let mut m: std::collections::HashMap<std::path::PathBuf, String> = Default::default();
            m.insert("prelude.abra".into(), "println(1)\n".to_string());
            let c = check_lsp("prelude.abra", abra_core::MockFileProvider::new(m));
            let _ = c.errors();
            let _ = (c.definition_at(0, 0), c.type_at(0, 0), c.completions_at(0, 0));
            notes
        });
        ctx.count("api-edge-cases");
        match r {
            Err(p) => ctx.spec_fail(format!("editor API panics on a degenerate argument (missing main file / unknown file id / main file named prelude.abra): {}", panic_msg(p))),
            Ok(notes) => {
                for n in notes {
                    ctx.spec_fail(n);
                }
            }
        }
    }
    let nw = n_threads();
    // regression inputs: the confirmed crashes whose fixes have landed (fecorpus::GATES); a crash is a failing input
    let gate_inputs: Vec<String> = GATES.iter().map(|(id, t)| format!("-\x1fgate:{id}\x1f{t}")).collect();
    let gate_res = run_workers(&["--worker"], &gate_inputs, GATES.len(), std::time::Duration::from_secs(20));
    for ((id, text), r) in GATES.iter().zip(gate_res) {
        let crashed = match &r {
            Res::Died(why) => Some(format!("takes the process down ({why})")),
            Res::Ok(s) => {
                let o = decode(s);
                if o.crashes.is_empty() { None } else { Some(format!("panics ({:?})", o.crashes[0])) }
            }
        };
        match crashed {
            Some(how) => ctx.spec_fail(format!("regression input {id} (a confirmed defect, see DESIGN §7): the front end {how} on {:?}", text)),
            None => ctx.count("regression-probe:pass"),
        }
    }
    let inputs: Vec<String> = jobs.iter().map(job_input).collect();
    let results = run_workers(&["--worker"], &inputs, nw, std::time::Duration::from_secs(40));
    let mut seen: BTreeMap<(String, String), u64> = BTreeMap::new();
    let mut queries = 0u64;
    for (j, r) in jobs.iter().zip(results) {
        let kind = j.label.split(':').take(if j.label.starts_with("mut") || j.label.starts_with("inftype") || j.label.starts_with("arity") || j.label.starts_with("illdecl") || j.label.starts_with("diverge") || j.label.starts_with("litedge") || j.label.starts_with("defbind") || j.label.starts_with("edit") || j.label.starts_with("implhdr") || j.label.starts_with("callshape") || j.label.starts_with("defctx") || j.label.starts_with("nsuse") || j.label.starts_with("assign") || j.label.starts_with("complete") { 2 } else { 1 }).collect::<Vec<_>>().join(":");
        ctx.count(&format!("text:{kind}"));
        if !j.text.is_ascii() {
            ctx.count("text:non-ascii");
        }
        let o = match r {
            Res::Ok(s) => decode(&s),
            Res::Died(why) => {
                let n = seen.entry(("process".to_string(), why.to_string())).or_insert(0);
                *n += 1;
                if *n <= 2 {
                    let (small, _) = shrink(&j.text, None, nw);
                    ctx.spec_fail(format!(
                        "editor analysis takes the host process down ({why}: {}) on the text {:?} (shortest failing prefix of {})",
                        if why == "abort" { "stack overflow or abort inside check_lsp or a query" } else { "no answer after 300 s of CPU time when run alone" },
                        small, j.label
                    ));
                }
                continue;
            }
        };
        ctx.count(if o.errors > 0 { "analysis:diagnostics" } else { "analysis:clean" });
        queries += o.queries;
        *ctx.hist.entry("answered:definition_at".into()).or_insert(0) += o.answered[0];
        *ctx.hist.entry("answered:type_at".into()).or_insert(0) += o.answered[1];
        *ctx.hist.entry("answered:completions_at".into()).or_insert(0) += o.answered[2];
        for c in &o.crashes {
            let key = (c.query.to_string(), c.site.clone());
            let n = seen.entry(key).or_insert(0);
            *n += 1;
            if *n == 1 {
                let (small, off) = shrink(&j.text, Some((c.query, &c.site)), nw);
                ctx.spec_fail(format!(
                    "{} panics at {} ({}) at byte offset {} of the text {:?} (shortest panicking prefix of {})",
                    c.query, c.site, c.msg, off, small, j.label
                ));
            }
        }
        for (req, imp) in o.cases {
            ctx.case(req, imp);
        }
    }
    for ((q, s), n) in &seen {
        *ctx.hist.entry(format!("crash:{q}@{s}")).or_insert(0) += n;
    }
    ctx.notes.push(format!("texts={} queries={} distinct failure sites={}", jobs.len(), queries, seen.len()));
    *ctx.hist.entry("queries".into()).or_insert(0) += queries;
    ctx.finish();
}
