//! ad-hoc probe (bG3 scratch, not part of any check): each stdin line (with \n written as literal "\\n" if arg "esc")
use std::io::BufRead;
fn main() {
    let mode = std::env::args().nth(1).unwrap_or("parse".into());
    let stdin = std::io::stdin();
    let mut all = String::new();
    for line in stdin.lock().lines() {
        let line = line.unwrap();
        if mode == "run" { all.push_str(&line); all.push('\n'); continue; }
        let src = line.replace("\\n", "\n");
        match mode.as_str() {
            "parse" => println!("{:?} => {}", src, abra_core::verif_parse_expr(&src)),
            "lex" => println!("{:?} => {:?}", src, abra_core::verif_lex(&src)),
            _ => {}
        }
    }
    if mode == "run" {
        let r = vh::run_program(&all);
        println!("{:?}\n---\n{}\n---\n{}", r.outcome, r.out, r.err_text);
    }
}
