//! C01 correspondence: no internal fault on accepted programs.
//!  (1) search: every generated program of every tier (plus the nesting streams with tasks) and the repository
//!      corpus (the string literals of abra_core/tests/integration/e2e_bytecode.rs, extracted from the current tree
//!      at run time) is compiled and run under the step budgets {1, 2, 3, 7, 100, 1000}; a host panic, an
//!      `internal(...)` error kind or a compiler panic on a checker-accepted program is a failing input (`spec_fail`);
//!  (2) tie of the VM-core model: every generated F0 program is compiled by the model compiler and run by the model
//!      VM (`vmrun …`): outcome kind and output must equal the real compiler + VM;
//!  (3) the former D21 fault witness (operand left behind by `break`; repaired by 0c43abd) is a hard regression program;
//!  (4) coverage-guided template families with Rust oracles (harness/src/bg9cov.rs): byte intrinsics out of range, void
//!      struct fields, intrinsic function values, frames beyond 16384 slots, the former WrongType faults D87/D96/D97/D98.
#[path = "../bg9cov.rs"]
mod bg9cov;
#[path = "../progen.rs"]
mod progen;
use progen::run::*;
use progen::*;
use std::panic::{AssertUnwindSafe, catch_unwind};
use vh::*;

const BUDGETS: [u32; 6] = [1, 2, 3, 7, 100, 1000];

#[derive(Clone, Debug)]
enum R {
    Rejected,
    Fine(String),
    Bad(String),
}

/// run under every budget; `Bad` describes the first internal fault
fn run_all(src: &str, files: &[(String, String)]) -> R {
    match catch_unwind(AssertUnwindSafe(|| abra_core::check("main.abra", provider(src, files)))) {
        Err(p) => return R::Bad(format!("checker panic: {}", one_line(&panic_msg(p)))),
        Ok(Err(_)) => return R::Rejected,
        Ok(Ok(())) => {}
    }
    let mut kinds = vec![];
    for b in BUDGETS {
        let r = run_program_opts(src, &RunOpts { budgets: vec![b], max_steps: 1_500_000, files: files.to_vec() });
        match &r.outcome {
            Outcome::Crash(m) => return R::Bad(format!("budget {b}: host panic: {}", one_line(m))),
            Outcome::Error(k) if k.starts_with("internal") => return R::Bad(format!("budget {b}: {k}")),
            Outcome::Rejected(_) => return R::Bad(format!("budget {b}: accepted by check but compile_bytecode reports diagnostics")),
            o => kinds.push(o.tag()),
        }
    }
    R::Fine(kinds[0].clone())
}

/// the raw string literals of the e2e test file
fn corpus() -> Vec<String> {
    let text = std::fs::read_to_string("/repo/abra_core/tests/integration/e2e_bytecode.rs").unwrap_or_default();
    let mut out = vec![];
    let mut rest = text.as_str();
    while let Some(i) = rest.find("r#\"") {
        let after = &rest[i + 3..];
        match after.find("\"#") {
            Some(j) => {
                // programs that declare their own host functions need their embedder: not runnable here
                if !after[..j].contains("#host") {
                    out.push(after[..j].to_string());
                }
                rest = &after[j + 2..];
            }
            None => break,
        }
    }
    out
}

const STR_PAIRS: [(&str, &str); 11] = [
    ("abc", "abc"), ("ab", "abc"), ("abc", "ab"), ("abc", "abd"), ("abd", "abc"), ("abcx", "abdy"), ("abdy", "abcx"),
    ("x", "abc"), ("", "a"), ("a", ""), ("", ""),
];
const STR_OPS: [(&str, fn(&str, &str) -> bool); 6] = [
    ("==", |a, b| a.as_bytes() == b.as_bytes()),
    ("!=", |a, b| a.as_bytes() != b.as_bytes()),
    ("<", |a, b| a.as_bytes() < b.as_bytes()),
    ("<=", |a, b| a.as_bytes() <= b.as_bytes()),
    (">", |a, b| a.as_bytes() > b.as_bytes()),
    (">=", |a, b| a.as_bytes() >= b.as_bytes()),
];

/// string comparisons in operand positions, each followed in the same thread by further string operations whose
/// operands are fresh temporaries on the operand stack; expected output from byte-wise comparison in Rust
fn string_templates(rng: &mut Rng, n: usize) -> Vec<(String, String, String)> {
    let mut v = vec![];
    let pre = "fn show(b: bool, s: string) -> string {\n  s .. \":\" .. b\n}\nfn pick(b: bool, n: int, s: string) -> int {\n  if b { n } else { if s == \"\" { n + 1 } else { n + 2 } }\n}\n";
    let all: Vec<(usize, usize)> = (0..STR_PAIRS.len()).flat_map(|p| (0..6).map(move |o| (p, o))).collect();
    for k in 0..n {
        // every (pair, operator) at least once, then random ones
        let (p1, o1) = if k < all.len() { all[k] } else { (rng.below(11) as usize, rng.below(6) as usize) };
        let (p2, o2) = (rng.below(11) as usize, rng.below(6) as usize);
        let ((a, b), (c, d)) = (STR_PAIRS[p1], STR_PAIRS[p2]);
        let ((n1, f1), (n2, f2)) = (STR_OPS[o1], STR_OPS[o2]);
        let (r1, r2) = (f1(a, b), f2(c, d));
        let (s, t) = (*rng.pick(&["p", "qq", ""]), *rng.pick(&["r", "st", ""]));
        let src = format!(
            "{pre}println(show(({a:?} {n1} {b:?}), ({s:?} .. {t:?})))\n\
             println((({a:?} {n1} {b:?}) == ({c:?} {n2} {d:?})))\n\
             println(\"x\" .. (if ({a:?} {n1} {b:?}) {{ \"y\" }} else {{ \"n\" }}))\n\
             println(pick((({a:?} .. \"\") {n1} (\"\" .. {b:?})) and ({c:?} {n2} {d:?}), 3, ({s:?} .. {t:?})))\n\
             println((({a:?} {n1} {b:?}) or (({c:?} .. {s:?}) {n2} ({d:?} .. {s:?}))))\n\
             println(\"done\")\n"
        );
        let st = format!("{s}{t}");
        let exp = format!(
            "{st}:{r1}\n{}\nx{}\n{}\n{}\ndone\n",
            r1 == r2,
            if r1 { "y" } else { "n" },
            if r1 && r2 { 3 } else if st.is_empty() { 4 } else { 5 },
            r1 || f2(&format!("{c}{s}"), &format!("{d}{s}")),
        );
        v.push((format!("{a:?} {n1} {b:?} / {c:?} {n2} {d:?}"), src, exp));
    }
    v
}

/// `match` on products with void components (no stack slot) in operand position: an earlier arm fails on a refutable
/// sub-pattern, a later arm is taken; the failure clean-up must pop exactly the remaining non-void components
fn product_void_templates() -> Vec<(String, String, String)> {
    let mut v = vec![];
    let defs = "type Sv = {\n  a: int\n  b: string\n  z: void\n}\ntype Vv =\n  | Cc(bool, void)\n  | Dd(int, void, int)\n  | Ee\n\
        fn t2(p: (int, void)) -> int {\n  let s = 1000\n  let r = 10 + match p {\n    (1, _) -> 1\n    (2, nil) -> 2\n    (_, _) -> 9\n  }\n  s + r\n}\n\
        fn t3(p: (int, string, void)) -> string {\n  let tag = \"p:\"\n  tag .. match p {\n    (7, \"a\", _) -> \"7a\"\n    (7, \"b\", _) -> \"7b\"\n    (_, _, _) -> \"other\"\n  }\n}\n\
        fn tm(p: (void, int, void, bool)) -> int {\n  100 + match p {\n    (_, 1, _, true) -> 1\n    (nil, 1, nil, false) -> 2\n    (_, k, _, _) -> k\n  }\n}\n\
        fn ts(p: Sv) -> int {\n  5 + match p {\n    Sv(1, \"x\", _) -> 1\n    Sv(1, \"y\", nil) -> 2\n    Sv(n, _, _) -> n * 10\n  }\n}\n\
        fn tv(p: Vv) -> int {\n  7 + match p {\n    .Cc(true, _) -> 1\n    .Cc(false, nil) -> 2\n    .Dd(1, _, 2) -> 3\n    .Dd(1, _, k) -> k\n    .Dd(a, _, b) -> a + b\n    .Ee -> 0\n  }\n}\n";
    let src = format!(
        "{defs}println(t2((1, nil)))\nprintln(t2((2, nil)))\nprintln(t2((3, nil)))\n\
         println(t3((7, \"a\", nil)))\nprintln(t3((7, \"b\", nil)))\nprintln(t3((8, \"b\", nil)))\n\
         println(tm((nil, 1, nil, true)))\nprintln(tm((nil, 1, nil, false)))\nprintln(tm((nil, 5, nil, false)))\n\
         println(ts(Sv(1, \"x\", nil)))\nprintln(ts(Sv(1, \"y\", nil)))\nprintln(ts(Sv(4, \"y\", nil)))\n\
         println(tv(Vv.Cc(true, nil)))\nprintln(tv(Vv.Cc(false, nil)))\nprintln(tv(Vv.Dd(1, nil, 2)))\nprintln(tv(Vv.Dd(1, nil, 6)))\nprintln(tv(Vv.Dd(3, nil, 4)))\nprintln(tv(Vv.Ee))\n\
         for q in [(1, nil), (3, nil)] {{\n  let (x, u) = q\n  println(x + t2(q))\n}}\nprintln(\"done\")\n"
    );
    let exp = "1011\n1012\n1019\np:7a\np:7b\np:other\n101\n102\n105\n6\n7\n45\n8\n9\n10\n13\n14\n7\n1012\n1022\ndone\n".to_string();
    v.push(("product-void".into(), src, exp));
    v
}

fn main() {
    let mut ctx = Ctx::from_env("C01");
    if std::env::var("VERIF_DEBUG").is_ok() {
        std::panic::set_hook(Box::new(|i| eprintln!("PANIC: {i}")));
    }
    let base = probe_shapes(&mut ctx);
    // coverage-guided template families with their own oracles (harness/src/bg9cov.rs)
    bg9cov::run_templates(&mut ctx, "C01");

    // ---- (3) D21 (repaired by 0c43abd): the former fault witness is a HARD regression program
    let d21 = "let r = 100 + { while true { let t = (\"x\", if true { break }) }\n 5 }\nprintln(r)\n";
    match run_all(d21, &[]) {
        R::Fine(_) => ctx.count("regression:D21:ok"),
        other => {
            ctx.count("regression:D21:FAILS");
            ctx.spec_fail(format!("regression of a repaired defect (D21): {other:?}\n{d21}"));
        }
    }

    // ---- string comparisons in operand positions (the resumable string instructions share progress registers)
    let mut srng = Rng::new(ctx.rng.next());
    let mut sts = string_templates(&mut srng, if ctx.quick() { 90 } else { 1500 });
    sts.extend(product_void_templates());
    let sres = par_map(&sts, |(_, src, _)| {
        BUDGETS.iter().map(|b| run_program_opts(src, &RunOpts { budgets: vec![*b], max_steps: 1_000_000, files: vec![] })).collect::<Vec<_>>()
    });
    for ((name, src, exp), rs) in sts.iter().zip(sres) {
        let mut bad: Option<String> = None;
        for (b, r) in BUDGETS.iter().zip(rs.iter()) {
            match &r.outcome {
                Outcome::Done if &r.out == exp => {}
                Outcome::Done => bad = Some(format!("budget {b}: output {:?}, expected {:?}", r.out, exp)),
                o => bad = Some(format!("budget {b}: {} {:?} (output so far {:?})", o.tag(), match o { Outcome::Crash(m) => one_line(m), _ => String::new() }, r.out)),
            }
            if bad.is_some() {
                break;
            }
        }
        match bad {
            None => ctx.count(if name == "product-void" { "product-void-template:ok" } else { "strcmp-template:ok" }),
            Some(why) => {
                ctx.count(if name == "product-void" { "product-void-template:FAILS" } else { "strcmp-template:FAILS" });
                ctx.spec_fail(format!("operand-position template ({name}): {why}\n{src}"));
            }
        }
    }

    // ---- (1) generated programs
    let per = if ctx.quick() { 70 } else { 2000 };
    struct Job {
        tier: u8,
        nesting: bool,
        prog: Program,
        src: String,
    }
    let mut jobs = vec![];
    for (tier, nesting) in [(0u8, false), (1, false), (2, false), (3, false), (3, true), (2, true)] {
        for k in 0..per {
            let mut r = Rng::new(ctx.rng.next());
            let o = GenOpts {
                tier,
                stmts: 4 + (k % 9),
                budget: 50 + (k as i32 % 6) * 12,
                nesting,
                lambda_boost: nesting && tier >= 3,
                big_ints: if k % 5 == 0 { 10 } else { 2 },
                // one third keeps break/continue at statement level (the historical DepthSafe shape)
                depth_safe: k % 3 == 0,
                ..base.clone()
            };
            let (prog, _) = generate(&mut r, o);
            let src = program_src(&prog);
            jobs.push(Job { tier, nesting, prog, src });
        }
    }
    let res = par_map(&jobs, |j| run_all(&j.src, &[]));
    let mut bad = vec![];
    for (i, (j, r)) in jobs.iter().zip(res.iter()).enumerate() {
        let key = format!("F{}{}", j.tier, if j.nesting { "n" } else { "" });
        match r {
            R::Rejected => ctx.count(&format!("{key}:generator-rejected")),
            R::Fine(k) => ctx.count(&format!("{key}:{k}")),
            R::Bad(_) => {
                ctx.count(&format!("{key}:INTERNAL-FAULT"));
                bad.push(i);
            }
        }
    }
    // shrink a few
    let shrunk: Vec<(usize, Program)> = par_map(&bad.iter().take(5).cloned().collect::<Vec<_>>(), |&i| {
        let mut cur = jobs[i].prog.clone();
        let mut limit = 250usize;
        'outer: loop {
            for c in shrink_candidates(&cur) {
                if limit == 0 {
                    break 'outer;
                }
                limit -= 1;
                if matches!(run_all(&program_src(&c), &[]), R::Bad(_)) {
                    cur = c;
                    continue 'outer;
                }
            }
            break;
        }
        (i, cur)
    });
    for (i, p) in shrunk {
        let src = program_src(&p);
        ctx.spec_fail(format!("internal fault on an accepted program: {:?} (originally {:?}); shrunk program:\n{}", run_all(&src, &[]), res[i], src));
    }
    for &i in bad.iter().skip(5) {
        ctx.spec_fail(format!("internal fault on an accepted program: {:?}\n{}", res[i], jobs[i].src));
    }

    // ---- repository corpus
    let cs = corpus();
    ctx.count(&format!("corpus:literals={}", cs.len() / 50 * 50));
    let files = core_modules();
    let cres = par_map(&cs, |src| run_all(src, &files));
    for (src, r) in cs.iter().zip(cres) {
        match r {
            R::Rejected => ctx.count("corpus:rejected-or-needs-other-files"),
            R::Fine(k) => ctx.count(&format!("corpus:{k}")),
            R::Bad(why) => {
                ctx.count("corpus:INTERNAL-FAULT");
                ctx.spec_fail(format!("internal fault on a program of the repository corpus: {why}\n{src}"));
            }
        }
    }

    // ---- (2) the VM-core model on F0
    let f0: Vec<&Job> = jobs.iter().filter(|j| j.tier == 0 && !j.nesting).collect();
    let real = par_map(&f0, |j| run_real(&j.src, &None, &[1000], 1_500_000));
    for (j, r) in f0.iter().zip(real) {
        if !r.accepted {
            continue;
        }
        // `done - <hex>` / `error:<k> - <hex>` → without the final-value column
        let ans = r.answer.replacen(" - ", " ", 1);
        ctx.count("vmrun:compared");
        ctx.case(format!("vmrun 20000 {}", program_sx(&j.prog)), ans);
    }
    ctx.finish();
}
