//! C29 correspondence: real programs (the string literals of /repo's e2e_bytecode.rs plus generated
//! ones) re-printed with comments inserted at token boundaries (comment text over the full alphabet,
//! never `*/`), with blank lines added and with the optional separators varied; the token-kind
//! stream of the real lexer must not change under comment insertion (spec), it is compared with the
//! Lean lexer model (case), and the outcome of the re-printed program must equal the original's (spec).
#[path = "../frontend.rs"]
#[allow(dead_code)]
mod frontend;
use frontend::*;
use vh::*;

/// the programs used by /repo's own end-to-end tests: `r#"…"#` and plain `"…"` literals bound to `src`
fn corpus() -> Vec<String> {
    let text = std::fs::read_to_string("/repo/abra_core/tests/integration/e2e_bytecode.rs").unwrap_or_default();
    let mut out = vec![];
    let b = text.as_bytes();
    let mut i = 0;
    while let Some(p) = text[i..].find("let src = ") {
        let start = i + p + "let src = ".len();
        if text[start..].starts_with("r#\"") {
            let s0 = start + 3;
            if let Some(e) = text[s0..].find("\"#") {
                out.push(text[s0..s0 + e].to_string());
                i = s0 + e;
                continue;
            }
        } else if b.get(start) == Some(&b'"') {
            // ordinary Rust string literal
            let mut s = String::new();
            let mut j = start + 1;
            let mut ok = false;
            let cs: Vec<char> = text[j..].chars().collect();
            let mut k = 0;
            while k < cs.len() {
                match cs[k] {
                    '"' => { ok = true; break; }
                    '\\' if k + 1 < cs.len() => {
                        match cs[k + 1] {
                            'n' => s.push('\n'), 't' => s.push('\t'), 'r' => s.push('\r'), '\\' => s.push('\\'),
                            '"' => s.push('"'), '\'' => s.push('\''), '0' => s.push('\0'),
                            '\n' => { k += 2; while k < cs.len() && cs[k].is_whitespace() { k += 1; } continue; }
                            c => { s.push('\\'); s.push(c); }
                        }
                        k += 2;
                        continue;
                    }
                    c => s.push(c),
                }
                k += 1;
            }
            j += k;
            if ok { out.push(s); }
            i = j.min(text.len());
            continue;
        }
        i = start;
    }
    out
}

const COMMENT_ALPHABET: [&str; 26] = ["a", "word ", " ", "*", "*", "/", "/", "**", "//", "/ *", "\"", "'", "\"\"\"", "\\", "é", "漢", "😀",
    "let", "{", "}", "(", "1.5", "\n", "\t", "= ", "#!"];

fn comment_text(rng: &mut Rng, allow_newline: bool) -> String {
    let n = rng.below(8);
    let mut s = String::new();
    for _ in 0..n {
        let w = COMMENT_ALPHABET[rng.below(COMMENT_ALPHABET.len() as u64) as usize];
        if w == "\n" && !allow_newline { continue; }
        s.push_str(w);
    }
    // never the closing delimiter
    while s.contains("*/") { s = s.replace("*/", "* /"); }
    s
}

struct Tok { tag: String, lo: usize, hi: usize }

fn lex(src: &str) -> Option<Vec<Tok>> {
    let r = std::panic::catch_unwind(|| abra_core::verif_lex(src)).ok()?;
    if !r.1.is_empty() { return None; }
    // spans are byte offsets (fix of D12); programs on which they are not usable are skipped
    for (_, _, lo, hi) in &r.0 {
        if *lo > *hi || (*hi <= src.len() && (!src.is_char_boundary(*lo) || !src.is_char_boundary(*hi))) { return None; }
    }
    Some(r.0.into_iter().map(|(tag, _, lo, hi)| Tok { tag, lo, hi }).collect())
}

#[derive(Clone, Copy, PartialEq)]
enum Mode { Comments, BlankLines, Separators, Continuation, Terminators }

/// Re-print `src`: the text of every token and every gap is kept; at token boundaries comments are
/// inserted / newlines doubled / `,`-newline and newline separators exchanged.
fn reprint(rng: &mut Rng, src: &str, toks: &[Tok], mode: Mode, hist: &mut Vec<&'static str>) -> String {
    let mut out = String::new();
    let mut prev_end = 0usize;
    let mut depth: i32 = 0;
    let mut let_line = false;
    let mut attribute_line = false; // `#host` etc.: the newline after an attribute is not a statement end
    for (i, t) in toks.iter().enumerate() {
        if t.tag == "Pound" { attribute_line = true; }
        if t.tag == "Let" || t.tag == "Var" { let_line = true; }
        let lo = t.lo.min(src.len());
        let hi = t.hi.min(src.len());
        let gap = &src[prev_end..lo];
        let prev_tag = if i > 0 { toks[i - 1].tag.as_str() } else { "" };
        // ---- at the boundary after the previous token (before the gap text)
        // nothing may precede a `#!` line: it is only recognised at the very start of the file
        let before_shebang = i == 0 && src.starts_with("#!");
        if mode == Mode::Comments && !before_shebang && rng.chance(1, 3) {
            if t.tag == "Newline" && !gap.contains('\\') && !gap.contains('\n') && !gap.contains("/*") && rng.chance(1, 2) {
                // a line comment up to the newline (swallows the rest of the gap, which holds no token)
                out.push_str(" //");
                out.push_str(&comment_text(rng, false));
                hist.push("line-comment");
            } else {
                // `/` directly followed by `/*` would read `//`: keep them apart
                if prev_tag == "Slash" || out.ends_with('/') { out.push(' '); }
                out.push_str("/*");
                out.push_str(&comment_text(rng, true));
                out.push_str("*/");
                hist.push(match prev_tag { "" => "block-comment:at-start", "Newline" => "block-comment:after-newline",
                    "StringLit" => "block-comment:after-string", "IntLit" | "FloatLit" => "block-comment:after-number",
                    "Ident" => "block-comment:after-ident", _ => "block-comment:after-punct/keyword" });
            }
        }
        out.push_str(gap);
        match t.tag.as_str() {
            "OpenParen" | "OpenBracket" | "OpenBrace" => depth += 1,
            "CloseParen" | "CloseBracket" | "CloseBrace" => depth -= 1,
            _ => {}
        }
        let text = &src[lo..hi];
        let next_tag = toks.get(i + 1).map(|t| t.tag.as_str()).unwrap_or("");
        match (mode, t.tag.as_str()) {
            (Mode::BlankLines, "Newline") => {
                out.push_str(text);
                for _ in 0..rng.below(3) { out.push_str(if rng.chance(1, 3) { "  \n" } else { "\n" }); hist.push("blank-line"); }
            }
            (Mode::Continuation, "Plus" | "Minus" | "Star" | "Slash" | "Mod" | "Caret" | "EqEq" | "NotEq" | "DotDot" | "And" | "Or" | "Not"
                | "OpenParen" | "Comma" | "OpenBracket") if next_tag != "Newline" && next_tag != "Eof" && rng.chance(1, 2) => {
                // a line break (or comment + line break) in front of an operand: skipped at every operand start
                out.push_str(text);
                out.push_str(match rng.below(3) { 0 => "\n", 1 => " // c\n", _ => "\n\n   " });
                hist.push("continuation-line");
            }
            (Mode::Continuation, "Eq") if let_line && next_tag != "Newline" && rng.chance(1, 2) => {
                out.push_str("=\n");
                hist.push("continuation-after-=");
            }
            (Mode::Separators, "Comma") if next_tag == "Newline" && rng.chance(1, 2) => {
                hist.push("comma-newline→newline"); // the newline alone separates the items
            }
            (Mode::Separators, "Comma") if next_tag != "Newline" && rng.chance(1, 3) => {
                out.push_str(",\n");
                hist.push("comma→comma-newline");
            }
            (Mode::Separators, "Newline") if depth == 0 && !attribute_line
                && matches!(prev_tag, "Ident" | "IntLit" | "FloatLit" | "StringLit" | "CloseParen" | "CloseBracket" | "True" | "False")
                && matches!(next_tag, "Let" | "Var" | "Ident" | "Fn" | "Type" | "While" | "For" | "If" | "Match") && rng.chance(1, 2) => {
                out.push_str(";\n");
                hist.push("toplevel-newline→semicolon");
            }
            _ => out.push_str(text),
        }
        if t.tag == "Newline" { attribute_line = false; let_line = false; }
        prev_end = hi.max(prev_end);
    }
    if mode == Mode::Terminators {
        // terminate the LAST top-level item: `;` + line break / comment / blank lines / nothing before EOF
        let body = out.trim_end_matches(|c: char| c == ' ' || c == '\t' || c == '\n').to_string();
        let last_tag = toks.iter().rev().map(|t| t.tag.as_str()).find(|t| *t != "Newline" && *t != "Eof").unwrap_or("");
        if matches!(last_tag, "Ident" | "IntLit" | "FloatLit" | "StringLit" | "CloseParen" | "CloseBracket" | "CloseBrace" | "True" | "False")
            && !src.trim_end().ends_with("*/") && !body.lines().last().unwrap_or("").contains("//") {
            let tail = match rng.below(5) { 0 => ";\n", 1 => "; // done\n", 2 => ";\n\n\n", 3 => ";", _ => " ;\n  \n// end" };
            hist.push(match tail { ";" => "final-semicolon-eof", ";\n" => "final-semicolon-newline", _ => "final-semicolon-comment/blank-lines" });
            return format!("{body}{tail}");
        }
    }
    out
}

// ---------------------------------------------------------------- generated programs with explicit separator slots
fn gen_program(rng: &mut Rng) -> (String, String) {
    // returns (canonical spelling, a spelling with other separator choices)
    let mut a = String::new();
    let mut b = String::new();
    let n = 2 + rng.below(4);
    let mut stmts: Vec<(String, String)> = vec![];
    for i in 0..n {
        let k = 1 + rng.below(4);
        let items: Vec<String> = (0..k).map(|_| format!("{}", rng.below(50))).collect();
        let canon = items.join(", ");
        let mut alt = String::new();
        for (j, it) in items.iter().enumerate() {
            alt.push_str(it);
            if j + 1 < items.len() {
                alt.push_str(match rng.below(4) { 0 => ",", 1 => "\n", 2 => ",\n\n", _ => "\n\n   \n" });
            } else if rng.chance(1, 3) {
                alt.push_str(if rng.chance(1, 2) { "," } else { "\n" });
            }
        }
        let lead = if rng.chance(1, 3) { "\n\n" } else { "" };
        match rng.below(3) {
            0 => stmts.push((format!("let v{i} = [{canon}]"), format!("let v{i} = [{lead}{alt}]"))),
            1 => stmts.push((format!("let v{i} = f{k}({canon})"), format!("let v{i} = f{k}({lead}{alt})"))),
            _ => {
                let body_c: Vec<String> = items.iter().map(|x| format!("println({x})")).collect();
                let mut alt_b = String::new();
                for (j, s) in body_c.iter().enumerate() {
                    alt_b.push_str(s);
                    if j + 1 < body_c.len() { alt_b.push_str(match rng.below(3) { 0 => ";", 1 => "\n", _ => "\n\n" }); }
                }
                stmts.push((format!("if true {{ {} }}", body_c.join("; ")), format!("if true {{{lead} {alt_b} }}")));
            }
        }
    }
    // items terminated rather than separated: blocks, match arms, parameter/argument/array lists, struct body
    {
        let i = stmts.len();
        let (x, y) = (rng.below(9), rng.below(9));
        let t = |rng: &mut Rng| -> &'static str { *rng.pick(&[";", ";\n", "; // c\n", ";\n\n"]) };
        let c = |rng: &mut Rng| -> &'static str { *rng.pick(&[",", ",\n", ", // c\n", ",\n\n  "]) };
        stmts.push((format!("if true {{ println({x}); println({y}) }}"), format!("if true {{ println({x}){} println({y}){} }}", t(rng), t(rng))));
        stmts.push((format!("let v{} = match {x} {{ {x} -> {y}, _ -> 0 }}", i + 1), format!("let v{} = match {x} {{ {x} -> {y}{} _ -> 0{} }}", i + 1, c(rng), c(rng))));
        stmts.push((format!("let v{} = f2({x}, {y})", i + 2), format!("let v{} = f2({x}{} {y}{})", i + 2, c(rng), c(rng))));
        stmts.push((format!("let v{} = [{x}, {y}]", i + 3), format!("let v{} = [{x}{} {y}{}]", i + 3, c(rng), c(rng))));
        stmts.push((format!("let v{} = ({x}, {y})", i + 4), format!("let v{} = ({x}{} {y}{})", i + 4, c(rng), c(rng))));
    }
    let prelude = "fn f1(a) = a\nfn f2(a, b) = a + b\nfn f3(a, b, c) = a + b + c\nfn f4(a, b, c, d) = a + b + c + d\n";
    a.push_str(prelude);
    b.push_str(prelude);
    for (i, (c, alt)) in stmts.iter().enumerate() {
        a.push_str(c);
        a.push('\n');
        b.push_str(alt);
        b.push_str(match rng.below(3) { 0 => "\n", 1 => ";\n", _ => "\n\n\n" });
        if c.starts_with("let") {
            a.push_str(&format!("println(v{i})\n"));
            b.push_str(&format!("println(v{i})"));
            b.push_str(match rng.below(4) { 0 => "\n", 1 => ";\n", 2 => "; // c\n\n", _ => ";" });
            if !b.ends_with('\n') && i + 1 < stmts.len() { b.push('\n'); }
        }
    }
    (a, b)
}

fn outcome(src: &str) -> String {
    let r = run_program(src);
    match &r.outcome {
        Outcome::Done => format!("done:{}", r.out),
        Outcome::Error(k) => format!("error:{k}:{}", r.out),
        Outcome::Rejected(_) => "rejected".into(),
        o => o.tag(),
    }
}

fn kinds_only(lexed: &str) -> String { lexed.to_string() }

fn main() {
    let mut ctx = Ctx::from_env("C29");
    let quick = ctx.quick();
    let mut progs = corpus();
    ctx.notes.push(format!("corpus: {} programs from e2e_bytecode.rs", progs.len()));
    // a few hand-written ones: the D10 shapes, strings containing comment openers, comments containing quotes
    for p in ["let x = 1 /* a * b */ + 2\nprintln(x)\n", "let x = 8 /* a / b */ / 2\nprintln(x)\n",
              "let s = \"/* not a comment */ // neither\"\nprintln(s)\n", "println(1) // trailing \" quote\nprintln(2)\n",
              "let x = 4\nlet y = 3 + -x * 2\nprintln(y)\nprintln(true and not false)\nprintln(2 * -3 ^ 2)\nprintln(10 - -2 ^ 2)\n",
              "let x = 4\nlet zs = [-x, -1 ^ 2, (-x), 7 % -x]\nprintln(zs)\nlet b = false\nprintln(not b or not true)\nprintln(f2(-x, -3 % 2))\nfn f2(a, b) = a + -b\n",
              // shebang first line, attributes on methods inside `implement` / `extend`, attribute with arguments
              "#!/usr/bin/env abra\nprintln(42)\nlet s = \"#! not a shebang\"\nprintln(s)\n",
              "type Pt = { x: int }\ninterface Show2 {\n    fn show2(self) -> string\n}\nimplement Show2 for Pt {\n    #inline\n    fn show2(self) -> string { \"pt\" }\n}\nprintln(Pt(1).show2())\n",
              "type Pt = { x: int }\nextend Pt {\n    #inline\n    fn getx(self) -> int { self.x }\n}\nprintln(Pt(7).getx())\n",
              "#foreign(blocking)\nfn slow(x: int) -> int\n\nprintln(1)\n",
              "let t = (1,\n 2,\n 3)\nprintln(t)\n", "fn add(a, b) {\n  a + b\n}\nprintln(add(1,\n2))\n"] {
        progs.push(p.to_string());
    }
    let rounds = if quick { 2 } else { 12 };
    struct Job { orig: String, variant: String, mode: Mode, what: Vec<&'static str> }
    let mut jobs: Vec<Job> = vec![];
    let mut skipped = 0;
    for p in &progs {
        let Some(toks) = lex(p) else { skipped += 1; continue; };
        for r in 0..rounds {
            for mode in [Mode::Comments, Mode::BlankLines, Mode::Separators, Mode::Continuation, Mode::Terminators] {
                if mode != Mode::Comments && r >= (rounds + 1) / 2 { continue; }
                let mut what = vec![];
                let v = reprint(&mut ctx.rng, p, &toks, mode, &mut what);
                if v != *p { jobs.push(Job { orig: p.clone(), variant: v, mode, what }); }
            }
        }
    }
    // D85 (7fe8312): an operand on a continuation line may start with a prefix operator / negative literal
    for (one, two) in [("println(3 + -2 ^ 2)\n", "println(3 +\n -2 ^ 2)\n"), ("let x = 5\nprintln(3 + -x)\n", "let x = 5\nprintln(3 +\n -x)\n"),
                       ("let b = false\nprintln(true and not b)\n", "let b = false\nprintln(true and // c\n\n not b)\n"),
                       ("let x = 4\nlet r = -x * 2\nprintln(r)\n", "let x = 4\nlet r =\n -x * 2\nprintln(r)\n")] {
        jobs.push(Job { orig: one.to_string(), variant: two.to_string(), mode: Mode::Continuation, what: vec!["continuation-D85-probe"] });
    }
    // a `#!` first line (any text, also non-ASCII, comment openers, quotes) never changes the program
    for line in ["#!/usr/bin/env abra", "#!", "#! é 漢 \"q\" /* open", "#!x // y"] {
        let body = "let a = [1, 2]\nprintln(a)\nprintln(\"z\") // c\n";
        jobs.push(Job { orig: format!("\n{body}"), variant: format!("{line}\n{body}"), mode: Mode::Comments, what: vec!["shebang-line"] });
    }
    let n_gen = if quick { 150 } else { 2000 };
    for _ in 0..n_gen {
        let (a, b) = gen_program(&mut ctx.rng);
        jobs.push(Job { orig: a, variant: b, mode: Mode::Separators, what: vec!["generated-separators"] });
    }
    ctx.notes.push(format!("corpus programs skipped (lexer diagnostics / unusable spans): {skipped}"));

    // outcomes of the originals, once per distinct program
    let mut originals: Vec<String> = jobs.iter().map(|j| j.orig.clone()).collect();
    originals.sort();
    originals.dedup();
    let orig_out: std::collections::HashMap<String, String> =
        originals.iter().cloned().zip(par_map(&originals, |p| outcome(p))).collect();
    let results = par_map(&jobs, |j| (impl_lex(&j.orig, false), impl_lex(&j.variant, false), outcome(&j.variant)));

    for (j, (k0, k1, out1)) in jobs.iter().zip(results) {
        for w in &j.what { ctx.count(w); }
        ctx.count(match j.mode { Mode::Comments => "variant:comments", Mode::BlankLines => "variant:blank-lines", Mode::Separators => "variant:separators",
            Mode::Continuation => "variant:continuation-lines", Mode::Terminators => "variant:terminators" });
        let out0 = &orig_out[&j.orig];
        ctx.count(&format!("outcome:{}", out0.split(':').next().unwrap_or("")));
        if j.mode == Mode::Comments && kinds_only(&k0) != kinds_only(&k1) {
            ctx.spec_fail(format!("comment insertion changed the token kinds: original {:?} variant {:?}: `{k0}` vs `{k1}`", j.orig, j.variant));
        }
        if *out0 != out1 {
            ctx.spec_fail(format!("re-printed program behaves differently: original {:?} → `{out0}`, variant {:?} → `{out1}`", j.orig, j.variant));
        }
        ctx.case(format!("lexkinds {} #{}", hex_str(&j.variant), j.what.first().copied().unwrap_or("none")), k1);
    }
    // ---- top-level separator family: items, `;` and line breaks in every order; the verdict
    //      (accepted / rejected) is compared with the model of parse_file's item loop, so that a change
    //      which accepts MORE (a stray `;`) is seen as well as one which accepts less
    let mut seqs: Vec<Vec<&'static str>> = vec![
        vec!["i", ";"], vec!["i", ";", "nl"], vec!["i", ";", "nl", "nl", "nl"], vec!["i", "nl", "i", ";", "nl"], vec!["i", ";", "i", ";"],
        vec![";"], vec![";", "i"], vec!["nl", ";", "i"], vec!["i", ";", ";"], vec!["i", "nl", ";", "nl", "i"], vec!["i", ";", "nl", ";"],
        vec!["i", "i"], vec![], vec!["nl", "nl"], vec!["i", ";", "nl", "i", "nl", ";"],
    ];
    let n_seq = if quick { 400 } else { 4000 };
    for _ in 0..n_seq {
        let n = 1 + ctx.rng.below(8);
        seqs.push((0..n).map(|_| *ctx.rng.pick(&["i", "i", ";", "nl", "nl"])).collect());
    }
    struct SJob { words: Vec<&'static str>, src: String, expect_out: String }
    let sjobs: Vec<SJob> = seqs.into_iter().map(|ws| {
        let mut src = String::new();
        let mut out = String::new();
        let mut k = 0;
        for (i, w) in ws.iter().enumerate() {
            match *w {
                "i" => { k += 1; src.push_str(&format!("println({k})")); out.push_str(&format!("{k}\n")); }
                ";" => src.push_str(if ctx.rng.chance(1, 2) { ";" } else { " ; " }),
                _ => src.push_str(if ctx.rng.chance(1, 3) { " // c ; \n" } else { "\n" }),
            }
            if ws.get(i + 1) == Some(&"i") && *w == "i" { src.push(' '); }
        }
        SJob { words: ws, src, expect_out: out }
    }).collect();
    let sres = par_map(&sjobs, |j| outcome(&j.src));
    for (j, got) in sjobs.iter().zip(sres) {
        ctx.count("family:toplevel-separators");
        let verdict = if got.starts_with("done:") { "accept" } else if got == "rejected" { "reject" } else { "other" };
        ctx.count(&format!("toplevel:{verdict}"));
        if verdict == "accept" && got != format!("done:{}", j.expect_out) {
            ctx.spec_fail(format!("top-level program {:?} printed `{got}`, its items print {:?}", j.src, j.expect_out));
        }
        // spellings in which every `;` directly follows an item must be accepted (C29_toplevel_terminator)
        let well_formed = j.words.iter().enumerate().all(|(i, w)| *w != ";" || (i > 0 && j.words[i - 1] == "i"));
        if well_formed && verdict != "accept" {
            ctx.spec_fail(format!("the optional `;` after an item changed the verdict: {:?} is `{got}`", j.src));
        }
        ctx.case(format!("toplevel {} #{}", j.words.join(" "), if well_formed { "terminators" } else { "stray-semicolon" }), verdict.to_string());
    }
    ctx.finish();
}
