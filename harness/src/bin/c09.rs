//! C09 correspondence.
//! Property checks on the implementation (`spec_fail`), every run under the budgets {1,2,3,7,100} and two
//! random schedules:
//!  * order / once: in the hook's event log, per channel, the values popped are a prefix of the values
//!    pushed (compared as raw (bits, tag) — each pushed value popped at most once, in order);
//!  * content: producer/consumer programs (5 shapes, 7 payload kinds) print exactly what the same
//!    computation without tasks and channels prints (sequential oracle program, same final value);
//!    nested values (12 types) sent main→task and task→main arrive rendering exactly as written
//!    (rendering computed in Rust), are independent of later mutations on either side;
//!  * a blocked reader does not stop anybody else: an extra task blocked for ever on a never-written
//!    channel changes neither output nor value.
//! Model cases: the scheduler trace of one run per program (`sched …`: blocked reads, popped tokens, order)
//! and `heapcopy <value>` for what the reader received.
//! Repaired defect D23 (a message is a snapshot taken when it is written, fix 97d7808): hard regression runs —
//! mutation after the write (in process), writer finished before the read (child process), and the snapshot
//! stream (`heapsend` model requests).
#[path = "../sched_common.rs"]
mod sched_common;
#[path = "../sched_gen.rs"]
mod sched_gen;
#[path = "../sched_vals.rs"]
mod sched_vals;
use sched_common::*;
use sched_gen::*;
use sched_vals::*;
use vh::*;

fn host() -> impl FnMut(u16, &mut abra_core::vm::VmGreenThread, &mut String) -> Option<String> {
    prelude_host(&PRELUDE_HOSTS)
}

struct Job {
    src: String,
    class: String,
    /// expected output lines; None = take them from the oracle program
    expected: Option<Vec<String>>,
    oracle: Option<String>,
    model: Option<(String, usize)>,
    /// `heapalias` request: the answer is all printed lines joined by `;`
    alias_model: Option<String>,
    /// `heapsend` request (snapshots at write time): the answer is all printed lines joined by `;`
    send_model: Option<String>,
    scheds: Vec<Schedule>,
}

fn schedules(rng: &mut Rng) -> Vec<Schedule> {
    let mut v: Vec<Schedule> = [1u32, 2, 3, 7, 100].iter().map(|&b| Schedule::constant(b)).collect();
    for _ in 0..2 {
        let n = rng.range(2, 5);
        v.push(Schedule::cyc(&(0..n).map(|_| rng.range(1, 30) as u32).collect::<Vec<_>>()));
    }
    v
}

fn gen_value_job(rng: &mut Rng, i: usize) -> Job {
    let ty = ALL_TYS[i % ALL_TYS.len()];
    let v = gen_value(rng, ty);
    let show = ty.show();
    let nm = if ty.mutable() { rng.range(1, 3) as usize } else { 0 };
    let mut s = String::from(DECLS);
    s.push_str("let out: channel<string> = channel()\nlet ack: channel<bool> = channel()\nlet got: channel<bool> = channel()\n");
    s.push_str(&format!("let c: channel<{}> = channel()\n", ty.abra()));
    if rng.chance(1, 2) {
        // main -> task; main keeps the value, leaves it alone until the task has it, then mutates it
        let (tm, tv) = mutate(rng, "x", ty, &v, nm, 400);
        let (mm, mv) = mutate(rng, "v", ty, &v, nm, 600);
        s.push_str(&format!(
            "task {{\n  let x = c.read()\n  got.write(true)\n  let s1 = {show}(x)\n  out.write(s1)\n{}  let s2 = {show}(x)\n  out.write(s2)\n  ack.read()\n}}\n",
            indent(&tm, "  ")
        ));
        s.push_str(&format!("let v: {} = {}\nc.write(v)\ngot.read()\n{}", ty.abra(), expr(&v, ty), mm));
        s.push_str(&format!("let a = out.read()\nlet b = out.read()\nprintln(a)\nprintln(b)\nprintln({show}(v))\nack.write(true)\n"));
        Job {
            src: s,
            class: format!("value:main->task:{ty:?}"),
            expected: Some(vec![sexpr(&v), sexpr(&tv), sexpr(&mv)]),
            oracle: None,
            model: Some((sexpr(&v), 0)),
            alias_model: None,
            send_model: None,
            scheds: schedules(rng),
        }
    } else {
        // task -> main; the task keeps the value alive and untouched until main acknowledges, then mutates it
        let (rm, rv) = mutate(rng, "x", ty, &v, nm, 400);
        let (tm, tv) = mutate(rng, "v", ty, &v, nm, 600);
        s.push_str(&format!(
            "task {{\n  let v: {} = {}\n  c.write(v)\n  got.read()\n{}  let s1 = {show}(v)\n  out.write(s1)\n  ack.read()\n}}\n",
            ty.abra(),
            expr(&v, ty),
            indent(&tm, "  ")
        ));
        s.push_str(&format!(
            "let x = c.read()\nprintln({show}(x))\ngot.write(true)\n{}let a = out.read()\nprintln({show}(x))\nprintln(a)\nack.write(true)\n",
            rm
        ));
        Job {
            src: s,
            class: format!("value:task->main:{ty:?}"),
            expected: Some(vec![sexpr(&v), sexpr(&rv), sexpr(&tv)]),
            oracle: None,
            model: Some((sexpr(&v), 0)),
            alias_model: None,
            send_model: None,
            scheds: schedules(rng),
        }
    }
}

/// other ways to reach the channel instructions: element type `void` (members and the channel_read / channel_write
/// intrinsics — repaired defect D89), the intrinsics and the type-qualified members on an int channel, and
/// `channel` used as a first-class constructor value
fn gen_chan_forms(rng: &mut Rng, i: usize) -> Job {
    let n = rng.range(1, 5);
    let m = rng.range(2, 9);
    let a = rng.range(0, 50);
    let b = rng.range(0, 50);
    let mut s = String::from(PC_PRELUDE);
    let (class, expected): (&str, Vec<String>) = match i % 5 {
        0 => {
            s.push_str(&format!(
                "let c: channel<void> = channel()\nlet d: channel<int> = channel()\ntask {{\n  for i in {n} {{\n    c.read()\n    d.write(i * {m})\n  }}\n}}\nfor i in {n} {{\n  c.write(nil)\n  println(d.read())\n}}\nlet e: channel<void> = channel()\ne.write(nil)\ne.write(spin(2))\nlet u = e.read()\nprintln(u)\ne.read()\nprintln(\"end\")\n"
            ));
            let mut v: Vec<String> = (0..n).map(|i| (i * m).to_string()).collect();
            v.push("nil".into());
            v.push("end".into());
            ("value:void-members:forms", v)
        }
        1 => {
            s.push_str(&format!(
                "fn f(c: channel<void>) -> int {{\n  let a = {a}\n  channel_read(c)\n  let b = {b}\n  channel_read(c)\n  a + b\n}}\nlet c: channel<void> = channel()\ntask {{\n  channel_write(c, nil)\n  spin({n})\n  channel_write(c, nil)\n}}\nprintln(f(c))\n"
            ));
            ("value:void-intrinsics-D89:forms", vec![(a + b).to_string()])
        }
        2 => {
            s.push_str(&format!(
                "let d: channel<int> = channel()\ntask {{\n  channel_write(d, {a})\n  channel.write(d, {b})\n  d.write({})\n}}\nprintln(channel_read(d))\nprintln(channel.read(d))\nprintln(d.read())\n",
                a + b
            ));
            ("value:intrinsics-and-qualified:forms", vec![a.to_string(), b.to_string(), (a + b).to_string()])
        }
        3 => {
            s.push_str(&format!(
                "fn apply(f) -> channel<int> {{\n  f()\n}}\nlet mk = channel\nlet c: channel<int> = mk()\nlet d = apply(channel)\ntask {{\n  c.write({a})\n  d.write({b})\n}}\nprintln(c.read())\nprintln(d.read())\n"
            ));
            ("value:channel-constructor-as-value:forms", vec![a.to_string(), b.to_string()])
        }
        _ => {
            // a void channel between two tasks, main joins through an int channel
            s.push_str(&format!(
                "let go: channel<void> = channel()\nlet done: channel<int> = channel()\ntask {{\n  for i in {n} {{\n    go.write(nil)\n  }}\n}}\ntask {{\n  var k = 0\n  for i in {n} {{\n    go.read()\n    k = k + {m}\n  }}\n  done.write(k)\n}}\nprintln(done.read())\n"
            ));
            ("value:void-between-tasks:forms", vec![(n * m).to_string()])
        }
    };
    Job { src: s, class: class.to_string(), expected: Some(expected), oracle: None, model: None, alias_model: None, send_model: None, scheds: schedules(rng) }
}

/// A message is a snapshot taken when it is written (fix 97d7808 of D23): the writer mutates the sent object after the
/// write and before the read, exits before the read, sends the same object twice, sends a struct containing the
/// channel itself; the reader mutates what it received.  Nothing is visible across.
fn gen_snapshot(rng: &mut Rng, i: usize) -> Job {
    let a = rng.range(0, 99);
    let b = rng.range(0, 99);
    let k = rng.range(100, 199);
    let k2 = rng.range(200, 299);
    let mut s = String::from(DECLS);
    let junk = "var j = 0\nwhile j < 150 {\n  let junk = \"x\" .. j\n  j = j + 1\n}\n";
    let (class, expected, send_model): (&str, Vec<String>, Option<String>) = match i % 6 {
        0 => {
            s.push_str(&format!(
                "let c: channel<array<int>> = channel()\nlet go: channel<bool> = channel()\nlet out: channel<string> = channel()\ntask {{\n  go.read()\n  let x = c.read()\n  let s1 = show_arrint(x)\n  out.write(s1)\n  x.push({k2})\n  let s2 = show_arrint(x)\n  out.write(s2)\n}}\nlet xs = [{a}, {b}]\nc.write(xs)\nxs.push({k})\ngo.write(true)\nlet r0 = out.read()\nlet r1 = out.read()\nprintln(r0)\nprintln(r1)\nprintln(show_arrint(xs))\n"
            ));
            (
                "value:mutated-after-write:snapshot",
                vec![format!("(A {a} {b})"), format!("(A {a} {b} {k2})"), format!("(A {a} {b} {k})")],
                Some(format!("heapsend (A {a} {b}) | W 0 ; M push 0 {k} ; R ; T show 0 ; T push 0 {k2} ; T show 0 ; M show 0")),
            )
        }
        1 => {
            s.push_str(&format!(
                "let c: channel<Box> = channel()\nlet done: channel<bool> = channel()\ntask {{\n  let b = Box({a}, \"s\")\n  c.write(b)\n  b.v = {k}\n  done.write(true)\n}}\ndone.read()\n{junk}let x = c.read()\nprintln(show_box(x))\nx.v = {k2}\nprintln(show_box(x))\n"
            ));
            (
                "value:writer-exits-before-read:snapshot",
                vec![format!("(S {a} 's')"), format!("(S {k2} 's')")],
                Some(format!("heapsend (S {a} 's') | W 0 ; M set 0 0 {k} ; R ; T show 0 ; T set 0 0 {k2} ; T show 0")),
            )
        }
        2 => {
            s.push_str(&format!(
                "let c: channel<Box> = channel()\nlet out: channel<string> = channel()\ntask {{\n  let x = c.read()\n  let y = c.read()\n  let s1 = show_box(x)\n  out.write(s1)\n  x.v = {k2}\n  let s2 = show_box(y)\n  out.write(s2)\n  let s3 = show_box(x)\n  out.write(s3)\n}}\nlet bx = Box({a}, \"s\")\nc.write(bx)\nbx.v = {k}\nc.write(bx)\nlet r0 = out.read()\nlet r1 = out.read()\nlet r2 = out.read()\nprintln(r0)\nprintln(r1)\nprintln(r2)\nprintln(show_box(bx))\n"
            ));
            (
                "value:same-object-sent-twice:snapshot",
                vec![format!("(S {a} 's')"), format!("(S {k} 's')"), format!("(S {k2} 's')"), format!("(S {k} 's')")],
                Some(format!("heapsend (S {a} 's') | W 0 ; M set 0 0 {k} ; W 0 ; R ; R ; T show 0 ; T set 0 0 {k2} ; T show 1 ; T show 0 ; M show 0")),
            )
        }
        3 => {
            s.push_str(&format!(
                "type Pk = {{\n  v: int\n  ch: channel<Pk>\n}}\nlet c: channel<Pk> = channel()\nlet done: channel<bool> = channel()\ntask {{\n  let p = c.read()\n  p.ch.write(Pk(p.v + 1, p.ch))\n  done.write(true)\n}}\nc.write(Pk({a}, c))\ndone.read()\nlet q = c.read()\nprintln(q.v)\nq.ch.write(Pk(q.v + 1, q.ch))\nlet r = c.read()\nprintln(r.v)\n"
            ));
            ("value:message-contains-its-channel:snapshot", vec![format!("{}", a + 1), format!("{}", a + 2)], None)
        }
        4 => {
            let n = rng.range(20, 60);
            s.push_str(&format!(
                "let c: channel<Box> = channel()\nlet done: channel<bool> = channel()\ntask {{\n  for i in {n} {{\n    let b = Box(i, \"m\" .. i)\n    c.write(b)\n    b.v = 0 - 1\n    b.s = \"gone\"\n  }}\n  done.write(true)\n}}\ndone.read()\n{junk}var tot = 0\nvar last = \"\"\nfor i in {n} {{\n  let x = c.read()\n  tot = tot + x.v\n  last = x.s\n}}\nprintln(last)\nprintln(tot)\n"
            ));
            ("value:stress-many-messages-writer-gone:snapshot", vec![format!("m{}", n - 1), format!("{}", n * (n - 1) / 2)], None)
        }
        _ => {
            // any of the nested value types, written by a task that mutates it afterwards and exits
            let ty = ALL_TYS[(i / 6) % ALL_TYS.len()];
            let v = gen_value(rng, ty);
            let nm = if ty.mutable() { 2 } else { 0 };
            let (tm, _) = mutate(rng, "v", ty, &v, nm, 700);
            s.push_str(&format!(
                "let c: channel<{}> = channel()\nlet done: channel<bool> = channel()\ntask {{\n  let v: {} = {}\n  c.write(v)\n{}  done.write(true)\n}}\ndone.read()\n{junk}let x = c.read()\nprintln({}(x))\n",
                ty.abra(), ty.abra(), expr(&v, ty), indent(&tm, "  "), ty.show()
            ));
            ("value:nested-value-writer-gone:snapshot", vec![sexpr(&v)], Some(format!("heapsend {} | W 0 ; R ; T show 0", sexpr(&v))))
        }
    };
    Job { src: s, class: class.to_string(), expected: Some(expected), oracle: None, model: None, alias_model: None, send_model, scheds: schedules(rng) }
}

/// A channel handed over through another channel WITH VALUES PENDING in it: directly, inside a struct, an array, a
/// variant; values written to the inner channel before the outer write and between outer write and outer read; the
/// sender finishes at once / drops its handle and allocates until its collector has run / stays alive (control); the
/// receiver picks the outer message up late.  The inner channel must deliver exactly what was written to it, in order.
fn gen_handover(rng: &mut Rng, i: usize) -> Job {
    let n = rng.range(1, 5);
    let extra = if i % 2 == 0 { rng.range(1, 3) } else { 0 };
    let base = rng.range(10, 90);
    let mut s = String::from(DECLS);
    s.push_str("type Carrier = {\n  ch: channel<int>\n  n: int\n}\nfn unwrap_ch(o: option<channel<int>>) -> channel<int> {\n  match o {\n    .some(x) -> x\n    .none -> panic(\"none\")\n  }\n}\n");
    let (carrier, ty, wrap, unwrap): (&str, &str, &str, &str) = match i % 4 {
        0 => ("direct", "channel<int>", "results", "m"),
        1 => ("in-struct", "Carrier", "Carrier(results, 7)", "m.ch"),
        2 => ("in-array", "array<channel<int>>", "[results]", "m[0]"),
        _ => ("in-variant", "option<channel<int>>", "option.some(results)", "unwrap_ch(m)"),
    };
    let fate = (i / 4) % 3;
    let fate_name = ["sender-finishes", "sender-drops-handle-and-collects", "sender-stays-alive"][fate];
    s.push_str(&format!("let handoff: channel<{ty}> = channel()\nlet fin: channel<bool> = channel()\n"));
    // the sender: the inner channel is local to a function, so the handle is dropped when it returns
    s.push_str(&format!("fn produce(h: channel<{ty}>) -> void {{\n  let results: channel<int> = channel()\n"));
    for k in 0..n {
        s.push_str(&format!("  results.write({})\n", base + k));
    }
    s.push_str(&format!("  h.write({wrap})\n"));
    for k in 0..extra {
        s.push_str(&format!("  results.write({})\n", base + n + k));
    }
    s.push_str("}\n");
    s.push_str("task {\n  produce(handoff)\n");
    match fate {
        0 => {}
        1 => s.push_str("  var j = 0\n  while j < 1500 {\n    let junk = \"g\" .. j\n    j = j + 1\n  }\n  fin.read()\n"),
        _ => s.push_str("  fin.read()\n"),
    }
    s.push_str("}\n");
    // the receiver is busy first
    let busy = rng.range(200, 3000);
    s.push_str(&format!("var busy = 0\nfor i in {busy} {{\n  busy = busy + i\n}}\nlet m = handoff.read()\nlet r = {unwrap}\nr.write(0 - 1)\nvar got = r.read()\nwhile got != 0 - 1 {{\n  println(got)\n  got = r.read()\n}}\nprintln(\"end\")\n"));
    if fate != 0 {
        s.push_str("fin.write(true)\n");
    }
    let mut expected: Vec<String> = (0..n + extra).map(|k| format!("{}", base + k)).collect();
    expected.push("end".into());
    Job {
        src: s,
        class: format!("value:handover-{carrier}-{fate_name}:handover"),
        expected: Some(expected),
        oracle: None,
        model: None,
        alias_model: None,
        send_model: None,
        scheds: schedules(rng),
    }
}

fn gen_pc_job(rng: &mut Rng) -> Job {
    let (mut src, info) = gen_pc(rng);
    let mut class = format!("pc:{}:{:?}", info.shape, info.payload);
    if rng.chance(1, 3) {
        // a reader blocked for ever must not disturb anybody
        src = src.replacen(PC_PRELUDE, &format!("{PC_PRELUDE}let never: channel<int> = channel()\ntask {{\n  let z = never.read()\n}}\n"), 1);
        class.push_str(":+blocked-reader");
    }
    Job { src, class, expected: None, oracle: Some(info.seq_src), model: None, alias_model: None, send_model: None, scheds: schedules(rng) }
}

struct Res {
    rejected: Option<String>,
    died: Option<String>,
    oracle: Option<(String, String, String)>,
    /// per schedule: (description, outcome tag, out, value, fifo violation, blocked reads, err text)
    runs: Vec<(String, String, String, String, Option<String>, usize, String)>,
    trace: Option<(String, String)>,
}

const D23A: &str = "type Box = {\n  v: int\n  s: string\n}\nlet c: channel<Box> = channel()\nlet b = Box(1, \"x\")\nc.write(b)\nb.v = 2\nlet r = c.read()\nprintln(r.v)\n";
const D23B: &str = "let c: channel<string> = channel()\nlet done: channel<bool> = channel()\ntask {\n  c.write(\"payload-\" .. 12345)\n  done.write(true)\n}\ndone.read()\nvar i = 0\nwhile i < 2000 {\n  let junk = \"x\" .. i\n  i = i + 1\n}\nprintln(c.read())\n";

fn main() {
    child_run_if_requested();
    let args: Vec<String> = std::env::args().collect();
    if args.get(1).map(|s| s.as_str()) == Some("--child-d23b") {
        // the writer has finished (its heap is freed) before the value is read: may abort the process
        let r = run_program_budget(D23B, 50);
        println!("child: {} out={:?}", r.outcome.tag(), r.out);
        std::process::exit(if matches!(r.outcome, Outcome::Done) && r.out == "payload-12345\n" { 0 } else { 3 });
    }
    if let Ok(f) = std::env::var("VERIF_PROBE") {
        let src = std::fs::read_to_string(&f).unwrap();
        for b in [1u32, 3, 100] {
            let mut h = host();
            let t = run_traced(&src, &Schedule::constant(b), 2_000_000, &mut h);
            println!("budget {b}: {:?} steps={} value={} out={:?} fifo={:?}", t.outcome, t.total_steps, t.value, t.out, fifo_violation(&t));
        }
        return;
    }
    let mut ctx = Ctx::from_env("C09");
    let n = if ctx.quick() { 120 } else { 1500 };
    let mut jobs: Vec<Job> = vec![];
    for i in 0..n {
        jobs.push(gen_value_job(&mut ctx.rng, i));
        jobs.push(gen_pc_job(&mut ctx.rng));
        if i % 3 == 0 {
            jobs.push(gen_chan_forms(&mut ctx.rng, i / 3));
        }
        if i % 2 == 1 {
            jobs.push(gen_snapshot(&mut ctx.rng, i / 2));
        }
        if i % 5 == 0 {
            jobs.push(gen_handover(&mut ctx.rng, i / 5));
        }
        if i % 2 == 0 {
            // shared and cyclic payloads (a channel read copies with a fresh map, fix 0cb8741)
            let c = gen_alias_channel(&mut ctx.rng, i / 2);
            jobs.push(Job {
                src: c.src,
                class: format!("value:{}:graph", c.class.replace(':', "-")),
                expected: Some(c.expected),
                oracle: None,
                model: None,
                alias_model: c.model,
                send_model: None,
                scheds: schedules(&mut ctx.rng),
            });
        }
    }
    // every constructor at every nesting position, transported as a channel message
    for c in nested_grid(&mut ctx.rng, n / 8, true) {
        let send_model = c.model.map(|(m, _)| m);
        jobs.push(Job {
            src: c.src,
            class: "value:nested-grid:grid".to_string(),
            expected: Some(c.expected),
            oracle: None,
            model: None,
            alias_model: None,
            send_model,
            scheds: schedules(&mut ctx.rng),
        });
    }
    // a shared object without children at the write (empty array, struct of immediates) along 2-3 paths
    for i in 0..(n / 5).max(18) {
        let c = gen_shared_childless(&mut ctx.rng, i, true);
        jobs.push(Job {
            src: c.src,
            class: format!("value:{}:childless", c.class.replace(':', "-")),
            expected: Some(c.expected),
            oracle: None,
            model: None,
            alias_model: None,
            send_model: c.model.map(|m| m.0),
            scheds: schedules(&mut ctx.rng),
        });
    }
    // every program runs in a child process (batches of 8): a defect that aborts the process is
    // attributed to the program that was running
    let batches: Vec<&[Job]> = jobs.chunks(8).collect();
    let results: Vec<Res> = par_map(&batches, |b| {
        let cj: Vec<ChildJob> = b.iter().map(|j| ChildJob { src: &j.src, scheds: &j.scheds, trace_idx: Some(2) }).collect();
        let rs = run_batch_in_child(&cj, 3_000_000);
        b.iter()
            .zip(rs)
            .map(|(j, r)| match r {
                ChildResult::Compile(tag, text) => Res { rejected: Some(format!("{tag}: {text}")), died: None, oracle: None, runs: vec![], trace: None },
                ChildResult::Died(what, done, in_progress) => Res {
                    rejected: None,
                    died: Some(format!(
                        "the host process died while running this program ({what}); schedule in progress: {}; completed runs before: {}",
                        in_progress.unwrap_or_else(|| "teardown/after the last run".into()),
                        done.len()
                    )),
                    oracle: None,
                    runs: vec![],
                    trace: None,
                },
                ChildResult::Runs(rs) => {
                    let oracle = j.oracle.as_ref().map(|src| {
                        let mut h = host();
                        let t = run_traced(src, &Schedule::constant(100_000), 2_000_000, &mut h);
                        (t.outcome.tag(), t.out, t.value)
                    });
                    let trace = rs.iter().find_map(|c| c.trace.clone()).map(|(req, ans)| (format!("{req} #{}", j.scheds[2].describe()), ans));
                    let runs = rs.into_iter().map(|c| (c.desc, c.outcome, c.out, c.value, c.fifo, c.blocked_reads, c.err_text)).collect();
                    Res { rejected: None, died: None, oracle, runs, trace }
                }
            })
            .collect::<Vec<_>>()
    })
    .into_iter()
    .flatten()
    .collect();
    for (j, r) in jobs.iter().zip(results) {
        let cls: Vec<&str> = j.class.split(':').collect();
        ctx.count(&format!("class:{}:{}", cls[0], cls[1]));
        ctx.count(&format!("payload:{}", cls[2]));
        if cls.len() > 3 {
            ctx.count("with-blocked-reader");
        }
        let prog = || j.src.replace(DECLS, "").replace(ALIAS_DECLS, "").replace(NEST_HELPERS, "").replace(PC_PRELUDE, "").replace('\n', "\\n");
        if let Some(d) = &r.died {
            ctx.count("child-died");
            ctx.spec_fail(format!("{d} :: {}", prog()));
            continue;
        }
        if let Some(e) = &r.rejected {
            ctx.count("rejected");
            if ctx.notes.len() < 5 {
                ctx.notes.push(format!("rejected: {} :: {}", e.chars().take(300).collect::<String>(), prog()));
            }
            continue;
        }
        // what every schedule must print / return
        let (exp_out, exp_val): (String, Option<String>) = match (&j.expected, &r.oracle) {
            (Some(lines), _) => (lines.iter().map(|l| format!("{l}\n")).collect(), None),
            (None, Some((tag, out, val))) => {
                if tag != "done" {
                    ctx.notes.push(format!("oracle program did not complete ({tag}) :: {}", j.oracle.as_deref().unwrap_or("").replace('\n', "\\n")));
                    continue;
                }
                (out.clone(), Some(val.clone()))
            }
            _ => continue,
        };
        let mut ok = true;
        for (desc, tag, out, val, fifo, blocked, err) in &r.runs {
            if let Some(v) = fifo {
                ok = false;
                ctx.spec_fail(format!("order/once: {v} :: schedule {desc} :: {}", prog()));
            }
            if tag != "done" {
                ok = false;
                ctx.spec_fail(format!("schedule {desc}: {tag} ({}) instead of completing :: {}", err.replace('\n', " | "), prog()));
                continue;
            }
            if *out != exp_out {
                ok = false;
                ctx.spec_fail(format!("schedule {desc}: printed {:?}, written values are {:?} :: {}", out, exp_out, prog()));
            }
            if let Some(v) = &exp_val {
                if v != val {
                    ok = false;
                    ctx.spec_fail(format!("schedule {desc}: final value {val}, expected {v} :: {}", prog()));
                }
            }
            ctx.count(if *blocked > 0 { "run:with-blocked-reads" } else { "run:no-blocked-read" });
        }
        ctx.count(if ok { "delivered:ok" } else { "delivered:NO" });
        if let Some((req, ans)) = r.trace {
            ctx.case(req, ans);
        }
        if let (Some(req), Some(first)) = (&j.send_model, r.runs.first()) {
            let lines: Vec<&str> = first.2.lines().collect();
            ctx.case(format!("{req} #{}", cls[1]), lines.join(";"));
        }
        if let (Some(req), Some(first)) = (&j.alias_model, r.runs.first()) {
            let lines: Vec<&str> = first.2.lines().collect();
            ctx.case(format!("{req} #{}", cls[1]), format!("{} {}", lines.join(";"), if ok { "owned" } else { "shared" }));
        }
        if let (Some((sx, line)), Some(first)) = (&j.model, r.runs.first()) {
            if let Some(seen) = first.2.lines().nth(*line) {
                ctx.case(format!("heapcopy {sx} #{}", cls[1]), format!("{seen} {}", if ok { "owned" } else { "shared" }));
            }
        }
    }
    // ---- regression of the repaired defect D23 (fix 97d7808), hard checks
    {
        let r = run_program_budget(D23A, 7);
        if matches!(r.outcome, Outcome::Done) && r.out == "1\n" {
            ctx.count("regression:D23A-ok");
        } else {
            ctx.spec_fail(format!("`c.write(b); b.v = 2; println(c.read().v)` must print 1 (the message is the value as written): {} printed {:?} :: {}", r.outcome.tag(), r.out, D23A.replace('\n', "\\n")));
        }
    }
    // the writer finished before the read — in a child process: a use of freed memory can abort the host
    let exe = std::env::current_exe().unwrap();
    match std::process::Command::new(exe).arg("--child-d23b").output() {
        Ok(o) => {
            let text = String::from_utf8_lossy(&o.stdout).trim().to_string();
            if o.status.success() {
                ctx.count("regression:D23B-ok");
            } else {
                ctx.spec_fail(format!("a string written by a task that then finishes must be read intact (\"payload-12345\"): child ended with {:?} {text} :: {}", o.status, D23B.replace('\n', "\\n")));
            }
        }
        Err(e) => ctx.notes.push(format!("D23B regression could not be started: {e}")),
    }
    ctx.finish();
}
