//! C26 correspondence: random sequences of array operations (instructions and prelude extension
//! functions) over several aliased array variables of depth 1 and 2, compiled and run by the real
//! compiler + VM; after every statement the program prints the statement's result and every variable.
//! The transcript is compared with the Lean heap model (`Abra.Lib.Arr`) and, independently, with a
//! reference list model in Rust (`Rc<RefCell<Vec<_>>>`, the executable statement of the property).
use std::cell::RefCell;
use std::rc::Rc;
use vh::*;

// ---------------------------------------------------------------- reference model (Rust)
#[derive(Clone, Debug)]
enum V {
    Int(i64),
    Bool(bool),
    Nil,
    Str(String),
    Arr(Rc<RefCell<Vec<V>>>),
}

fn new_arr(v: Vec<V>) -> V {
    V::Arr(Rc::new(RefCell::new(v)))
}

impl V {
    fn arr(&self) -> Rc<RefCell<Vec<V>>> {
        match self {
            V::Arr(a) => a.clone(),
            _ => panic!("not an array"),
        }
    }
    fn deep_eq(&self, o: &V) -> bool {
        match (self, o) {
            (V::Int(a), V::Int(b)) => a == b,
            (V::Bool(a), V::Bool(b)) => a == b,
            (V::Nil, V::Nil) => true,
            (V::Str(a), V::Str(b)) => a == b,
            (V::Arr(a), V::Arr(b)) => {
                let (a, b) = (a.borrow(), b.borrow());
                a.len() == b.len() && a.iter().zip(b.iter()).all(|(x, y)| x.deep_eq(y))
            }
            _ => false,
        }
    }
    fn deep_clone(&self) -> V {
        match self {
            V::Arr(a) => new_arr(a.borrow().iter().map(|x| x.deep_clone()).collect()),
            v => v.clone(),
        }
    }
    fn show(&self) -> String {
        match self {
            V::Int(n) => n.to_string(),
            V::Bool(b) => b.to_string(),
            V::Nil => "nil".into(),
            V::Str(s) => s.clone(),
            V::Arr(a) => {
                let mut s = String::from("[");
                for x in a.borrow().iter() {
                    s.push_str(&x.show());
                    s.push(',');
                }
                s.push(']');
                s
            }
        }
    }
}

// ---------------------------------------------------------------- the little language
#[derive(Clone, Debug)]
enum E {
    S(V),
    Var(usize, usize),
    Idx(usize, usize, i64),
    Lit(usize, Vec<E>),
    Filled(i64, Box<E>),
    Clone(Box<E>),
    Pop(usize, usize),
}

#[derive(Clone, Debug)]
enum St {
    Let(usize, usize, E),
    Push(usize, usize, E),
    Set(usize, usize, i64, E),
    Swap(usize, usize, i64, i64),
    Remove(usize, usize, i64),
    Clear(usize, usize),
    Get(usize, usize, i64),
    Len(usize, usize),
    Empty(usize, usize),
    Find(usize, usize, E),
    Contains(usize, usize, E),
    Pop(usize, usize),
}

#[derive(Clone, Copy, PartialEq, Debug)]
enum Ty { Int, Bool, Void, Str }

impl Ty {
    fn name(self) -> &'static str {
        match self { Ty::Int => "int", Ty::Bool => "bool", Ty::Void => "void", Ty::Str => "string" }
    }
}

fn var_name(d: usize, k: usize) -> String {
    format!("a{d}_{k}")
}

fn scalar_src(v: &V) -> String {
    match v {
        V::Int(n) => n.to_string(),
        V::Bool(b) => b.to_string(),
        V::Nil => "nil".into(),
        V::Str(s) => format!("\"{s}\""),
        _ => unreachable!(),
    }
}
fn scalar_req(v: &V) -> String {
    match v {
        V::Int(n) => n.to_string(),
        V::Bool(true) => "T".into(),
        V::Bool(false) => "F".into(),
        V::Nil => "N".into(),
        V::Str(s) => format!("s:{s}"),
        _ => unreachable!(),
    }
}

impl E {
    fn src(&self) -> String {
        match self {
            E::S(v) => scalar_src(v),
            E::Var(d, k) => var_name(*d, *k),
            E::Idx(d, k, i) => format!("{}[{}]", var_name(*d, *k), i),
            E::Lit(_, es) => format!("[{}]", es.iter().map(|e| e.src()).collect::<Vec<_>>().join(", ")),
            E::Filled(n, e) => format!("array.filled({}, {})", e.src(), n),
            E::Clone(e) => format!("Clone.clone({})", e.src()),
            E::Pop(d, k) => format!("{}.pop()", var_name(*d, *k)),
        }
    }
    fn req(&self) -> String {
        match self {
            E::S(v) => format!("S {}", scalar_req(v)),
            E::Var(d, k) => format!("V {d}.{k}"),
            E::Idx(d, k, i) => format!("I {d}.{k} {i}"),
            E::Lit(d, es) => {
                let mut s = format!("L {d} {}", es.len());
                for e in es {
                    s.push(' ');
                    s.push_str(&e.req());
                }
                s
            }
            E::Filled(n, e) => format!("F {n} {}", e.req()),
            E::Clone(e) => format!("C {}", e.req()),
            E::Pop(d, k) => format!("P {d}.{k}"),
        }
    }
}

struct World {
    vars: [Vec<V>; 3], // index by depth (0 unused)
}

#[derive(Debug)]
struct Oob;

impl World {
    fn new(n1: usize, n2: usize) -> World {
        World { vars: [vec![], (0..n1).map(|_| new_arr(vec![])).collect(), (0..n2).map(|_| new_arr(vec![])).collect()] }
    }
    fn index(a: &V, i: i64) -> Result<V, Oob> {
        let a = a.arr();
        let a = a.borrow();
        if i < 0 || i as u64 >= a.len() as u64 { Err(Oob) } else { Ok(a[i as usize].clone()) }
    }
    fn eval(&mut self, e: &E) -> Result<V, Oob> {
        Ok(match e {
            E::S(v) => v.clone(),
            E::Var(d, k) => self.vars[*d][*k].clone(),
            E::Idx(d, k, i) => Self::index(&self.vars[*d][*k], *i)?,
            E::Lit(_, es) => {
                let mut v = vec![];
                for e in es {
                    v.push(self.eval(e)?);
                }
                new_arr(v)
            }
            E::Filled(n, e) => {
                let x = self.eval(e)?;
                new_arr((0..(*n).max(0)).map(|_| x.deep_clone()).collect())
            }
            E::Clone(e) => self.eval(e)?.deep_clone(),
            E::Pop(d, k) => self.vars[*d][*k].arr().borrow_mut().pop().ok_or(Oob)?,
        })
    }
    /// the printed result of the statement
    fn exec(&mut self, st: &St) -> Result<String, Oob> {
        Ok(match st {
            St::Let(d, k, e) => {
                let v = self.eval(e)?;
                self.vars[*d][*k] = v;
                String::new()
            }
            St::Push(d, k, e) => {
                let a = self.vars[*d][*k].arr();
                let v = self.eval(e)?;
                a.borrow_mut().push(v);
                String::new()
            }
            St::Set(d, k, i, e) => {
                let a = self.vars[*d][*k].arr();
                let v = self.eval(e)?;
                let mut a = a.borrow_mut();
                if *i < 0 || *i as u64 >= a.len() as u64 {
                    return Err(Oob);
                }
                a[*i as usize] = v;
                String::new()
            }
            St::Swap(d, k, i, j) => {
                let a = self.vars[*d][*k].arr();
                let mut a = a.borrow_mut();
                let n = a.len() as u64;
                if *i < 0 || *i as u64 >= n || *j < 0 || *j as u64 >= n {
                    return Err(Oob);
                }
                a.swap(*i as usize, *j as usize);
                String::new()
            }
            St::Remove(d, k, i) => {
                let a = self.vars[*d][*k].arr();
                let mut a = a.borrow_mut();
                if *i < 0 || *i as u64 >= a.len() as u64 {
                    return Err(Oob);
                }
                a.swap_remove(*i as usize); // swap with last, then pop: order not preserved
                String::new()
            }
            St::Clear(d, k) => {
                self.vars[*d][*k].arr().borrow_mut().clear();
                String::new()
            }
            St::Get(d, k, i) => Self::index(&self.vars[*d][*k], *i)?.show(),
            St::Len(d, k) => self.vars[*d][*k].arr().borrow().len().to_string(),
            St::Empty(d, k) => self.vars[*d][*k].arr().borrow().is_empty().to_string(),
            St::Find(d, k, e) => {
                let x = self.eval(e)?;
                match self.vars[*d][*k].arr().borrow().iter().position(|y| y.deep_eq(&x)) {
                    Some(i) => format!("some {i}"),
                    None => "none".into(),
                }
            }
            St::Contains(d, k, e) => {
                let x = self.eval(e)?;
                self.vars[*d][*k].arr().borrow().iter().any(|y| y.deep_eq(&x)).to_string()
            }
            St::Pop(d, k) => self.vars[*d][*k].arr().borrow_mut().pop().ok_or(Oob)?.show(),
        })
    }
    fn dump(&self) -> String {
        let mut s = String::new();
        for d in 1..=2 {
            for v in &self.vars[d] {
                s.push_str(&v.show());
                s.push(' ');
            }
        }
        s
    }
    fn len_of(&self, d: usize, k: usize) -> i64 {
        self.vars[d][k].arr().borrow().len() as i64
    }
}

impl St {
    fn req(&self) -> String {
        match self {
            St::Let(d, k, e) => format!("let {d}.{k} {}", e.req()),
            St::Push(d, k, e) => format!("push {d}.{k} {}", e.req()),
            St::Set(d, k, i, e) => format!("set {d}.{k} {i} {}", e.req()),
            St::Swap(d, k, i, j) => format!("swap {d}.{k} {i} {j}"),
            St::Remove(d, k, i) => format!("remove {d}.{k} {i}"),
            St::Clear(d, k) => format!("clear {d}.{k}"),
            St::Get(d, k, i) => format!("get {d}.{k} {i}"),
            St::Len(d, k) => format!("len {d}.{k}"),
            St::Empty(d, k) => format!("empty {d}.{k}"),
            St::Find(d, k, e) => format!("find {d}.{k} {}", e.req()),
            St::Contains(d, k, e) => format!("contains {d}.{k} {}", e.req()),
            St::Pop(d, k) => format!("pop {d}.{k}"),
        }
    }
    fn kind(&self) -> &'static str {
        match self {
            St::Let(_, _, E::Lit(..)) => "let-literal", St::Let(_, _, E::Filled(..)) => "let-filled",
            St::Let(_, _, E::Clone(..)) => "let-clone", St::Let(_, _, E::Var(..)) => "let-alias",
            St::Let(_, _, E::Idx(..)) => "let-alias-element", St::Let(_, _, E::Pop(..)) => "let-pop", St::Let(..) => "let-other",
            St::Push(..) => "push", St::Set(..) => "set", St::Swap(..) => "swap", St::Remove(..) => "remove",
            St::Clear(..) => "clear", St::Get(..) => "get", St::Len(..) => "len", St::Empty(..) => "is_empty",
            St::Find(..) => "find", St::Contains(..) => "contains", St::Pop(..) => "pop",
        }
    }
    /// the Abra statement(s), printing the result
    fn src(&self) -> String {
        let show = |d: usize, e: String| if d == 0 { format!("print({e})") } else { format!("show1({e})") };
        match self {
            St::Let(d, k, e) => format!("{} = {}", var_name(*d, *k), e.src()),
            St::Push(d, k, e) => format!("{}.push({})", var_name(*d, *k), e.src()),
            St::Set(d, k, i, e) => format!("{}[{}] = {}", var_name(*d, *k), i, e.src()),
            St::Swap(d, k, i, j) => format!("{}.swap({}, {})", var_name(*d, *k), i, j),
            St::Remove(d, k, i) => format!("{}.remove({})", var_name(*d, *k), i),
            St::Clear(d, k) => format!("{}.clear()", var_name(*d, *k)),
            St::Get(d, k, i) => show(*d - 1, format!("{}[{}]", var_name(*d, *k), i)),
            St::Len(d, k) => format!("print({}.len())", var_name(*d, *k)),
            St::Empty(d, k) => format!("print({}.is_empty())", var_name(*d, *k)),
            St::Find(d, k, e) => format!("showopt({}.find({}))", var_name(*d, *k), e.src()),
            St::Contains(d, k, e) => format!("print({}.contains({}))", var_name(*d, *k), e.src()),
            St::Pop(d, k) => show(*d - 1, format!("{}.pop()", var_name(*d, *k))),
        }
    }
}

fn program(ty: Ty, n1: usize, n2: usize, sts: &[St]) -> String {
    let t = ty.name();
    let mut s = String::new();
    s.push_str(&format!("fn show1(a: array<{t}>) {{\n  print(\"[\")\n  for x in a {{\n    print(x)\n    print(\",\")\n  }}\n  print(\"]\")\n}}\n"));
    s.push_str(&format!("fn show2(a: array<array<{t}>>) {{\n  print(\"[\")\n  for x in a {{\n    show1(x)\n    print(\",\")\n  }}\n  print(\"]\")\n}}\n"));
    s.push_str("fn showopt(o: option<int>) {\n  match o {\n    .some(i) -> {\n      print(\"some \")\n      print(i)\n    }\n    .none -> print(\"none\")\n  }\n}\n");
    for k in 0..n1 {
        s.push_str(&format!("var {}: array<{t}> = []\n", var_name(1, k)));
    }
    for k in 0..n2 {
        s.push_str(&format!("var {}: array<array<{t}>> = []\n", var_name(2, k)));
    }
    for st in sts {
        s.push_str(&st.src());
        s.push_str("\nprint(\"|\")\n");
        for k in 0..n1 {
            s.push_str(&format!("show1({})\nprint(\" \")\n", var_name(1, k)));
        }
        for k in 0..n2 {
            s.push_str(&format!("show2({})\nprint(\" \")\n", var_name(2, k)));
        }
        s.push_str("print(\"/\")\n");
    }
    s
}

// ---------------------------------------------------------------- generator
struct Gen<'a> {
    rng: &'a mut Rng,
    ty: Ty,
    n1: usize,
    n2: usize,
}

const HUGE: [i64; 8] = [i64::MAX, i64::MIN, i64::MIN + 1, 1 << 32, (1 << 32) + 1, -(1 << 32), 1 << 62, -4294967295];

impl Gen<'_> {
    fn scalar(&mut self) -> V {
        match self.ty {
            Ty::Int => V::Int(self.rng.range(0, 2)),
            Ty::Bool => V::Bool(self.rng.chance(1, 2)),
            Ty::Void => V::Nil,
            Ty::Str => V::Str((*self.rng.pick(&["", "a", "b", "ab", "ba", "abc"])).to_string()),
        }
    }
    /// an index for an array of length `len`: mostly valid, sometimes a boundary or a wild one
    fn index(&mut self, len: i64, wild: u64) -> i64 {
        let r = self.rng.below(1000);
        if r < wild {
            match self.rng.below(5) {
                0 => -1,
                1 => len,
                2 => len + 1,
                3 => *self.rng.pick(&HUGE),
                _ => -len - 1,
            }
        } else if len == 0 {
            0 // nothing is valid; only reached when the caller accepts an error
        } else if r < wild + 200 {
            if self.rng.chance(1, 2) { 0 } else { len - 1 }
        } else {
            self.rng.range(0, len - 1)
        }
    }
    fn var(&mut self, d: usize) -> usize {
        self.rng.below(if d == 1 { self.n1 } else { self.n2 } as u64) as usize
    }
    /// an expression of depth `d` (0 = scalar) that does not fail, given the world
    fn expr(&mut self, w: &World, d: usize, fuel: u32) -> E {
        if d == 0 {
            if self.rng.chance(1, 4) {
                // element of a non-empty depth-1 variable
                let k = self.var(1);
                let n = w.len_of(1, k);
                if n > 0 {
                    return E::Idx(1, k, self.rng.range(0, n - 1));
                }
            }
            return E::S(self.scalar());
        }
        let choice = self.rng.below(if fuel == 0 { 4 } else { 10 });
        match choice {
            0 | 1 => E::Var(d, self.var(d)),
            2 | 3 => {
                if d == 1 && self.n2 > 0 {
                    let k = self.var(2);
                    let n = w.len_of(2, k);
                    if n > 0 {
                        return E::Idx(2, k, self.rng.range(0, n - 1));
                    }
                }
                E::Var(d, self.var(d))
            }
            4 | 5 => {
                let n = self.rng.below(4) as usize;
                E::Lit(d, (0..n).map(|_| self.expr(w, d - 1, fuel - 1)).collect())
            }
            6 => {
                let n = *self.rng.pick(&[0i64, 1, 2, 3, -1, 4]);
                E::Filled(n, Box::new(self.expr(w, d - 1, fuel - 1)))
            }
            7 | 8 => E::Clone(Box::new(self.expr(w, d, fuel - 1))),
            _ => {
                if d == 1 && self.n2 > 0 {
                    let k = self.var(2);
                    if w.len_of(2, k) > 0 {
                        return E::Pop(2, k);
                    }
                }
                E::Lit(d, vec![])
            }
        }
    }
    fn stmt(&mut self, w: &World, wild: u64) -> St {
        let d = if self.n2 > 0 && self.rng.chance(2, 5) { 2 } else { 1 };
        let k = self.var(d);
        let len = w.len_of(d, k);
        match self.rng.below(100) {
            0..=17 => St::Push(d, k, self.expr(w, d - 1, 2)),
            18..=27 => St::Let(d, k, self.expr(w, d, 2)),
            28..=35 => {
                if len == 0 && !self.rng.chance(wild, 1000) { St::Push(d, k, self.expr(w, d - 1, 2)) } else { St::Pop(d, k) }
            }
            36..=45 => {
                if len == 0 && !self.rng.chance(wild, 1000) { St::Len(d, k) } else { St::Get(d, k, self.index(len, wild)) }
            }
            46..=55 => {
                if len == 0 && !self.rng.chance(wild, 1000) { St::Empty(d, k) } else {
                    let i = self.index(len, wild);
                    St::Set(d, k, i, self.expr(w, d - 1, 2))
                }
            }
            56..=63 => {
                if len == 0 && !self.rng.chance(wild, 1000) { St::Clear(d, k) } else {
                    let i = self.index(len, wild);
                    let j = self.index(len, wild);
                    St::Swap(d, k, i, j)
                }
            }
            64..=71 => {
                if len == 0 && !self.rng.chance(wild, 1000) { St::Contains(d, k, self.expr(w, d - 1, 1)) } else { St::Remove(d, k, self.index(len, wild)) }
            }
            72..=74 => St::Clear(d, k),
            75..=84 => St::Find(d, k, self.expr(w, d - 1, 1)),
            85..=90 => St::Contains(d, k, self.expr(w, d - 1, 1)),
            91..=95 => St::Len(d, k),
            _ => St::Empty(d, k),
        }
    }
}

/// D34 (reading an element of array<void> in a `for` body / binding a void item faults the VM; this reaches
/// `for x in a`, find, contains, `==`, clone, filled on arrays of void) and D35 (an out-of-range store of a void
/// value, directly or through swap/remove, is not detected) are queued as `fix:` commits.  The model is the
/// repaired behaviour.  Both landed in /repo (df16aaf and the void-slot fixes before it), so `void` is in the main
/// stream like every other element type; the shapes that failed stay as a regression corpus that runs first.
/// (`true` takes `void` out of the main stream again — only useful when bisecting a regression.)
const VOID_WORKAROUND: bool = false;

struct Job { ty: Ty, n1: usize, n2: usize, sts: Vec<St>, expect: String, directed: bool }

/// run the reference model; the sequence is cut after the first failing statement
fn reference(n1: usize, n2: usize, sts: &mut Vec<St>) -> String {
    let mut w = World::new(n1, n2);
    let mut out = String::new();
    for (i, st) in sts.iter().enumerate() {
        match w.exec(st) {
            Ok(r) => {
                out.push_str(&r);
                out.push('|');
                out.push_str(&w.dump());
                out.push('/');
            }
            Err(Oob) => {
                out.push_str("ERR:oob");
                sts.truncate(i + 1);
                break;
            }
        }
    }
    out
}

fn main() {
    let mut ctx = Ctx::from_env("C26");
    let quick = ctx.quick();
    let mut jobs: Vec<Job> = vec![];
    let tys: Vec<Ty> = if VOID_WORKAROUND { vec![Ty::Int, Ty::Bool, Ty::Str] } else { vec![Ty::Int, Ty::Bool, Ty::Void, Ty::Str] };

    // directed: every operation on an empty array and at the index boundaries, one statement per program
    for &ty in &tys {
        let sc = |i: i64| match ty {
            Ty::Int => V::Int(i.rem_euclid(3)),
            Ty::Bool => V::Bool(i % 2 == 0),
            Ty::Void => V::Nil,
            Ty::Str => V::Str(["a", "b", ""][(i.rem_euclid(3)) as usize].to_string()),
        };
        for d in 1..=2usize {
            let elem = |i: i64| if d == 1 { E::S(sc(i)) } else { E::Lit(1, (0..i.rem_euclid(3)).map(|j| E::S(sc(j))).collect()) };
            for len in [0i64, 1, 3] {
                let setup = St::Let(d, 0, E::Lit(d, (0..len).map(&elem).collect()));
                let mut idxs = vec![-1, 0, len - 1, len, len + 1];
                idxs.extend_from_slice(&HUGE);
                let mut tails: Vec<St> = vec![
                    St::Pop(d, 0), St::Clear(d, 0), St::Len(d, 0), St::Empty(d, 0), St::Find(d, 0, elem(1)),
                    St::Contains(d, 0, elem(0)), St::Push(d, 0, elem(2)), St::Let(d, 1, E::Clone(Box::new(E::Var(d, 0)))),
                    St::Let(d, 1, E::Filled(0, Box::new(elem(1)))), St::Let(d, 1, E::Filled(-1, Box::new(elem(1)))),
                    St::Let(d, 1, E::Filled(i64::MIN, Box::new(elem(1)))), St::Let(d, 1, E::Filled(2, Box::new(elem(1)))),
                ];
                for &i in &idxs {
                    tails.push(St::Get(d, 0, i));
                    tails.push(St::Set(d, 0, i, elem(1)));
                    tails.push(St::Remove(d, 0, i));
                    tails.push(St::Swap(d, 0, i, 0));
                    tails.push(St::Swap(d, 0, 0, i));
                }
                for t in tails {
                    // the statement twice where it succeeds (e.g. pop until empty), then a read-back
                    let mut sts = vec![setup.clone(), t.clone(), t.clone(), t, St::Len(d, 0)];
                    let expect = reference(2, 2, &mut sts);
                    jobs.push(Job { ty, n1: 2, n2: 2, sts, expect, directed: true });
                }
            }
        }
    }
    // in the quick tier keep a seeded third of the directed programs (all of them in the thorough tier)
    if quick {
        let mut kept = vec![];
        for j in jobs.drain(..) {
            if ctx.rng.chance(1, 3) {
                kept.push(j);
            }
        }
        jobs = kept;
    }

    // random histories
    let (n_hist, max_len) = if quick { (500, 25) } else { (6000, 80) };
    for i in 0..n_hist {
        let ty = tys[i % tys.len()];
        let n1 = 2 + ctx.rng.below(2) as usize;
        let n2 = ctx.rng.below(3) as usize;
        let target = 4 + ctx.rng.below(max_len as u64 - 3) as usize;
        // chance (per mille) of a deliberately wild index / pop on empty per statement
        let wild = *ctx.rng.pick(&[0u64, 10, 30, 80]);
        let mut w = World::new(n1, n2);
        let mut sts = vec![];
        {
            let mut g = Gen { rng: &mut ctx.rng, ty, n1, n2 };
            for _ in 0..target {
                let st = g.stmt(&w, wild);
                let failed = w.exec(&st).is_err();
                sts.push(st);
                if failed {
                    break;
                }
            }
        }
        let expect = reference(n1, n2, &mut sts);
        jobs.push(Job { ty, n1, n2, sts, expect, directed: false });
    }

    // D34 / D35 (fix rows): while `void` is out of the main stream the failing shapes are run here against the
    // property itself (a failure is a concrete failing input and is reported as such)
    {
        // regression corpus of D34 / D35 (fixed in /repo): runs first on every run
        let probes: [(&str, &str, Result<&str, &str>); 10] = [
            // D88 (3cc222c): function values of the array intrinsics at element types int AND void in one program
            ("D88", "let xs = [10, 20, 30]\nlet st = array_set\nst(xs, 0, -1)\nlet vs: array<void> = [nil, nil]\nlet sv = array_set\nsv(vs, 1, nil)\nlet g = array_get\nlet gv = array_get\nprint(g(xs, 2))\nprint(gv(vs, 0))\nlet p = array_push\nlet pv = array_push\np(xs, 7)\npv(vs, nil)\nprint(xs.len())\nprint(vs.len())\nprint(xs[0])\n", Ok("30nil43-1")),
            ("D88", "let vs: array<void> = [nil]\nlet xs = [1, 2]\nlet gv = array_get\nlet g = array_get\nprint(gv(vs, 0))\nprint(g(xs, 5))\n", Err("oob")),
            ("D88", "let xs = [1, 2]\nlet vs: array<void> = [nil]\nlet q = array_pop\nlet qv = array_pop\nprint(q(xs))\nprint(qv(vs))\nprint(qv(vs))\n", Err("oob")),
            ("D34", "let a: array<void> = [nil, nil, nil]\nvar n = 0\nfor x in a {\n  n = n + 1\n}\nprint(n)\n", Ok("3")),
            ("D34", "let a: array<void> = [nil]\nfor i in 2 {\n  a[0]\n}\nprint(\"done\")\n", Ok("done")),
            ("D34", "let a: array<void> = [nil, nil]\nprint(a.contains(nil))\n", Ok("true")),
            ("D34", "let a: array<void> = [nil, nil]\nlet b = Clone.clone(a)\nprint(b.len())\n", Ok("2")),
            ("D34", "let a: array<void> = [nil]\na.push(a[0])\nprint(a.len())\n", Ok("2")),
            ("D35", "let a: array<void> = [nil, nil]\na[5] = nil\nprint(\"no error\")\n", Err("oob")),
            ("D35", "let a: array<void> = [nil, nil]\na.swap(0, 9223372036854775807)\nprint(\"no error\")\n", Err("oob")),
        ];
        let mut still = 0;
        for (id, src, want) in probes {
            let r = run_program(src);
            let ok = match want {
                Ok(out) => r.outcome == Outcome::Done && r.out == out,
                Err(kind) => r.outcome == Outcome::Error(kind.into()),
            };
            ctx.count(if ok { "void-probe:as-the-list-model" } else { "void-probe:fails" });
            if !ok {
                still += 1;
                ctx.spec_fail(format!("{id} (regression probe): `{}`: implementation {} out={:?}, list model: {}", src.trim_end().replace('\n', "; "), r.outcome.tag(), r.out,
                    match want { Ok(o) => format!("prints {o}"), Err(k) => format!("runtime error {k}") }));
            }
        }
        if still == 0 && VOID_WORKAROUND {
            ctx.notes.push("D34/D35 no longer reproduce: set VOID_WORKAROUND = false in harness/src/bin/c26.rs".into());
        }
    }

    let srcs: Vec<String> = jobs.iter().map(|j| program(j.ty, j.n1, j.n2, &j.sts)).collect();
    let results = par_map(&srcs, |src| run_program_opts(src, &RunOpts { max_steps: 20_000_000, ..Default::default() }));
    for (j, r) in jobs.iter().zip(results) {
        let req = format!(
            "arr {} {} {} #{}",
            j.n1,
            j.n2,
            j.sts.iter().map(|s| s.req()).collect::<Vec<_>>().join(" ; "),
            j.ty.name()
        );
        let imp = match &r.outcome {
            Outcome::Done => r.out.clone(),
            Outcome::Error(k) => format!("{}ERR:{}", r.out, k),
            Outcome::Rejected(m) => format!("REJECTED {}", m.lines().take(3).collect::<Vec<_>>().join(" ")),
            o => format!("{}{}", r.out, o.tag().to_uppercase()),
        }
        .replace(['\n', '\t'], " ");
        ctx.count(&format!("type:{}", j.ty.name()));
        ctx.count(if j.directed { "stream:directed" } else { "stream:random" });
        for st in &j.sts {
            ctx.count(&format!("op:{}", st.kind()));
        }
        ctx.count(if j.expect.ends_with("ERR:oob") {
            match j.sts.last().unwrap() {
                St::Pop(..) | St::Let(_, _, E::Pop(..)) => "end:error-pop-empty",
                _ => "end:error-index",
            }
        } else {
            "end:done"
        });
        if !j.directed {
            ctx.count(match j.sts.len() { 0..=5 => "ops:1-5", 6..=15 => "ops:6-15", 16..=25 => "ops:16-25", 26..=50 => "ops:26-50", _ => "ops:51+" });
        }
        if imp != j.expect {
            ctx.spec_fail(format!(
                "array history differs from the reference list model: `{}` ({}): implementation `{}`, list model `{}`",
                req, j.ty.name(), imp, j.expect
            ));
        }
        ctx.case(req, imp);
    }
    // array literals longer than the 65535 elements one ConstructArray can count (the compiler constructs the
    // first 65535 and pushes the rest; arrays of void push dummies): len, elements around the seam, push/pop, oob
    {
        let elem_src = |ty: &str, i: usize| -> String {
            match ty {
                "int" => (i % 7).to_string(),
                "bool" => (i % 2 == 0).to_string(),
                "void" => "nil".into(),
                _ => format!("\"{}\"", ["a", "b", ""][i % 3]),
            }
        };
        let elem_out = |ty: &str, i: usize| -> String {
            match ty {
                "int" => (i % 7).to_string(),
                "bool" => (i % 2 == 0).to_string(),
                "void" => "nil".into(),
                _ => ["a", "b", ""][i % 3].to_string(),
            }
        };
        let shapes: Vec<(&str, usize)> = if quick {
            vec![("int", 65540), ("void", 65536)]
        } else {
            let mut v = vec![];
            for ty in ["int", "bool", "void", "string"] {
                for n in [65535usize, 65536, 65537, 65540] {
                    v.push((ty, n));
                }
            }
            v
        };
        let mut big: Vec<(String, String, String)> = vec![]; // request, program, oracle
        for (ty, n) in shapes {
            let idxs: Vec<usize> = vec![0, 1, 65533, 65534, n - 1];
            let mut src = format!("let a: array<{ty}> = [");
            for i in 0..n {
                if i > 0 { src.push_str(", "); }
                src.push_str(&elem_src(ty, i));
            }
            src.push_str("]\nprint(a.len())\nprint(\";\")\n");
            let mut want = format!("{n};");
            for (k, i) in idxs.iter().enumerate() {
                if k > 0 { src.push_str("print(\",\")\n"); want.push(','); }
                src.push_str(&format!("print(a[{i}])\n"));
                want.push_str(&elem_out(ty, *i));
            }
            src.push_str(&format!("print(\";\")\na.push({})\nprint(a.len())\nprint(\";\")\nprint(a.pop())\nprint(\";\")\nprint(a[{}])\n", elem_src(ty, n), n + 5));
            want.push_str(&format!(";{};{};ERR:oob", n + 1, elem_out(ty, n)));
            let req = format!("arr big {ty} {n} {}", idxs.iter().map(|i| i.to_string()).collect::<Vec<_>>().join(" "));
            big.push((req, src, want));
        }
        let srcs: Vec<&String> = big.iter().map(|b| &b.1).collect();
        let results = par_map(&srcs, |src| run_program_opts(src, &RunOpts { max_steps: 50_000_000, ..Default::default() }));
        for ((req, _, want), r) in big.iter().zip(results) {
            let imp = match &r.outcome {
                Outcome::Done => r.out.clone(),
                Outcome::Error(k) => format!("{}ERR:{}", r.out, k),
                Outcome::Rejected(m) => format!("REJECTED {}", m.lines().filter(|l| !l.trim().is_empty()).take(2).collect::<Vec<_>>().join(" ")),
                o => format!("{}{}", r.out, o.tag().to_uppercase()),
            }
            .replace(['\n', '\t'], " ");
            ctx.count("stream:literal-longer-than-65535");
            if imp != *want {
                ctx.spec_fail(format!("long array literal differs from the list model: `{req}`: implementation `{imp}`, list model `{want}`"));
            }
            ctx.case(req.clone(), imp);
        }
    }

    ctx.finish();
}
