//! C04: the compiler returns a result or diagnostics on any text — crash search plus the lexer tie.
//!
//! Malformed stream: prefixes at char boundaries of the corpus programs (the Abra programs embedded in the
//! repository's integration tests, read at run time, plus hand-written non-ASCII programs), token deletion /
//! duplication / swap / move / replacement, char mutation, non-ASCII insertion, span deletion, grammar
//! garbage, and deep nesting within reason (≤ 200 levels of parentheses / blocks / brackets / ifs / lambdas /
//! matches / unary operators / type arguments / tuple patterns, 500-term operator chains, very long tokens).
//! Per text, in a child process (a host stack overflow aborts the process; a text that does not answer within 60 s is re-run alone and is a hang only after 300 s of its own CPU time):
//! `abra_core::check`, `compile_bytecode`, `check_lsp` + `errors()` must each return (catch_unwind) — a panic,
//! an abort or a hang is a failing input (`spec_fail`, one per distinct panic site, shrunk to the shortest
//! failing prefix); `check` and `compile_bytecode` must agree on accept/reject and a rejection must carry
//! text; `check` accepts exactly when `check_lsp` reports no error.
//! vs the Lean model: `verif_lex` (tokens, byte spans, lexer diagnostics) on every text equals `tokenizeBytes`.
use std::cell::RefCell;
use std::collections::BTreeMap;
use std::panic::{AssertUnwindSafe, catch_unwind};
use vh::*;

#[path = "../fecorpus.rs"]
mod fecorpus;
use fecorpus::*;
#[path = "../fework.rs"]
mod fework;
use fework::*;
#[path = "../frontend.rs"]
#[allow(dead_code)]
mod frontend;
use frontend::{hex_str, impl_lex};

thread_local! {
    static SITE: RefCell<String> = RefCell::new(String::new());
}

fn install_hook() {
    std::panic::set_hook(Box::new(|info| {
        let loc = info.location().map(|l| format!("{}:{}", l.file().rsplit('/').next().unwrap_or(""), l.line())).unwrap_or_default();
        SITE.with(|s| *s.borrow_mut() = loc);
    }));
}
fn site() -> String {
    SITE.with(|s| s.borrow().clone())
}

#[derive(Clone, Debug, Default)]
struct Out {
    /// "ok" | "diag" | "panic" for check, compile_bytecode; number of errors() or "panic" for check_lsp
    check: String,
    compile: String,
    lsp: String,
    crashes: Vec<(String, String, String)>, // api, site, message
    lex: String,
    notes: Vec<String>,
}

/// `text` = main file, optionally followed by `\x1e` and the text of `lib1.abra`
/// a directory whose only file is the user's own `prelude.abra` (D94)
struct UserPrelude;
impl abra_core::FileProvider for UserPrelude {
    fn search_for_file(&self, path: &std::path::Path, _is_root: bool) -> Result<abra_core::FileData, Box<dyn std::error::Error>> {
        if path == std::path::Path::new("prelude.abra") {
            Ok(abra_core::FileData::new("prelude".into(), "prelude.abra".into(), "println(1)\nlet x: int = \"s\"\n".to_string()))
        } else {
            Err("no such file".into())
        }
    }
}

fn analyze(text: &str) -> Out {
    let mut o = Out::default();
    let (text, lib) = match text.split_once('\x1e') {
        Some((m, l)) => (m, Some(l.to_string())),
        None => (text, None),
    };
    let extra: Vec<(String, String)> = lib.into_iter().map(|l| ("lib1.abra".to_string(), l)).collect();
    let extra = &extra;
    let mut run = |api: &str, f: &dyn Fn() -> String, o: &mut Out| -> String {
        match catch_unwind(AssertUnwindSafe(f)) {
            Ok(s) => s,
            Err(p) => {
                o.crashes.push((api.to_string(), site(), panic_msg(p).replace('\n', " ")));
                "panic".to_string()
            }
        }
    };
    o.check = run(
        "check",
        &|| match abra_core::check("main.abra", provider(text, extra)) {
            Ok(()) => "ok".into(),
            Err(e) => if e.to_string().trim().is_empty() { "diag-empty".into() } else { "diag".into() },
        },
        &mut o,
    );
    o.compile = run(
        "compile_bytecode",
        &|| match abra_core::compile_bytecode("main.abra", provider(text, extra)) {
            Ok(_) => "ok".into(),
            Err(e) => if e.to_string().trim().is_empty() { "diag-empty".into() } else { "diag".into() },
        },
        &mut o,
    );
    o.lsp = run("check_lsp", &|| abra_core::check_lsp("main.abra", provider(text, extra)).errors().len().to_string(), &mut o);
    o.lex = impl_lex(text, true);
    o
}

fn encode(o: &Out) -> String {
    let mut s = format!("S\x1f{}\x1f{}\x1f{}\x1f{}", o.check, o.compile, o.lsp, o.lex);
    for (a, b, c) in &o.crashes {
        s.push_str(&format!("\nC\x1f{a}\x1f{b}\x1f{c}"));
    }
    s
}
fn decode(s: &str) -> Out {
    let mut o = Out::default();
    for line in s.split('\n') {
        let f: Vec<&str> = line.split('\x1f').collect();
        match f[0] {
            "S" if f.len() == 5 => {
                o.check = f[1].into();
                o.compile = f[2].into();
                o.lsp = f[3].into();
                o.lex = f[4].into();
            }
            "C" if f.len() == 4 => o.crashes.push((f[1].into(), f[2].into(), f[3].into())),
            _ => {}
        }
    }
    o
}

/// deep nesting within reason and long tokens
fn deep_texts() -> Vec<(String, String)> {
    let mut v: Vec<(String, String)> = vec![];
    for &d in &[50usize, 100, 200] {
        v.push((format!("deep:parens{d}"), format!("let x = {}1{}\n", "(".repeat(d), ")".repeat(d))));
        v.push((format!("deep:brackets{d}"), format!("let x = {}1{}\n", "[".repeat(d), "]".repeat(d))));
        v.push((format!("deep:blocks{d}"), format!("let x = {}1{}\n", "{ ".repeat(d), " }".repeat(d))));
        v.push((format!("deep:ifs{d}"), format!("{}println(1){}\n", "if true { ".repeat(d), " }".repeat(d))));
        v.push((format!("deep:lambdas{d}"), format!("let f = {}1\n", "(a) -> ".repeat(d))));
        v.push((format!("deep:not{d}"), format!("let b = {}true\n", "not ".repeat(d))));
        v.push((format!("deep:neg{d}"), format!("let n = {}1\n", "- ".repeat(d))));
        v.push((format!("deep:matches{d}"), format!("let m = {}0{}\n", "match 1 { _ -> ".repeat(d), " }".repeat(d))));
        v.push((format!("deep:types{d}"), format!("let a: {}int{} = []\n", "array<".repeat(d), ">".repeat(d))));
        v.push((format!("deep:tuplepat{d}"), format!("let {}a{} = 1\n", "(".repeat(d), ",)".repeat(d))));
        v.push((format!("deep:calls{d}"), format!("fn id(x: int) -> int {{ x }}\nlet c = {}1{}\n", "id(".repeat(d), ")".repeat(d))));
        v.push((format!("deep:members{d}"), format!("let s = \"a\"{}\n", ".len().str()".repeat(d))));
        v.push((format!("deep:unclosed-parens{d}"), format!("let x = {}1\n", "(".repeat(d))));
        v.push((format!("deep:unclosed-blocks{d}"), format!("fn f() {{ {}\n", "{ ".repeat(d))));
        v.push((format!("deep:closers{d}"), format!("{}\n", ") } ]".repeat(d))));
    }
    for &n in &[100usize, 500] {
        v.push((format!("long:plus-chain{n}"), format!("let s = 1{}\n", " + 1".repeat(n))));
        v.push((format!("long:concat-chain{n}"), format!("let s = \"a\"{}\n", " .. \"b\"".repeat(n))));
        v.push((format!("long:pow-chain{n}"), format!("let s = 1{}\n", " ^ 1".repeat(n))));
        v.push((format!("long:and-chain{n}"), format!("let s = true{}\n", " and true".repeat(n))));
        v.push((format!("long:array{n}"), format!("let s = [{}1]\n", "1, ".repeat(n))));
        v.push((format!("long:stmts{n}"), "let a = 1\n".repeat(n)));
        v.push((format!("long:fns{n}"), (0..n).map(|i| format!("fn f{i}() -> int {{ {i} }}\n")).collect::<String>()));
    }
    // D90: a frame with more than 16384 slots (register operands are 15 bits)
    v.push(("long:locals17000".into(), {
        let mut t = String::from("let x0 = 1\n");
        for i in 1..17000 {
            t.push_str(&format!("let x{i} = x{} + 1\n", i - 1));
        }
        t.push_str("println(x16999)\n");
        t
    }));
    v.push(("long:ident".into(), format!("let {} = 1\n", "a".repeat(20000))));
    v.push(("long:string".into(), format!("let s = \"{}\"\n", "é".repeat(20000))));
    v.push(("long:comment".into(), format!("// {}\nlet s = 1\n", "x".repeat(50000))));
    v.push(("long:int".into(), format!("let s = {}\n", "9".repeat(400))));
    v.push(("long:float".into(), format!("let s = 1.{}\n", "9".repeat(400))));
    v.push(("long:unterminated-string".into(), format!("let s = \"{}", "a\\".repeat(5000))));
    v.push(("long:unterminated-comment".into(), format!("/* {}", "*".repeat(5000))));
    v
}

fn shrink(text: &str, want: Option<&str>, n_workers: usize) -> String {
    let bounds: Vec<usize> = text.char_indices().map(|(i, _)| i).chain(std::iter::once(text.len())).collect();
    let step = (bounds.len() / (if want.is_none() { 28 } else { 120 })).max(1);
    let cuts: Vec<usize> = bounds.iter().step_by(step).copied().collect();
    let inputs: Vec<String> = cuts.iter().map(|&b| text[..b].to_string()).collect();
    let rs = run_workers(&["--worker"], &inputs, n_workers, std::time::Duration::from_secs(10));
    for (b, r) in cuts.iter().zip(rs) {
        match (&r, want) {
            (Res::Died(_), None) => return text[..*b].to_string(),
            (Res::Ok(s), Some(site)) => {
                if decode(s).crashes.iter().any(|c| c.1 == site) {
                    return text[..*b].to_string();
                }
            }
            _ => {}
        }
    }
    text.to_string()
}

fn main() {
    if std::env::args().nth(1).as_deref() == Some("--worker") {
        install_hook();
        worker_loop(|text| encode(&analyze(text)));
        return;
    }
    let mut ctx = Ctx::from_env("C04");
    let quick = ctx.quick();
    let corpus = corpus();
    ctx.notes.push(format!("corpus: {} programs ({} bytes)", corpus.len(), corpus.iter().map(|c| c.1.len()).sum::<usize>()));
    let mut jobs: Vec<(String, String)> = vec![];
    let n_mut = if quick { 5 } else { 250 };
    for (ci, (name, text)) in corpus.iter().enumerate() {
        jobs.push((format!("whole:{name}"), text.clone()));
        // quick: a rotating sixth of the corpus gets prefixes (line ends, behind dots, a stride)
        if !quick || (ci as u64 + ctx.seed) % 6 == 0 {
            for b in prefixes(text, !quick, 11) {
                jobs.push((format!("prefix:{name}@{b}"), text[..b].to_string()));
            }
        }
        for _ in 0..n_mut {
            let (mut t, mut op) = mutate(&mut ctx.rng, text);
            if ctx.rng.chance(1, 4) {
                let (t2, op2) = mutate(&mut ctx.rng, &t);
                t = t2;
                op = op2;
            }
            jobs.push((format!("mut:{op}:{name}"), t));
        }
    }
    for _ in 0..(if quick { 250 } else { 20000 }) {
        jobs.push(("garbage".into(), garbage(&mut ctx.rng)));
    }
    // the 17000-local frame (D90) takes minutes per analysis on a debug build: thorough tier only
    jobs.extend(deep_texts().into_iter().filter(|(l, _)| !quick || l != "long:locals17000"));
    // self-referential definitions through every type constructor; generic names with every type-argument count
    jobs.extend(infinite_type_texts());
    jobs.extend(arity_texts());
    // ill-formed declarations x default values / named arguments / shorthand; diverging expressions in every position
    jobs.extend(illformed_decl_texts());
    jobs.extend(diverging_texts());
    jobs.extend(literal_edge_texts());
    // editing states: balanced skeletons, truncated identifiers, shuffled items, impl / extend headers
    for (ci, (name, text)) in corpus.iter().enumerate() {
        let (bs, ts) = if quick {
            (balanced_states(text, 13, ci), identifier_truncations(text, false, 17, ci))
        } else {
            (balanced_states(text, 1, 0), identifier_truncations(text, true, 1, 0))
        };
        for t in bs {
            jobs.push((format!("edit:balanced:{name}"), t));
        }
        for t in ts {
            jobs.push((format!("edit:truncated-ident:{name}"), t));
        }
        for t in item_shuffles(&mut ctx.rng, text, if quick { 1 } else { 12 }) {
            jobs.push((format!("edit:items-shuffled:{name}"), t));
        }
    }
    jobs.extend(impl_header_texts());
    // every argument-list shape for every callee kind (quick: arity <= 2, four argument forms; thorough: arity <= 3, five)
    jobs.extend(if quick { call_shape_texts(2, false) } else { call_shape_texts(3, true) });
    jobs.extend(default_binding_texts());
    jobs.extend(default_context_texts());
    jobs.extend(namespace_texts());
    jobs.extend(assignment_texts());
    // two-file texts: every import form over a damaged / truncated / self-importing library file
    let heads = ["use lib1\n", "use lib1.(f, Pt)\n", "use lib1 except (f)\n", "use lib1 as lb\n", "use lib1\nuse lib1\n", "use lib1.(nothere)\n", "use main\nuse lib1\n"];
    let n_imp = if quick { 120 } else { 6000 };
    for k in 0..n_imp {
        let (_, base) = ctx.rng.pick(&corpus).clone();
        let lib = match k % 4 {
            0 => base.clone(),
            1 => mutate(&mut ctx.rng, &base).0,
            2 => {
                let ps = prefixes(&base, true, 1);
                base[..*ctx.rng.pick(&ps)].to_string()
            }
            _ => format!("use main\n{}", mutate(&mut ctx.rng, &base).0),
        };
        let head = *ctx.rng.pick(&heads);
        let body = *ctx.rng.pick(&["let a = f(1)\n", "let p = Pt(1, 2)\nprintln(p.x)\n", "println(lb.f(1))\n", "fn f(x: int) -> int { x }\nprintln(f(2))\n", ""]);
        jobs.push((format!("import:{}", ["whole", "mutated", "prefix", "cyclic"][k % 4]), format!("{head}{body}\x1e{lib}")));
    }
    let nw = n_threads();
    // regression inputs: the confirmed crashes whose fixes have landed (fecorpus::GATES); a crash is a failing input
    let gate_inputs: Vec<String> = GATES.iter().map(|(_, t)| t.to_string()).collect();
    let gate_res = run_workers(&["--worker"], &gate_inputs, GATES.len(), std::time::Duration::from_secs(20));
    for ((id, text), r) in GATES.iter().zip(gate_res) {
        let crashed = match &r {
            Res::Died(why) => Some(format!("takes the process down ({why})")),
            Res::Ok(s) => {
                let o = decode(s);
                if o.crashes.is_empty() { None } else { Some(format!("panics ({:?})", o.crashes[0])) }
            }
        };
        match crashed {
            Some(how) => ctx.spec_fail(format!("regression input {id} (a confirmed defect, see DESIGN §7): the front end {how} on {:?}", text)),
            None => ctx.count("regression-probe:pass"),
        }
    }
    let inputs: Vec<String> = jobs.iter().map(|j| j.1.clone()).collect();
    let results = run_workers(&["--worker"], &inputs, nw, std::time::Duration::from_secs(60));
    let mut seen: BTreeMap<String, u64> = BTreeMap::new();
    let mut disagree = 0;
    for ((label, text), r) in jobs.iter().zip(results) {
        let kind = label.split(':').take(if label.starts_with("mut") || label.starts_with("deep") || label.starts_with("long") || label.starts_with("import") || label.starts_with("inftype") || label.starts_with("arity") || label.starts_with("illdecl") || label.starts_with("diverge") || label.starts_with("litedge") || label.starts_with("defbind") || label.starts_with("edit") || label.starts_with("implhdr") || label.starts_with("callshape") || label.starts_with("defctx") || label.starts_with("nsuse") || label.starts_with("assign") { 2 } else { 1 }).collect::<Vec<_>>().join(":");
        let kind = kind.trim_end_matches(|c: char| c.is_ascii_digit()).to_string();
        ctx.count(&format!("text:{kind}"));
        if !text.is_ascii() {
            ctx.count("text:non-ascii");
        }
        let o = match r {
            Res::Ok(s) => decode(&s),
            Res::Died(why) => {
                let n = seen.entry(format!("process:{why}")).or_insert(0);
                *n += 1;
                if *n <= 3 {
                    let small = shrink(text, None, nw);
                    let show: String = if small.len() > 400 { format!("{}… ({} bytes)", small.chars().take(400).collect::<String>(), small.len()) } else { small };
                    ctx.spec_fail(format!(
                        "check / compile_bytecode / check_lsp takes the host process down ({why}: {}) on {label}: {:?}",
                        if why == "abort" { "stack overflow or abort, 64 MB stack" } else { "no answer after 300 s of CPU time when run alone" },
                        show
                    ));
                }
                continue;
            }
        };
        ctx.count(&format!("check:{}", o.check));
        ctx.count(&format!("compile:{}", o.compile));
        for (api, site, msg) in &o.crashes {
            let n = seen.entry(site.clone()).or_insert(0);
            *n += 1;
            if *n == 1 {
                let small = shrink(text, Some(site), nw);
                ctx.spec_fail(format!("{api} panics at {site} ({msg}) on the text {:?} (shortest panicking prefix of {label})", small));
            }
        }
        if o.crashes.is_empty() {
            // accept/reject agreement of the three entry points; a rejection carries text
            let lsp_ok = o.lsp == "0";
            if (o.check == "ok") != (o.compile == "ok") || (o.check == "ok") != lsp_ok || o.check == "diag-empty" || o.compile == "diag-empty" {
                disagree += 1;
                if disagree <= 3 {
                    ctx.spec_fail(format!("entry points disagree: check={}, compile_bytecode={}, check_lsp errors={} on {label}: {:?}", o.check, o.compile, o.lsp, text));
                }
            }
        }
        if o.lex == "crash" {
            let n = seen.entry("lexer".into()).or_insert(0);
            *n += 1;
            if *n == 1 {
                ctx.spec_fail(format!("the lexer panics on {label}: {:?}", text));
            }
        } else {
            ctx.count(if o.lex.contains("| U/") || o.lex.contains("| E/") || o.lex.contains(" U/") { "lex:diagnostics" } else { "lex:clean" });
            let main_text = text.split('\x1e').next().unwrap_or("");
            ctx.case(format!("lex {} #{}", hex_str(main_text), label.replace(' ', "_")), o.lex.clone());
        }
    }
    // the coverage witnesses with a known diagnostic: `check` must reject them with that message (in process; they
    // went through the worker phase above, so a crash has already been reported there)
    {
        for (name, expect, text) in WITNESS_B {
            if expect.is_empty() {
                continue;
            }
            ctx.count("witness-oracle");
            let r = catch_unwind(AssertUnwindSafe(|| abra_core::check("main.abra", provider(text, &[])).map_err(|e| e.to_string())));
            match r {
                Ok(Err(msg)) if msg.contains(expect) => {}
                Ok(Err(msg)) => ctx.spec_fail(format!("witness {name}: the diagnostics {:?} do not contain {:?}; text {:?}", msg.chars().take(300).collect::<String>(), expect, text)),
                Ok(Ok(())) => ctx.spec_fail(format!("witness {name} is accepted, expected the diagnostic {:?}; text {:?}", expect, text)),
                Err(p) => ctx.spec_fail(format!("witness {name}: check panics ({}) on {:?}", panic_msg(p), text)),
            }
        }
        for (id, text, words) in VERDICTS {
            ctx.count("verdict-probe");
            let r = catch_unwind(AssertUnwindSafe(|| {
                (abra_core::check("main.abra", provider(text, &[])).map_err(|e| e.to_string()), abra_core::compile_bytecode("main.abra", provider(text, &[])).map(|_| ()).map_err(|e| e.to_string()))
            }));
            match r {
                Ok((Err(a), Err(_))) if a.contains(words) => {}
                Ok((a, b)) => ctx.spec_fail(format!("verdict probe {id}: the text {:?} must be rejected with a diagnostic mentioning {:?}; check = {:?}, compile_bytecode = {:?}", text, words, a.map_err(|m| m.chars().take(200).collect::<String>()), b.map_err(|m| m.chars().take(80).collect::<String>()))),
                Err(p) => ctx.spec_fail(format!("verdict probe {id}: the front end panics ({}) on {:?}", panic_msg(p), text)),
            }
        }
        // degenerate arguments of the entry points
        let r = catch_unwind(|| {
            let mut bad: Vec<String> = vec![];
            // a main file that does not exist: an error with text, from all three entry points
            let none = || abra_core::MockFileProvider::new(Default::default());
            match abra_core::check("main.abra", none()) {
                Ok(()) => bad.push("check accepts a main file that does not exist".into()),
                Err(e) => {
                    if e.to_string().trim().is_empty() || e.to_string_ansi().trim().is_empty() {
                        bad.push("the error for a missing main file has no text".into());
                    }
                }
            }
            if abra_core::compile_bytecode("main.abra", none()).is_ok() {
                bad.push("compile_bytecode accepts a main file that does not exist".into());
            }
            // to_string_ansi of ordinary diagnostics
            if let Err(e) = abra_core::check("main.abra", provider("let x: int = \"s\"\nlet y = nothere\n", &[])) {
                let (a, b) = (e.to_string_ansi(), e.to_string());
                if a.trim().is_empty() || b.trim().is_empty() || !a.contains("nothere") && !b.contains("nothere") && !a.contains("resolve") {
                    bad.push(format!("diagnostics render without their content: {:?}", a.chars().take(120).collect::<String>()));
                }
            } else {
                bad.push("an ill-typed program is accepted".into());
            }
            // D94: a main file named prelude.abra is refused with a message, the built-in prelude itself is fine
            match abra_core::check("prelude.abra", Box::new(UserPrelude)) {
                Ok(()) => bad.push("D94: a main file named prelude.abra with a type error is accepted (silently skipped)".into()),
                Err(e) => {
                    if e.to_string().trim().is_empty() {
                        bad.push("D94: the refusal of a main file named prelude.abra has no text".into());
                    }
                }
            }
            if abra_core::compile_bytecode("prelude.abra", Box::new(UserPrelude)).is_ok() {
                bad.push("D94: compile_bytecode accepts a main file named prelude.abra with a type error".into());
            }
            bad
        });
        ctx.count("api-edge-cases");
        match r {
            Err(p) => ctx.spec_fail(format!("an entry point panics on a degenerate argument (missing main file / main file named prelude.abra / rendering of diagnostics): {}", panic_msg(p))),
            Ok(bad) => bad.into_iter().for_each(|b| ctx.spec_fail(b)),
        }
    }
    for (s, n) in &seen {
        *ctx.hist.entry(format!("crash@{s}")).or_insert(0) += n;
    }
    ctx.notes.push(format!("texts={} distinct failure sites={} entry-point disagreements={}", jobs.len(), seen.len(), disagree));
    ctx.finish();
}
