//! C17 correspondence: the six string instructions (`==` `!=` `<` `<=` `>` `>=` `..`) executed by the
//! real compiler + VM on structured string pairs, at step budgets 1..8 and one of {127,128,129,200,333,1000} (the embedder hands the
//! runtime `k` steps at a time, so budget boundaries fall inside the one-byte-per-step
//! instructions), in four operand forms (literal, variable, function argument, fresh heap string)
//! and under allocation pressure (the collector works between the steps of the instruction).
//! Each answer is compared with the Lean model `Abra.StrOps` run with the same slicing, and —
//! independently — with Rust's own byte-slice equality, ordering and concatenation (`spec_fail`).
//! A second stream ties the model's UTF-8 validity test to `std::str::from_utf8`.
use vh::*;

const ASCII: &[char] = &[
    'a', 'b', 'c', 'z', 'A', 'Z', '0', '9', ' ', '!', '~', '#', '{', '}', '$', '%', '/', '*', '.', ',', '(', ')',
];
const TRICKY: &[char] = &['"', '\\', '\'', '\n', '\t', '\r', '\0', '\u{1}', '\u{1f}', '\u{7f}'];
const MULTI: &[char] = &[
    '\u{80}', '\u{e9}', '\u{e8}', '\u{ff}', '\u{100}', '\u{7ff}', '\u{800}', '\u{20ac}', '\u{d7ff}', '\u{e000}',
    '\u{ffff}', '\u{10000}', '\u{1f600}', '\u{1f601}', '\u{10ffff}',
];

fn rand_char(rng: &mut Rng) -> char {
    match rng.below(10) {
        0..=5 => *rng.pick(ASCII),
        6 => *rng.pick(TRICKY),
        _ => *rng.pick(MULTI),
    }
}

fn rand_string(rng: &mut Rng, max_chars: u64) -> String {
    let n = rng.below(max_chars + 1);
    (0..n).map(|_| rand_char(rng)).collect()
}

/// Spell `s` as an Abra string literal.  Only spellings whose decoding is unambiguous in
/// `lexer.rs::process_escapes_into` are used: `\\ \" \' \n \t \r`, raw characters, and `\xNN` for
/// code points below 0x100 when at least one more character follows (the lexer requires it).
fn abra_lit(s: &str, rng: &mut Rng) -> String {
    let single = rng.chance(1, 4);
    let q = if single { '\'' } else { '"' };
    let cs: Vec<char> = s.chars().collect();
    let mut o = String::new();
    o.push(q);
    for (i, &c) in cs.iter().enumerate() {
        let last = i + 1 == cs.len();
        match c {
            '\\' => o.push_str("\\\\"),
            '"' if !single || rng.chance(1, 2) => o.push_str("\\\""),
            '\'' if single || rng.chance(1, 2) => o.push_str("\\'"),
            '\n' => o.push_str("\\n"),
            '\t' => o.push_str("\\t"),
            '\r' => o.push_str("\\r"),
            c if (c as u32) < 0x100 && !last && ((c as u32) < 0x20 || c as u32 == 0x7f || rng.chance(1, 5)) => {
                o.push_str(&format!("\\x{:02x}", c as u32));
            }
            c => o.push(c),
        }
    }
    o.push(q);
    o
}

/// split at a random char boundary: `s = l ++ r`
fn split(s: &str, rng: &mut Rng) -> (String, String) {
    let cs: Vec<char> = s.chars().collect();
    let k = rng.below(cs.len() as u64 + 1) as usize;
    (cs[..k].iter().collect(), cs[k..].iter().collect())
}

const FORMS: [&str; 5] = ["lit", "var", "arg", "heap", "gc"];

fn program(form: &str, a: &str, b: &str, rng: &mut Rng) -> String {
    let la = abra_lit(a, rng);
    let lb = abra_lit(b, rng);
    let body = |x: &str, y: &str| {
        format!(
            "println({x} == {y})\nprintln({x} != {y})\nprintln({x} < {y})\nprintln({x} <= {y})\nprintln({x} > {y})\nprintln({x} >= {y})\nprint({x} .. {y})\n"
        )
    };
    match form {
        "lit" => body(&la, &lb),
        "var" => format!("let a = {la}\nlet b = {lb}\n{}", body("a", "b")),
        "arg" => format!(
            "fn f(a: string, b: string) {{\n{}}}\nf({la}, {lb})\n",
            body("a", "b")
        ),
        "tmp" => {
            // operands are temporaries built at run time: once the instruction has popped them they are
            // reachable from the thread's string_operand registers only
            let (a1, a2) = split(a, rng);
            let (b1, b2) = split(b, rng);
            let x = format!("({} .. {})", abra_lit(&a1, rng), abra_lit(&a2, rng));
            let y = format!("({} .. {})", abra_lit(&b1, rng), abra_lit(&b2, rng));
            body(&x, &y)
        }
        "heap" => {
            // both operands are built at run time, so they are heap strings, not static ones
            let (a1, a2) = split(a, rng);
            let (b1, b2) = split(b, rng);
            format!(
                "let a = {} .. {}\nlet b = {} .. {}\n{}",
                abra_lit(&a1, rng),
                abra_lit(&a2, rng),
                abra_lit(&b1, rng),
                abra_lit(&b2, rng),
                body("a", "b")
            )
        }
        _ => {
            // allocation pressure: fresh heap operands and garbage every round, so that collector
            // increments (mark, sweep) run between the byte steps of the instructions; the operands
            // popped into the thread registers are reachable from there only
            let n = 12;
            format!(
                "let a0 = {la}\nlet b0 = {lb}\nvar ceq = 0\nvar cne = 0\nvar clt = 0\nvar cle = 0\nvar cgt = 0\nvar cge = 0\nvar ccat = 0\nvar first = a0 .. b0\nvar i = 0\nwhile i < {n} {{\n  let junk = [a0 .. b0, b0 .. a0, a0 .. a0]\n  if (a0 .. \"\") == (\"\" .. b0) {{ ceq = ceq + 1 }}\n  if (a0 .. \"\") != (\"\" .. b0) {{ cne = cne + 1 }}\n  if (a0 .. \"\") < (\"\" .. b0) {{ clt = clt + 1 }}\n  if (a0 .. \"\") <= (\"\" .. b0) {{ cle = cle + 1 }}\n  if (a0 .. \"\") > (\"\" .. b0) {{ cgt = cgt + 1 }}\n  if (a0 .. \"\") >= (\"\" .. b0) {{ cge = cge + 1 }}\n  if ((\"\" .. a0) .. (b0 .. \"\")) == first {{ ccat = ccat + 1 }}\n  i = i + 1\n}}\nprintln(ceq)\nprintln(cne)\nprintln(clt)\nprintln(cle)\nprintln(cgt)\nprintln(cge)\nprintln(ccat)\nprint((\"\" .. a0) .. (b0 .. \"\"))\n"
            )
        }
    }
}

/// Run `src` one VM step at a time with the collector under manual control (hook `verif_gc`): after
/// EVERY step of the main thread a complete collection cycle runs (Idle -> mark -> sweep -> Idle), so a
/// whole collection falls between any two byte steps of an in-flight string instruction, when its
/// operands may be reachable from `string_operand1/2` only.
fn run_gc_every_step(src: &str) -> RunResult {
    use abra_core::vm::{Runtime, RuntimeStatusKind, verif_gc};
    let r = std::panic::catch_unwind(std::panic::AssertUnwindSafe(|| {
        let program = match abra_core::compile_bytecode("main.abra", provider(src, &[])) {
            Ok(p) => p,
            Err(e) => return RunResult { outcome: Outcome::Rejected(e.to_string()), out: String::new(), err_text: String::new(), steps: 0 },
        };
        verif_gc::set_manual(true);
        let mut rt = Runtime::new(program);
        let mut out = String::new();
        let mut steps = 0u64;
        let mut err_text = String::new();
        let outcome = loop {
            let status = rt.run_n_steps(1);
            steps += status.steps_consumed as u64;
            match &status.kind {
                RuntimeStatusKind::Done => break Outcome::Done,
                RuntimeStatusKind::MainThreadError(e) => break Outcome::Error(error_kind(&e.to_string())),
                _ => {}
            }
            service_host(&mut rt, &mut out);
            for t in rt.iter_threads_mut() {
                // one full cycle: leave Idle, then step until Idle again
                verif_gc::step(t);
                let mut guard = 0;
                let mut snap = verif_gc::snapshot(t);
                while !snap.starts_with("phase=i") && guard < 100_000 {
                    verif_gc::step(t);
                    guard += 1;
                    snap = verif_gc::snapshot(t);
                }
                // after the collection every root (value stack, string_operand1/2) must still be a heap object
                if err_text.is_empty() {
                    if let Some(d) = dangling_root(&snap) {
                        err_text = format!("dangling root {d} after the collection that followed VM step {steps}");
                    }
                }
            }
            if steps > 2_000_000 {
                break Outcome::Timeout;
            }
        };
        verif_gc::set_manual(false);
        RunResult { outcome, out, err_text, steps }
    }));
    abra_core::vm::verif_gc::set_manual(false);
    match r {
        Ok(r) => r,
        Err(p) => RunResult { outcome: Outcome::Crash(panic_msg(p)), out: String::new(), err_text: String::new(), steps: 0 },
    }
}

/// `phase=.. heap=<addr>:<mark>:<kids>;.. roots=<a,..> gray=..` -> a root that is not in the heap list
fn dangling_root(snap: &str) -> Option<String> {
    let heap = snap.split(" heap=").nth(1)?.split(" roots=").next()?;
    let roots = snap.split(" roots=").nth(1)?.split(" gray=").next()?;
    let addrs: std::collections::HashSet<&str> = heap.split(';').filter(|x| !x.is_empty()).map(|o| o.split(':').next().unwrap()).collect();
    roots.split(',').filter(|x| !x.is_empty()).find(|r| !addrs.contains(r)).map(|x| x.to_string())
}

fn bit(b: bool) -> char {
    if b { '1' } else { '0' }
}

fn expected(a: &[u8], b: &[u8]) -> String {
    let mut cat = a.to_vec();
    cat.extend_from_slice(b);
    format!(
        "eq={} ne={} lt={} le={} gt={} ge={} cat={}",
        bit(a == b),
        bit(a != b),
        bit(a < b),
        bit(a <= b),
        bit(a > b),
        bit(a >= b),
        hex(&cat)
    )
}

/// canonical answer of the implementation from the program's output
fn render(form: &str, r: &RunResult) -> String {
    match &r.outcome {
        Outcome::Done => {}
        Outcome::Error(k) => return format!("err {k}"),
        o => return format!("other {} {}", o.tag(), match o { Outcome::Crash(m) | Outcome::Rejected(m) => m.replace(['\n', '\t'], " ").chars().take(120).collect::<String>(), _ => String::new() }),
    }
    let out = r.out.as_bytes();
    let nlines = if form == "gc" { 7 } else { 6 };
    let mut fields: Vec<&[u8]> = vec![];
    let mut pos = 0;
    for _ in 0..nlines {
        match out[pos..].iter().position(|&c| c == b'\n') {
            Some(e) => {
                fields.push(&out[pos..pos + e]);
                pos += e + 1;
            }
            None => return format!("other bad-output {}", hex(out)),
        }
    }
    let rest = &out[pos..];
    let names = ["eq", "ne", "lt", "le", "gt", "ge"];
    let mut s = String::new();
    for (i, n) in names.iter().enumerate() {
        let v = std::str::from_utf8(fields[i]).unwrap_or("?");
        let b = if form == "gc" {
            match v {
                "12" => "1",
                "0" => "0",
                _ => "mixed",
            }
        } else {
            match v {
                "true" => "1",
                "false" => "0",
                _ => "?",
            }
        };
        s.push_str(&format!("{n}={b} "));
    }
    if form == "gc" && fields[6] != b"12" {
        return format!("{s}cat=unstable({})", String::from_utf8_lossy(fields[6]));
    }
    s.push_str(&format!("cat={}", hex(rest)));
    s
}

/// 14 lines: a b r | a aa | t arr[0] arr[1] m r1 r2 m a b; a variable read several times must read the same
fn render_frame(r: &RunResult) -> String {
    match &r.outcome {
        Outcome::Done => {}
        Outcome::Error(k) => return format!("err {k}"),
        o => return format!("other {}", o.tag()),
    }
    let body = match r.out.strip_suffix('\n') { Some(b) => b, None => return format!("other bad-output {}", hex(r.out.as_bytes())) };
    let ls: Vec<&str> = body.split('\n').collect();
    if ls.len() != 14 {
        return format!("other bad-output {} lines: {}", ls.len(), hex(r.out.as_bytes()));
    }
    let same = |name: &str, idx: &[usize]| -> String {
        let first = ls[idx[0]];
        match idx.iter().find(|i| ls[**i] != first) {
            None => format!("{name}={}", hex(first.as_bytes())),
            Some(i) => format!("{name}=changed:{}/{}", hex(first.as_bytes()), hex(ls[*i].as_bytes())),
        }
    };
    [same("a", &[0, 3, 5, 6, 12]), same("b", &[1, 7, 13]), same("r", &[2]), same("aa", &[4]), same("m", &[8, 11]), same("r1", &[9]), same("r2", &[10])].join(" ")
}

fn pairs(ctx: &mut Ctx) -> Vec<(String, String, &'static str)> {
    let quick = ctx.quick();
    let rng = &mut ctx.rng;
    let mut v: Vec<(String, String, &'static str)> = vec![];
    let scale = if quick { 1 } else { 12 };
    // fixed corner cases
    for (a, b) in [
        ("", ""), ("", "a"), ("a", ""), ("a", "a"), ("a", "b"), ("b", "a"), ("a", "ab"), ("ab", "a"),
        ("ab", "b"), ("b", "ab"), ("\u{7f}", "\u{80}"), ("\u{e9}", "\u{e8}"), ("\u{e9}", "e"), ("z", "\u{e9}"),
        ("\u{ffff}", "\u{10000}"), ("\u{d7ff}", "\u{e000}"), ("\0", ""), ("\0", "\0\0"), ("a\0b", "a\0c"),
        ("\"", "\\"), ("'", "\""), ("\n", "\r"), ("\u{1f600}", "\u{1f601}"), ("\u{1f600}", "\u{1f600}"),
        ("\u{ff}", "\u{100}"), ("aaaaaaaaaaaaaaaa", "aaaaaaaaaaaaaaaa"), ("aaaaaaaaaaaaaaaa", "aaaaaaaaaaaaaaab"),
    ] {
        v.push((a.into(), b.into(), "corner"));
    }
    for _ in 0..40 * scale {
        let s = rand_string(rng, 10);
        let t = rand_string(rng, 10);
        v.push((s, t, "random"));
    }
    for _ in 0..25 * scale {
        let s = rand_string(rng, 10);
        v.push((s.clone(), s, "equal"));
    }
    for _ in 0..25 * scale {
        let s = rand_string(rng, 8);
        let mut t = s.clone();
        t.push_str(&rand_string(rng, 3));
        if rng.chance(1, 2) { v.push((s, t, "prefix")) } else { v.push((t, s, "extension")) }
    }
    for _ in 0..25 * scale {
        v.push((String::new(), rand_string(rng, 6), "empty-left"));
        v.push((rand_string(rng, 6), String::new(), "empty-right"));
    }
    // first difference at each position, with equal and with different lengths
    for _ in 0..12 * scale {
        let s: Vec<char> = rand_string(rng, 9).chars().collect();
        for i in 0..s.len() {
            let mut t = s.clone();
            let mut c = rand_char(rng);
            if c == t[i] { c = if t[i] == 'q' { 'r' } else { 'q' }; }
            t[i] = c;
            if rng.chance(1, 3) { t.truncate(i + 1 + rng.below((s.len() - i) as u64) as usize); }
            if rng.chance(1, 3) { t.push(rand_char(rng)); }
            v.push((s.iter().collect(), t.iter().collect(), "first-diff"));
        }
    }
    // last byte of a multi-byte character differs / same lead byte
    for _ in 0..15 * scale {
        let p = rand_string(rng, 4);
        let x = *rng.pick(MULTI);
        let y = char::from_u32(x as u32 + 1).filter(|c| c.len_utf8() == x.len_utf8()).unwrap_or(x);
        v.push((format!("{p}{x}"), format!("{p}{y}"), "multibyte-tail"));
    }
    // long operands: many steps per instruction
    for _ in 0..6 * scale {
        let n = 40 + rng.below(160) as usize;
        let s: String = (0..n).map(|_| rand_char(rng)).collect();
        let mut t = s.clone();
        match rng.below(3) {
            0 => {}
            1 => t.push('x'),
            _ => { t.pop(); t.push('\u{0}'); }
        }
        v.push((s, t, "long"));
    }
    v
}

fn main() {
    let mut ctx = Ctx::from_env("C17");
    let ps = pairs(&mut ctx);
    struct Job { req: String, src: String, form: &'static str, class: &'static str, k: u32, a: String, b: String }
    let mut jobs: Vec<Job> = vec![];
    for (a, b, class) in &ps {
        // every pair at every budget 1..8; the operand form rotates so each (class, budget, form) occurs
        let f0 = ctx.rng.below(FORMS.len() as u64) as usize;
        // budgets 1..8 cut inside the byte-per-step instructions; one rotating large budget (a slice that ends
        // by exhaustion after hundreds of steps, possibly in the middle of an operation) per pair as well
        let big = [127u32, 128, 129, 200, 333, 1000][ctx.rng.below(6) as usize];
        for k in (1u32..=8).chain(std::iter::once(big)) {
            let form = FORMS[(f0 + k as usize) % FORMS.len()];
            if form == "gc" && a.len() + b.len() > 120 { continue; }
            let src = program(form, a, b, &mut ctx.rng);
            jobs.push(Job {
                req: format!("str ops {k} {} {} #{form}", hex(a.as_bytes()), hex(b.as_bytes())),
                src, form, class, k, a: a.clone(), b: b.clone(),
            });
        }
    }
    // byte intrinsics: string_count_bytes / string_nth_byte at every index class (negative, 0, middle, last,
    // len, beyond, i64 extremes), on literal, variable, run-time built strings and with the result in a local
    let n_byte = if ctx.quick() { 45 } else { 500 };
    for bi in 0..n_byte {
        let (a, _, class) = &ps[(bi * 6113 + 5) % ps.len()];
        if a.len() > 60 { continue; }
        let len = a.len() as i64;
        let mut idxs: Vec<i64> = vec![-1, 0, len - 1, len, len + 1, i64::MIN, i64::MAX, len / 2];
        idxs.sort(); idxs.dedup();
        let la = abra_lit(a, &mut ctx.rng);
        jobs.push(Job { req: format!("str count {} #count", hex(a.as_bytes())), src: format!("let s = {la}\nlet n = string_count_bytes(s)\nprintln(n)\n"), form: "bytes", class, k: 1 + (bi % 8) as u32, a: a.clone(), b: String::new() });
        for (j, n) in idxs.iter().enumerate() {
            let (a1, a2) = split(a, &mut ctx.rng);
            let src = match (bi + j) % 4 {
                0 => format!("println(string_nth_byte({la}, {n}))\n"),
                1 => format!("let s = {la}\nlet i = {n}\nlet b = string_nth_byte(s, i)\nprintln(b)\n"),
                2 => format!("let s = {} .. {}\nprintln(string_nth_byte(s, {n}))\n", abra_lit(&a1, &mut ctx.rng), abra_lit(&a2, &mut ctx.rng)),
                _ => format!("fn at(s: string, i: int) -> int {{\n  let b = string_nth_byte(s, i)\n  b\n}}\nprintln(at({la}, {n}))\n"),
            };
            jobs.push(Job { req: format!("str nth {} {n} #nth", hex(a.as_bytes())), src, form: "bytes", class, k: 1 + ((bi + j) % 8) as u32, a: a.clone(), b: n.to_string() });
        }
    }
    // frame condition: strings are immutable values — after `..` (and after println, which is `str(x) .. "\n"`)
    // the operands, aliases of them and containers sharing them still hold their bytes; operands are built at
    // run time (heap objects, not static literals), every budget 1..8
    let n_frame = if ctx.quick() { 60 } else { 700 };
    let mut fi = 0usize;
    let mut taken = 0usize;
    while taken < n_frame && fi < ps.len() * 3 {
        let (a, b, class) = &ps[(fi * 7907 + 13) % ps.len()];
        fi += 1;
        if a.contains('\n') || b.contains('\n') || a.len() + b.len() > 60 { continue; }
        taken += 1;
        let (a1, a2) = split(a, &mut ctx.rng);
        let (b1, b2) = split(b, &mut ctx.rng);
        for k in 1u32..=8 {
            if !ctx.quick() || (taken + k as usize) % 2 == 0 {
                let rng = &mut ctx.rng;
                let src = format!(
                    "let a = {} .. {}\nlet b = {} .. {}\nlet r = a .. b\nprintln(a)\nprintln(b)\nprintln(r)\nlet aa = a .. a\nprintln(a)\nprintln(aa)\nlet t = a\nlet arr = [a, b]\nlet m = a .. b\nlet r1 = m .. a\nlet r2 = m .. b\nprintln(t)\nprintln(arr[0])\nprintln(arr[1])\nprintln(m)\nprintln(r1)\nprintln(r2)\nprintln(m)\nprintln(a)\nprintln(b)\n",
                    abra_lit(&a1, rng), abra_lit(&a2, rng), abra_lit(&b1, rng), abra_lit(&b2, rng));
                jobs.push(Job {
                    req: format!("str frame {k} {} {} {} {} #frame", hex(a1.as_bytes()), hex(a2.as_bytes()), hex(b1.as_bytes()), hex(b2.as_bytes())),
                    src, form: "frame", class, k, a: a.clone(), b: b.clone(),
                });
            }
        }
    }
    // a complete collection between every two VM steps (budget 1), operands built at run time
    let n_full = if ctx.quick() { 70 } else { 600 };
    for i in 0..n_full {
        let (a, b, class) = &ps[(i * 7919) % ps.len()];
        if a.len() + b.len() > 40 { continue; }
        let src = program("tmp", a, b, &mut ctx.rng);
        jobs.push(Job {
            req: format!("str ops 1 {} {} #gcfull", hex(a.as_bytes()), hex(b.as_bytes())),
            src, form: "gcfull", class, k: 1, a: a.clone(), b: b.clone(),
        });
    }
    let results = par_map(&jobs, |j| {
        if j.form == "gcfull" {
            let r = run_gc_every_step(&j.src);
            if !r.err_text.is_empty() {
                return format!("unsafe {}", r.err_text);
            }
            return render("heap", &r);
        }
        let r = run_program_opts(&j.src, &RunOpts { budgets: vec![j.k], max_steps: 20_000_000, files: vec![] });
        if j.form == "frame" {
            return render_frame(&r);
        }
        if j.form == "bytes" {
            return match &r.outcome {
                Outcome::Done => format!("ok {}", r.out.trim()),
                Outcome::Error(k) => format!("err {k}"),
                o => format!("other {}", o.tag()),
            };
        }
        render(j.form, &r)
    });
    for (j, imp) in jobs.iter().zip(results) {
        ctx.count(&format!("class:{}", j.class));
        ctx.count(&format!("form:{}", j.form));
        ctx.count(&format!("budget:{}", j.k));
        let (ab, bb) = (j.a.as_bytes(), j.b.as_bytes());
        let common = ab.iter().zip(bb.iter()).take_while(|(x, y)| x == y).count();
        if j.form == "bytes" {
            let n: i128 = j.b.parse().unwrap_or(-7);
            ctx.count(if j.b.is_empty() { "bytes:count" } else if n < 0 { "bytes:index-negative" } else if n >= ab.len() as i128 { "bytes:index-past-end" } else { "bytes:index-in-range" });
        } else {
        ctx.count(if ab == bb { "branch:equal" }
                  else if common == ab.len() || common == bb.len() { "branch:exhausted" }
                  else if ab[common] < bb[common] { "branch:byte-less" } else { "branch:byte-greater" });
        if ab.len() != bb.len() { ctx.count("branch:eq-length-differs"); }
        if ab.len() + bb.len() + 1 > j.k as usize { ctx.count("sliced:concat-spans-budgets"); }
        if common + 1 > j.k as usize { ctx.count("sliced:compare-spans-budgets"); }
        if !j.a.is_ascii() || !j.b.is_ascii() { ctx.count("bytes:non-ascii"); }
        }
        let spec = if j.form == "bytes" {
            if j.b.is_empty() { format!("ok {}", ab.len()) } else {
                let n: i64 = j.b.parse().unwrap();
                if n >= 0 && (n as u128) < ab.len() as u128 { format!("ok {}", ab[n as usize]) } else { "err oob".to_string() }
            }
        } else if j.form == "frame" {
            let cat = |x: &[u8], y: &[u8]| { let mut v = x.to_vec(); v.extend_from_slice(y); v };
            let m = cat(ab, bb);
            format!("a={} b={} r={} aa={} m={} r1={} r2={}", hex(ab), hex(bb), hex(&m), hex(&cat(ab, ab)), hex(&m), hex(&cat(&m, ab)), hex(&cat(&m, bb)))
        } else { expected(ab, bb) };
        if imp != spec {
            ctx.spec_fail(format!(
                "budget {} form {}: a={:?} b={:?}: implementation `{imp}`, byte-exact answer `{spec}`\n--- program\n{}",
                j.k, j.form, j.a, j.b, j.src
            ));
        }
        ctx.case(j.req.clone(), imp);
    }
    // the model's UTF-8 validity test (behind `String::from_utf8(builder).unwrap()`) vs Rust's own
    let n_utf = if ctx.quick() { 1500 } else { 40000 };
    for i in 0..n_utf {
        let mut bytes: Vec<u8> = match i % 3 {
            0 => rand_string(&mut ctx.rng, 4).into_bytes(),
            1 => (0..ctx.rng.below(5)).map(|_| ctx.rng.next() as u8).collect(),
            _ => {
                let lead = *ctx.rng.pick(&[0xC0u8, 0xC1, 0xC2, 0xDF, 0xE0, 0xE1, 0xEC, 0xED, 0xEE, 0xEF, 0xF0, 0xF1, 0xF3, 0xF4, 0xF5, 0xFF, 0x80, 0xBF, 0x7F]);
                let mut v = vec![lead];
                for _ in 0..ctx.rng.below(4) {
                    v.push(*ctx.rng.pick(&[0x7Fu8, 0x80, 0x8F, 0x90, 0x9F, 0xA0, 0xBF, 0xC0, 0x00]));
                }
                v
            }
        };
        if ctx.rng.chance(1, 4) && !bytes.is_empty() {
            // mutate one byte of something valid / truncate
            let k = ctx.rng.below(bytes.len() as u64) as usize;
            if ctx.rng.chance(1, 2) { bytes[k] ^= 1 << ctx.rng.below(8); } else { bytes.truncate(k); }
        }
        let ok = std::str::from_utf8(&bytes).is_ok();
        ctx.count(if ok { "utf8:valid" } else { "utf8:invalid" });
        ctx.case(format!("str utf8 {}", hex(&bytes)), if ok { "valid" } else { "invalid" });
    }
    ctx.finish();
}
