//! C25 correspondence: the prelude's `sort` / `sort_by` / `sort_by_key`, compiled and run by the real
//! compiler + VM on arrays of every length around the run/merge boundaries, against the Lean model
//! `Abra.Lib.sortBy`; plus sorted / permutation / stable checked directly on the implementation's
//! output (executable statement of the property, independent of the model).
use vh::*;

type El = (i64, i64);

#[derive(Clone, Copy, PartialEq, Debug)]
enum Cmp { Int, Lex, Le, Ge, Key, KeyMod, Lt, TT, FF, Cyc }

const ALL: [Cmp; 10] = [Cmp::Int, Cmp::Lex, Cmp::Le, Cmp::Ge, Cmp::Key, Cmp::KeyMod, Cmp::Lt, Cmp::TT, Cmp::FF, Cmp::Cyc];

impl Cmp {
    fn name(self) -> &'static str {
        match self {
            Cmp::Int => "int", Cmp::Lex => "lex", Cmp::Le => "le", Cmp::Ge => "ge", Cmp::Key => "key",
            Cmp::KeyMod => "keymod", Cmp::Lt => "lt", Cmp::TT => "tt", Cmp::FF => "ff", Cmp::Cyc => "cyc",
        }
    }
    fn lawful(self) -> bool {
        !matches!(self, Cmp::Lt | Cmp::TT | Cmp::FF | Cmp::Cyc)
    }
    /// the comparison the *property* speaks about (only for the lawful ones), written independently in Rust
    fn le(self, a: El, b: El) -> bool {
        match self {
            Cmp::Int | Cmp::Le | Cmp::Key => a.0 <= b.0,
            Cmp::Lex => a <= b,
            Cmp::Ge => a.0 >= b.0,
            Cmp::KeyMod => a.0.rem_euclid(5) <= b.0.rem_euclid(5),
            _ => unreachable!(),
        }
    }
    /// the Abra statement that sorts `a`
    fn call(self) -> &'static str {
        match self {
            Cmp::Int | Cmp::Lex => "a.sort()\n",
            Cmp::Le => "a.sort_by((x, y) -> {\n  let (k1, _) = x\n  let (k2, _) = y\n  k1 <= k2\n})\n",
            Cmp::Ge => "a.sort_by((x, y) -> {\n  let (k1, _) = x\n  let (k2, _) = y\n  k1 >= k2\n})\n",
            Cmp::Key => "a.sort_by_key(x -> {\n  let (k, _) = x\n  k\n})\n",
            Cmp::KeyMod => "a.sort_by_key(x -> {\n  let (k, _) = x\n  k % 5\n})\n",
            Cmp::Lt => "a.sort_by((x, y) -> {\n  let (k1, _) = x\n  let (k2, _) = y\n  k1 < k2\n})\n",
            Cmp::TT => "a.sort_by((x, y) -> true)\n",
            Cmp::FF => "a.sort_by((x, y) -> false)\n",
            Cmp::Cyc => "a.sort_by((x, y) -> {\n  let (k1, _) = x\n  let (k2, _) = y\n  (k1 % 3 == k2 % 3) or ((k1 % 3 + 1) % 3 == k2 % 3)\n})\n",
        }
    }
}

fn program(cmp: Cmp, els: &[El]) -> String {
    let mut s = String::new();
    if cmp == Cmp::Int {
        let body: Vec<String> = els.iter().map(|e| format!("{}", e.0)).collect();
        s.push_str(&format!("let a: array<int> = [{}]\n", body.join(", ")));
        s.push_str(cmp.call());
        s.push_str("for x in a {\n  print(x)\n  print(\" \")\n}\n");
    } else {
        let body: Vec<String> = els.iter().map(|e| format!("({}, {})", e.0, e.1)).collect();
        s.push_str(&format!("let a: array<(int, int)> = [{}]\n", body.join(", ")));
        s.push_str(cmp.call());
        s.push_str("for x in a {\n  let (k, t) = x\n  print(k)\n  print(\",\")\n  print(t)\n  print(\" \")\n}\n");
    }
    s
}

fn show(cmp: Cmp, els: &[El]) -> String {
    if els.is_empty() {
        return "-".into();
    }
    let v: Vec<String> = els
        .iter()
        .map(|e| if cmp == Cmp::Int { format!("{}", e.0) } else { format!("{},{}", e.0, e.1) })
        .collect();
    v.join(" ")
}

fn parse_out(cmp: Cmp, out: &str) -> Option<Vec<El>> {
    let mut v = vec![];
    for w in out.split_whitespace() {
        if cmp == Cmp::Int {
            v.push((w.parse().ok()?, 0));
        } else {
            let (k, t) = w.split_once(',')?;
            v.push((k.parse().ok()?, t.parse().ok()?));
        }
    }
    Some(v)
}

/// keys from ranges of size 1, 2, 5 and the whole of i64 (with the extremes made likely)
fn gen_keys(rng: &mut Rng, n: usize, range: u8) -> Vec<i64> {
    (0..n)
        .map(|_| match range {
            0 => 7,
            1 => rng.range(0, 1),
            2 => rng.range(-2, 2),
            3 => match rng.below(8) {
                0 => i64::MIN,
                1 => i64::MAX,
                2 => rng.range(-3, 3),
                _ => rng.next() as i64,
            },
            // already sorted / reverse sorted / saw-tooth shapes are produced by the caller
            _ => rng.range(0, 40),
        })
        .collect()
}

fn len_class(n: usize) -> String {
    match n {
        0 => "len:0".into(),
        1 => "len:1".into(),
        2..=31 => "len:2-31".into(),
        32 => "len:32".into(),
        33 => "len:33".into(),
        34..=63 => "len:34-63".into(),
        64 => "len:64".into(),
        65 => "len:65".into(),
        66..=127 => "len:66-127".into(),
        128 => "len:128".into(),
        129 => "len:129".into(),
        130..=255 => "len:130-255".into(),
        256 => "len:256".into(),
        257 => "len:257".into(),
        _ => "len:258+".into(),
    }
}

struct Job { cmp: Cmp, els: Vec<El>, range: u8, shape: &'static str }

fn main() {
    let mut ctx = Ctx::from_env("C25");
    let quick = ctx.quick();
    let mut lens: Vec<usize> = if quick { (0..=70).collect() } else { (0..=300).collect() };
    if quick {
        lens.extend_from_slice(&[95, 96, 97, 127, 128, 129, 160, 191, 192, 193, 255, 256, 257, 300]);
    } else {
        // boundaries once more with other data, and a few beyond 300 (4 and 5 merge rounds)
        lens.extend_from_slice(&[31, 32, 33, 63, 64, 65, 127, 128, 129, 255, 256, 257, 511, 512, 513, 700]);
    }
    let reps = if quick { 1 } else { 2 };
    let mut jobs: Vec<Job> = vec![];
    for &n in &lens {
        for cmp in ALL {
            for _ in 0..reps {
                let range = ctx.rng.below(5) as u8;
                let mut keys = gen_keys(&mut ctx.rng, n, range);
                let shape = match ctx.rng.below(8) {
                    0 => { keys.sort(); "ascending" }
                    1 => { keys.sort(); keys.reverse(); "descending" }
                    2 => {
                        // sorted runs of 32 that interleave: stresses the merge branches evenly
                        for c in keys.chunks_mut(32) { c.sort(); }
                        "sorted-runs"
                    }
                    _ => "random",
                };
                // tags: the original index (so equal keys stay distinguishable), or for `lex` a small
                // random tag so that whole elements repeat
                let small_tags = cmp == Cmp::Lex && ctx.rng.chance(1, 2);
                let els: Vec<El> = keys
                    .iter()
                    .enumerate()
                    .map(|(i, &k)| (k, if cmp == Cmp::Int { 0 } else if small_tags { ctx.rng.range(-1, 1) } else { i as i64 }))
                    .collect();
                jobs.push(Job { cmp, els, range, shape });
            }
        }
    }
    let results = par_map(&jobs, |j| {
        run_program_opts(&program(j.cmp, &j.els), &RunOpts { max_steps: 50_000_000, ..Default::default() })
    });
    for (j, r) in jobs.iter().zip(results) {
        let n = j.els.len();
        let req = format!("sort {} {}", j.cmp.name(), if n == 0 { String::new() } else { show(j.cmp, &j.els) });
        let req = req.trim_end().to_string();
        ctx.count(&format!("cmp:{}", j.cmp.name()));
        ctx.count(&len_class(n));
        ctx.count(&format!("keyrange:{}", ["1", "2", "5", "i64", "40"][j.range as usize]));
        ctx.count(&format!("shape:{}", j.shape));
        // structure of the merge phase for this length (mirrors the source's index arithmetic)
        let mut w = 32usize;
        let mut passes = 0;
        while w < n {
            passes += 1;
            let mut left = 0usize;
            while left < n {
                let mid = left + w - 1;
                let right = (left + 2 * w - 1).min(n - 1);
                if mid < right {
                    ctx.count(if right - mid < w { "merge:short-right-block" } else { "merge:full-blocks" });
                } else {
                    ctx.count(if n - left < w { "merge:skip-short-lone-block" } else { "merge:skip-full-lone-block" });
                }
                left += 2 * w;
            }
            w *= 2;
        }
        ctx.count(&format!("passes:{passes}"));
        let imp = match &r.outcome {
            Outcome::Done => match parse_out(j.cmp, &r.out) {
                Some(out) => {
                    // the property itself, on the implementation's output
                    let what = || format!("{} on {}", j.cmp.name(), show(j.cmp, &j.els));
                    let mut a = j.els.clone();
                    let mut b = out.clone();
                    a.sort();
                    b.sort();
                    if a != b {
                        ctx.spec_fail(format!("not a permutation: {} gave {}", what(), show(j.cmp, &out)));
                    }
                    if j.cmp.lawful() {
                        if out.windows(2).any(|p| !j.cmp.le(p[0], p[1])) {
                            ctx.spec_fail(format!("not sorted: {} gave {}", what(), show(j.cmp, &out)));
                        }
                        // stability: every equivalence class keeps its original order
                        let mut reps: Vec<El> = vec![];
                        for &x in &j.els {
                            if !reps.iter().any(|&y| j.cmp.le(x, y) && j.cmp.le(y, x)) {
                                reps.push(x);
                            }
                        }
                        for &x in &reps {
                            let eqv = |y: &&El| j.cmp.le(x, **y) && j.cmp.le(**y, x);
                            let before: Vec<&El> = j.els.iter().filter(eqv).collect();
                            let after: Vec<&El> = out.iter().filter(eqv).collect();
                            if before != after {
                                ctx.spec_fail(format!("not stable (class of {:?}): {} gave {}", x, what(), show(j.cmp, &out)));
                                break;
                            }
                        }
                        ctx.count("spec-checked:sorted+perm+stable");
                    } else {
                        ctx.count("spec-checked:perm-only(unlawful comparator)");
                    }
                    show(j.cmp, &out)
                }
                None => format!("unparsable {}", r.out.replace(['\n', '\t'], " ")),
            },
            o => {
                ctx.spec_fail(format!("sorting did not finish normally ({}): {} on {}", o.tag(), j.cmp.name(), show(j.cmp, &j.els)));
                format!("other {}", o.tag())
            }
        };
        ctx.case(req, imp);
    }
    ctx.finish();
}
