//! C21 correspondence: name resolution over generated multi-file programs.
//!
//! An abstract description (≤ 4 files, names from a pool of 6 ordinary names plus one prelude name
//! and one intrinsic name, every import form incl. imports of a missing file / of the file itself /
//! of the same file twice, bodies with let / block / while / for / match-arm / lambda-parameter
//! binders nested ≤ 3 deep, plain and alias-qualified uses) is rendered to Abra source.  Every
//! declaration prints a unique tag, every use is a call, so the program's output names the declaration
//! each use reached; unresolved names, bad imports and clashes are read from `check_lsp(..).errors()`.
//! * vs the Lean model (`names …`): same per-file tag traces, or same clash multiset / unresolved
//!   use set / bad import count.
//! * vs the property itself (`spec_fail`): an independent environment-passing reference (lexical
//!   scoping; visible names of a file = builtins ∪ prelude ∪ own ∪ what each import form lets
//!   through; clash = a name supplied twice) must agree with the implementation.
use abra_core::check_lsp;
use std::collections::{BTreeMap, HashMap};
use std::panic::{AssertUnwindSafe, catch_unwind};
use vh::*;
#[path = "../bg8_probes.rs"]
mod bg8_probes;
use bg8_probes::{Probe, Want, run_probes};

const POOL: [&str; 6] = ["a", "b", "c", "d", "e", "f"];
/// names of enums and interfaces (child namespaces), and of enum variants
const TYPE_POOL: [&str; 3] = ["Ea", "Eb", "Ec"];
const VARIANTS: [&str; 3] = ["Va", "Vb", "Vc"];
const PRELUDE_NAME: &str = "assert";
const INTRINSIC_NAME: &str = "add_int";

#[derive(Clone, Debug)]
enum Imp {
    Glob(usize),
    Incl(usize, Vec<String>),
    Excl(usize, Vec<String>),
    As(usize, String),
    Missing,
}

#[derive(Clone, Debug)]
enum St {
    Let(String, usize),
    Use(String),
    QUse(String, String),
    Block(u8, Vec<St>), // rendering variant: 0 bare block, 1 `if true`, 2 while-once
    For(String, usize, Vec<St>),
    Match(String, usize, Vec<St>),
    Lam(String, usize, Vec<St>),
    /// a binder (Let / For / Match) whose DEFINING expression (initialiser / iterable / scrutinee) uses a
    /// name — typically the very name being bound: it must resolve outside the binder
    DefUse(String, Box<St>),
    /// match with several arms, each binding at most one name and each with its own scope
    MArms(usize, Vec<(Option<(String, usize)>, Vec<St>)>),
    /// if / else (both branches are executed once by the rendering)
    IfElse(usize, Vec<St>, Vec<St>),
    /// qualified variant pattern `Ty.V` in a match arm (resolved through `lookup_namespace`)
    PMatch(String, String),
    /// variant expression `[alias.]Ty.V` (resolved through the declarations)
    EUse(Option<String>, String, String),
}

#[derive(Clone, Debug)]
struct TypeD {
    name: String,
    is_enum: bool,
    members: Vec<String>,
}

#[derive(Clone, Debug, Default)]
struct FileD {
    decls: Vec<String>,
    types: Vec<TypeD>,
    imports: Vec<Imp>,
    probe: Vec<St>,
    top: Vec<St>,
}

#[derive(Clone, Debug)]
struct World {
    files: Vec<FileD>,
}

// ------------------------------------------------------------------ generation
struct Gen<'a> {
    rng: &'a mut Rng,
    next_id: usize,
    /// all type names declared anywhere in the world / visible in the file whose body is generated
    type_names: Vec<String>,
    visible_types: Vec<String>,
    /// visible enums with their variants
    visible_enums: Vec<(String, Vec<String>)>,
    /// only generate uses that resolve (names visible at that point, existing variants)
    strict: bool,
    /// names bound inside the sibling scope closed last
    ghost: Vec<String>,
}

impl<'a> Gen<'a> {
    fn name(&mut self) -> String {
        match self.rng.below(20) {
            0 => PRELUDE_NAME.to_string(),
            1 => INTRINSIC_NAME.to_string(),
            _ => POOL[self.rng.below(POOL.len() as u64) as usize].to_string(),
        }
    }
    fn names(&mut self, max: u64) -> Vec<String> {
        let n = 1 + self.rng.below(max);
        (0..n)
            .map(|_| if self.rng.chance(1, 3) { TYPE_POOL[self.rng.below(3) as usize].to_string() } else { self.name() })
            .collect()
    }
    fn id(&mut self) -> usize {
        self.next_id += 1;
        self.next_id
    }
    /// `env`: names callable at this point (locals and file-level functions); `members`: alias ↦ names
    /// reachable through it.  Uses pick a visible name 9 times out of 10.
    fn stmts(&mut self, depth: u32, env: &mut Vec<String>, members: &[(String, Vec<String>)], len: u64) -> Vec<St> {
        let n = 1 + self.rng.below(len);
        let mut v = vec![];
        for _ in 0..n {
            // a name bound inside the sibling scope that was just closed: a later sibling must not see it
            if !self.ghost.is_empty() && self.rng.chance(1, 2) {
                let g = self.ghost[self.rng.below(self.ghost.len() as u64) as usize].clone();
                self.ghost.clear();
                if !self.strict || env.contains(&g) {
                    v.push(St::Use(g));
                    continue;
                }
            }
            self.ghost.clear();
            if depth < 3 && self.rng.chance(1, 5) {
                // multi-arm match / if-else: sibling scopes; binders reuse visible names, later siblings use them
                let id = self.id();
                if self.rng.chance(2, 3) {
                    let narms = 2 + self.rng.below(2) as usize;
                    let mut arms = vec![];
                    let mut earlier: Vec<String> = vec![];
                    for _ in 0..narms {
                        let binder = if self.rng.chance(3, 4) {
                            let x = if !env.is_empty() && self.rng.chance(2, 3) {
                                env[self.rng.below(env.len() as u64) as usize].clone()
                            } else {
                                self.name()
                            };
                            Some((x, self.id()))
                        } else {
                            None
                        };
                        let mark = env.len();
                        if let Some((x, _)) = &binder {
                            env.push(x.clone());
                        }
                        let mut body = vec![];
                        // the use that tells arm scopes apart: a name an earlier arm bound
                        let cands: Vec<String> = earlier
                            .iter()
                            .filter(|n| binder.as_ref().map(|b| &b.0 != *n).unwrap_or(true))
                            .filter(|n| !self.strict || env.contains(n))
                            .cloned()
                            .collect();
                        if !cands.is_empty() && self.rng.chance(4, 5) {
                            body.push(St::Use(cands[self.rng.below(cands.len() as u64) as usize].clone()));
                        }
                        self.ghost.clear();
                        body.extend(self.stmts(depth + 1, env, members, 2));
                        env.truncate(mark);
                        if let Some((x, _)) = &binder {
                            earlier.push(x.clone());
                        }
                        arms.push((binder, body));
                    }
                    self.ghost = earlier;
                    v.push(St::MArms(id, arms));
                } else {
                    let mark = env.len();
                    self.ghost.clear();
                    let a = self.stmts(depth + 1, env, members, 3);
                    let bound: Vec<String> = a.iter().filter_map(|s| if let St::Let(x, _) = s { Some(x.clone()) } else { None }).collect();
                    env.truncate(mark);
                    let mut b = vec![];
                    let cands: Vec<String> = bound.iter().filter(|n| !self.strict || env.contains(n)).cloned().collect();
                    if !cands.is_empty() && self.rng.chance(4, 5) {
                        b.push(St::Use(cands[self.rng.below(cands.len() as u64) as usize].clone()));
                    }
                    self.ghost.clear();
                    b.extend(self.stmts(depth + 1, env, members, 2));
                    env.truncate(mark);
                    self.ghost = bound;
                    v.push(St::IfElse(id, a, b));
                }
                continue;
            }
            let k = self.rng.below(if depth >= 3 { 6 } else { 11 });
            if !self.type_names.is_empty() && self.rng.chance(1, 5) && !(self.strict && self.visible_enums.is_empty()) {
                // a use of an enum variant, as a pattern or as an expression; 5 in 6 name a visible type
                let (ty, var) = if !self.visible_enums.is_empty() && (self.strict || !self.rng.chance(1, 4)) {
                    let (n, ms) = self.visible_enums[self.rng.below(self.visible_enums.len() as u64) as usize].clone();
                    let var = if self.strict || !self.rng.chance(1, 5) {
                        ms[self.rng.below(ms.len() as u64) as usize].clone()
                    } else {
                        VARIANTS[self.rng.below(3) as usize].to_string()
                    };
                    (n, var)
                } else if !self.visible_types.is_empty() && !self.rng.chance(1, 3) {
                    (self.visible_types[self.rng.below(self.visible_types.len() as u64) as usize].clone(), VARIANTS[self.rng.below(3) as usize].to_string())
                } else {
                    (TYPE_POOL[self.rng.below(3) as usize].to_string(), VARIANTS[self.rng.below(3) as usize].to_string())
                };
                let st = if self.rng.chance(1, 2) {
                    St::PMatch(ty, var)
                } else if !self.strict && !members.is_empty() && self.rng.chance(1, 4) {
                    St::EUse(Some(members[self.rng.below(members.len() as u64) as usize].0.clone()), ty, var)
                } else {
                    St::EUse(None, ty, var)
                };
                v.push(st);
                continue;
            }
            let s = match k {
                0 | 1 => {
                    // half of the lets reuse a visible name; half of those use it in their own initialiser
                    let x = if !env.is_empty() && self.rng.chance(1, 2) { env[self.rng.below(env.len() as u64) as usize].clone() } else { self.name() };
                    let visible = env.contains(&x);
                    env.push(x.clone());
                    let st = St::Let(x.clone(), self.id());
                    if (visible || !self.strict) && self.rng.chance(1, 2) { St::DefUse(x, Box::new(st)) } else { st }
                }
                2 | 3 | 4 => {
                    if !env.is_empty() && (self.strict || !self.rng.chance(1, 10)) {
                        St::Use(env[self.rng.below(env.len() as u64) as usize].clone())
                    } else if self.strict {
                        let x = self.name();
                        env.push(x.clone());
                        St::Let(x, self.id())
                    } else if self.rng.chance(1, 4) {
                        St::Use("zz".into())
                    } else {
                        St::Use(self.name())
                    }
                }
                5 => {
                    let usable: Vec<&(String, Vec<String>)> = members.iter().filter(|m| !m.1.is_empty()).collect();
                    if usable.is_empty() && (self.strict || !self.rng.chance(1, 10)) {
                        if env.is_empty() { let x = self.name(); env.push(x.clone()); St::Let(x, self.id()) } else { St::Use(env[self.rng.below(env.len() as u64) as usize].clone()) }
                    } else if usable.is_empty() || (!self.strict && self.rng.chance(1, 12)) {
                        if self.rng.chance(1, 2) || members.is_empty() {
                            St::QUse("qq".to_string(), self.name())
                        } else {
                            let m = &members[self.rng.below(members.len() as u64) as usize];
                            St::QUse(m.0.clone(), self.name())
                        }
                    } else {
                        let m = usable[self.rng.below(usable.len() as u64) as usize];
                        St::QUse(m.0.clone(), m.1[self.rng.below(m.1.len() as u64) as usize].clone())
                    }
                }
                6 | 7 => {
                    let mark = env.len();
                    let b = self.stmts(depth + 1, env, members, 3);
                    env.truncate(mark);
                    self.ghost = b.iter().filter_map(|s| if let St::Let(x, _) = s { Some(x.clone()) } else { None }).collect();
                    St::Block(self.rng.below(3) as u8, b)
                }
                _ => {
                    let x = if !env.is_empty() && self.rng.chance(1, 2) { env[self.rng.below(env.len() as u64) as usize].clone() } else { self.name() };
                    let id = self.id();
                    let mark = env.len();
                    env.push(x.clone());
                    let b = self.stmts(depth + 1, env, members, 3);
                    env.truncate(mark);
                    self.ghost = vec![x.clone()];
                    let visible_outside = env.contains(&x);
                    let defuse = k != 10 && (visible_outside || !self.strict) && self.rng.chance(1, 2);
                    let st = match k {
                        8 => St::For(x.clone(), id, b),
                        9 => St::Match(x.clone(), id, b),
                        _ => St::Lam(x.clone(), id, b),
                    };
                    // the iterable / scrutinee mentions the name its own pattern binds
                    if defuse && !matches!(st, St::Lam(..)) { St::DefUse(x, Box::new(st)) } else { st }
                }
            };
            v.push(s);
        }
        v
    }
    fn world(&mut self, clean: bool) -> World {
        self.strict = clean && !self.rng.chance(1, 3);
        let nfiles = 1 + self.rng.below(4) as usize;
        let mut files: Vec<FileD> = vec![];
        for k in 0..nfiles {
            let mut f = FileD::default();
            // declarations: a subset of the pool (`clean`: disjoint slices per file so that no clash arises)
            for (i, n) in POOL.iter().enumerate() {
                let take = if clean { i % nfiles == k && self.rng.chance(3, 4) } else { self.rng.chance(2, 5) };
                if take {
                    f.decls.push(n.to_string());
                }
            }
            // enums and interfaces (the same type name may be declared by several files, also in `clean` mode)
            let ntypes = self.rng.below(3);
            for _ in 0..ntypes {
                let name = TYPE_POOL[self.rng.below(3) as usize].to_string();
                if f.types.iter().any(|t| t.name == name) && (clean || !self.rng.chance(1, 6)) {
                    continue;
                }
                if self.rng.chance(1, 4) {
                    let members = if !clean && self.rng.chance(1, 8) { vec!["im".to_string(), "im".to_string()] } else { vec!["im".to_string()] };
                    f.types.push(TypeD { name, is_enum: false, members });
                } else {
                    let skip = self.rng.below(4) as usize; // 3 = keep all three variants
                    let mut members: Vec<String> =
                        VARIANTS.iter().enumerate().filter(|(i, _)| *i != skip).map(|(_, v)| v.to_string()).collect();
                    if !clean && self.rng.chance(1, 8) {
                        members.push(members[0].clone()); // a variant declared twice
                    }
                    f.types.push(TypeD { name, is_enum: true, members });
                }
            }
            if !clean {
                if self.rng.chance(1, 14) {
                    f.decls.push(PRELUDE_NAME.into());
                }
                if self.rng.chance(1, 14) {
                    f.decls.push(INTRINSIC_NAME.into());
                }
                if self.rng.chance(1, 12) && !f.decls.is_empty() {
                    let d = f.decls[self.rng.below(f.decls.len() as u64) as usize].clone();
                    f.decls.push(d); // declared twice in one file
                }
            }
            // imports
            let nimp = self.rng.below(if nfiles == 1 { 2 } else { 4 });
            for _ in 0..nimp {
                let target = if self.rng.chance(1, 16) { k } else { self.rng.below(nfiles as u64) as usize };
                if target == k && (clean || nfiles == 1 && !self.rng.chance(1, 3)) {
                    continue;
                }
                if clean && f.imports.iter().any(|i| matches!(i, Imp::Glob(m) | Imp::Incl(m, _) | Imp::Excl(m, _) if *m == target)) {
                    continue; // importing the same file twice supplies its names twice
                }
                let imp = match self.rng.below(if clean { 8 } else { 9 }) {
                    0 | 1 => Imp::Glob(target),
                    2 | 3 => Imp::Incl(target, self.names(3)),
                    4 | 5 => Imp::Excl(target, self.names(3)),
                    6 | 7 => {
                        let p = format!("p{}", self.rng.below(3));
                        if clean && f.imports.iter().any(|i| matches!(i, Imp::As(_, q) if *q == p)) {
                            continue;
                        }
                        Imp::As(target, p)
                    }
                    _ => Imp::Missing,
                };
                f.imports.push(imp);
            }
            files.push(f);
        }
        // every file imports every other file under an alias: all files are loaded, probes and the
        // per-enum helper functions are callable from everywhere
        for k in 0..nfiles {
            for j in 0..nfiles {
                if j != k {
                    files[k].imports.push(Imp::As(j, format!("z{j}")));
                }
            }
        }
        // helper functions of every enum: constructors `mk_<file>_<idx>_<variant>` and a printer `show_<file>_<idx>`
        for k in 0..nfiles {
            let mut extra = vec![];
            for (i, t) in files[k].types.iter().enumerate() {
                if t.is_enum {
                    for v in &t.members {
                        extra.push(format!("mk_{k}_{i}_{v}"));
                    }
                    extra.push(format!("show_{k}_{i}"));
                }
            }
            extra.push(format!("idarr_{k}"));
            files[k].decls.extend(extra);
        }
        let mut w = World { files };
        if clean {
            // repair the filtered / glob imports so that no name is supplied twice: a clashing name is
            // excluded (this is what `except` and inclusion lists are for)
            for k in 0..nfiles {
                let mut seen: Vec<String> = exported(&w, k).into_iter().map(|(n, _)| n).collect();
                seen.push(PRELUDE_NAME.into());
                seen.push(INTRINSIC_NAME.into());
                let imports = w.files[k].imports.clone();
                let mut fixed = vec![];
                for imp in imports {
                    let imp2 = match imp {
                        Imp::Glob(m) => {
                            let bad: Vec<String> = exported(&w, m).into_iter().map(|(n, _)| n).filter(|n| seen.contains(n)).collect();
                            if bad.is_empty() { Imp::Glob(m) } else { Imp::Excl(m, bad) }
                        }
                        Imp::Incl(m, l) => Imp::Incl(m, l.into_iter().filter(|n| !seen.contains(n)).collect::<Vec<_>>()),
                        Imp::Excl(m, mut l) => {
                            for (n, _) in exported(&w, m) {
                                if seen.contains(&n) && !l.contains(&n) {
                                    l.push(n);
                                }
                            }
                            Imp::Excl(m, l)
                        }
                        other => other,
                    };
                    if let Imp::Incl(_, l) = &imp2 {
                        if l.is_empty() {
                            continue;
                        }
                    }
                    match &imp2 {
                        Imp::Glob(m) => seen.extend(exported(&w, *m).into_iter().map(|(n, _)| n)),
                        Imp::Incl(m, l) => seen.extend(exported(&w, *m).into_iter().map(|(n, _)| n).filter(|n| l.contains(n))),
                        Imp::Excl(m, l) => seen.extend(exported(&w, *m).into_iter().map(|(n, _)| n).filter(|n| !l.contains(n))),
                        _ => {}
                    }
                    fixed.push(imp2);
                }
                w.files[k].imports = fixed;
            }
        }
        self.type_names = w.files.iter().flat_map(|f| f.types.iter().map(|t| t.name.clone())).collect();
        for k in 0..nfiles {
            let members: Vec<(String, Vec<String>)> = w.files[k]
                .imports
                .iter()
                .filter_map(|i| if let Imp::As(m, p) = i { Some((p.clone(), *m)) } else { None })
                .filter(|(p, _)| p.starts_with('p'))
                .map(|(p, m)| (p, exported(&w, m).into_iter().filter(|(_, d)| matches!(d, RDecl::Fn(..))).map(|(n, _)| n).filter(|n| !n.starts_with("probe") && !n.starts_with("mk_") && !n.starts_with("show_") && !n.starts_with("idarr_")).collect()))
                .collect();
            let base: Vec<String> = ref_file(&w, k)
                .supplied
                .into_iter()
                .filter(|(n, d)| matches!(d, RDecl::Fn(..)) && !n.starts_with("probe") && !n.starts_with("mk_") && !n.starts_with("show_") && !n.starts_with("idarr_"))
                .map(|(n, _)| n)
                .collect();
            self.visible_types = ref_file(&w, k)
                .supplied
                .into_iter()
                .filter(|(_, d)| matches!(d, RDecl::Enum(..) | RDecl::Iface(..)))
                .map(|(n, _)| n)
                .collect();
            self.visible_enums = ref_file(&w, k)
                .supplied
                .into_iter()
                .filter_map(|(n, d)| if let RDecl::Enum(f, i, _) = d { Some((n, w.files[f].types[i].members.clone())) } else { None })
                .collect();
            let mut env = base.clone();
            w.files[k].probe = self.stmts(1, &mut env, &members, 5);
            if k == 0 {
                let mut env = base;
                w.files[k].top = self.stmts(1, &mut env, &members, 7);
            }
        }
        w
    }
}

// ------------------------------------------------------------------ reference (the property, executable)
#[derive(Clone, Debug, PartialEq, Eq, PartialOrd, Ord)]
enum RDecl {
    Fn(usize, String),
    Alias(String, usize),
    Builtin(String),
    Prelude(String),
    Loc(usize),
    Enum(usize, usize, String),
    Iface(usize, usize, String),
    Variant(usize, usize, String, String),
}
impl RDecl {
    fn tag(&self) -> String {
        match self {
            RDecl::Fn(f, n) => format!("F{f}.{n}"),
            RDecl::Alias(n, _) => format!("A.{n}"),
            RDecl::Builtin(n) => format!("B.{n}"),
            RDecl::Prelude(n) => format!("P.{n}"),
            RDecl::Loc(i) => format!("L{i}"),
            RDecl::Enum(f, _, n) => format!("E{f}.{n}"),
            RDecl::Iface(f, _, n) => format!("I{f}.{n}"),
            RDecl::Variant(f, _, n, v) => format!("F{f}.{n}.{v}"),
        }
    }
}

struct RefFile {
    /// every (name, declaration) supplied to the file level, in any order
    supplied: Vec<(String, RDecl)>,
    bad_imports: usize,
}

/// names a file declares itself (first declaration of a name is the one others see)
fn exported(w: &World, k: usize) -> Vec<(String, RDecl)> {
    let mut seen: Vec<String> = vec![];
    let mut out = vec![];
    for d in &w.files[k].decls {
        if !seen.contains(d) {
            seen.push(d.clone());
            out.push((d.clone(), RDecl::Fn(k, d.clone())));
        }
    }
    out.push((format!("probe{k}"), RDecl::Fn(k, format!("probe{k}"))));
    for (i, t) in w.files[k].types.iter().enumerate() {
        if !seen.contains(&t.name) {
            seen.push(t.name.clone());
            out.push((t.name.clone(), if t.is_enum { RDecl::Enum(k, i, t.name.clone()) } else { RDecl::Iface(k, i, t.name.clone()) }));
        }
    }
    out
}

/// variant `v` of the enum the declaration stands for
fn ref_variant(w: &World, d: Option<RDecl>, v: &str) -> Option<RDecl> {
    match d {
        Some(RDecl::Enum(f, i, n)) if w.files[f].types[i].members.iter().any(|m| m == v) => Some(RDecl::Variant(f, i, n, v.to_string())),
        _ => None,
    }
}

fn ref_file(w: &World, k: usize) -> RefFile {
    let mut supplied = vec![
        (PRELUDE_NAME.to_string(), RDecl::Prelude(PRELUDE_NAME.into())),
        (INTRINSIC_NAME.to_string(), RDecl::Builtin(INTRINSIC_NAME.into())),
    ];
    supplied.extend(exported(w, k));
    let mut bad = 0;
    for imp in &w.files[k].imports {
        match imp {
            Imp::Glob(m) => supplied.extend(exported(w, *m)),
            Imp::Incl(m, l) => supplied.extend(exported(w, *m).into_iter().filter(|(n, _)| l.contains(n))),
            Imp::Excl(m, l) => supplied.extend(exported(w, *m).into_iter().filter(|(n, _)| !l.contains(n))),
            Imp::As(m, p) => supplied.push((p.clone(), RDecl::Alias(p.clone(), *m))),
            Imp::Missing => bad += 1,
        }
    }
    RefFile { supplied, bad_imports: bad }
}

/// clashes of one file's effective namespace (a name supplied more than once: one report per extra supply)
fn ref_clashes(w: &World, k: usize) -> Vec<String> {
    let rf = ref_file(w, k);
    let mut count: BTreeMap<String, usize> = BTreeMap::new();
    for (n, _) in &rf.supplied {
        *count.entry(n.clone()).or_insert(0) += 1;
    }
    let mut out = vec![];
    for (n, c) in count {
        for _ in 1..c {
            out.push(n.clone());
        }
    }
    // a name declared twice inside the file itself
    let mut seen: Vec<&String> = vec![];
    let own: Vec<String> =
        w.files[k].decls.iter().cloned().chain(std::iter::once(format!("probe{k}"))).chain(w.files[k].types.iter().map(|t| t.name.clone())).collect();
    for d in &own {
        if seen.contains(&d) {
            out.push(d.clone());
        } else {
            seen.push(d);
        }
    }
    // a variant / method declared twice inside one enum / interface
    for t in &w.files[k].types {
        let mut seen: Vec<&String> = vec![];
        for m in &t.members {
            if seen.contains(&m) {
                out.push(m.clone());
            } else {
                seen.push(m);
            }
        }
    }
    out
}

/// environment-passing lexical scoping: `env` = visible bindings, most recent last
fn ref_stmts(w: &World, env: &mut Vec<(String, RDecl)>, ss: &[St], out: &mut Vec<Option<RDecl>>) {
    for s in ss {
        match s {
            St::Let(x, id) => env.push((x.clone(), RDecl::Loc(*id))),
            St::Use(x) => out.push(env.iter().rev().find(|(n, _)| n == x).map(|(_, d)| d.clone())),
            St::QUse(q, x) => {
                let r = match env.iter().rev().find(|(n, _)| n == q) {
                    Some((_, RDecl::Alias(_, m))) => {
                        exported(w, *m).into_iter().find(|(n, _)| n == x).map(|(_, d)| d)
                    }
                    _ => None,
                };
                out.push(r);
            }
            // the defining expression is outside the binder's scope
            St::DefUse(y, inner) => {
                out.push(env.iter().rev().find(|(n, _)| n == y).map(|(_, d)| d.clone()));
                ref_stmts(w, env, std::slice::from_ref(&**inner), out);
            }
            // sibling scopes: every arm / branch sees the environment of the whole statement only
            St::MArms(_, arms) => {
                for (b, body) in arms {
                    let mark = env.len();
                    if let Some((x, id)) = b {
                        env.push((x.clone(), RDecl::Loc(*id)));
                    }
                    ref_stmts(w, env, body, out);
                    env.truncate(mark);
                }
            }
            St::IfElse(_, a, b) => {
                for body in [a, b] {
                    let mark = env.len();
                    ref_stmts(w, env, body, out);
                    env.truncate(mark);
                }
            }
            // the property: a type name in a pattern denotes the same declaration as in an expression
            St::PMatch(ty, v) => {
                let d = env.iter().rev().find(|(n, _)| n == ty).map(|(_, d)| d.clone());
                out.push(ref_variant(w, d, v));
            }
            St::EUse(pre, ty, v) => {
                let d = match pre {
                    None => env.iter().rev().find(|(n, _)| n == ty).map(|(_, d)| d.clone()),
                    Some(p) => match env.iter().rev().find(|(n, _)| n == p) {
                        Some((_, RDecl::Alias(_, m))) => exported(w, *m).into_iter().find(|(n, _)| n == ty).map(|(_, d)| d),
                        _ => None,
                    },
                };
                out.push(ref_variant(w, d, v));
            }
            St::Block(_, body) => {
                let mark = env.len();
                ref_stmts(w, env, body, out);
                env.truncate(mark);
            }
            St::For(x, id, body) | St::Match(x, id, body) | St::Lam(x, id, body) => {
                let mark = env.len();
                env.push((x.clone(), RDecl::Loc(*id)));
                ref_stmts(w, env, body, out);
                env.truncate(mark);
            }
        }
    }
}

struct RefResult {
    clashes: Vec<String>,
    bad: usize,
    probe: Vec<Vec<Option<RDecl>>>,
    top: Vec<Vec<Option<RDecl>>>,
}

fn reference(w: &World) -> RefResult {
    let mut r = RefResult { clashes: vec![], bad: 0, probe: vec![], top: vec![] };
    for k in 0..w.files.len() {
        r.clashes.extend(ref_clashes(w, k));
        let rf = ref_file(w, k);
        r.bad += rf.bad_imports;
        // file level: first supplier of a name (only meaningful when there is no clash)
        let mut base: Vec<(String, RDecl)> = vec![];
        for (n, d) in rf.supplied.iter().rev() {
            base.push((n.clone(), d.clone()));
        }
        let mut env = base.clone();
        let mut out = vec![];
        ref_stmts(w, &mut env, &w.files[k].probe, &mut out);
        r.probe.push(out);
        let mut env = base;
        let mut out = vec![];
        ref_stmts(w, &mut env, &w.files[k].top, &mut out);
        r.top.push(out);
    }
    r.clashes.sort();
    r
}

// ------------------------------------------------------------------ rendering
struct Rendered {
    files: Vec<String>,
    /// per file: (segment 'p'|'t', use index, start, end) of each use expression
    uses: Vec<Vec<(char, usize, usize, usize)>>,
    /// per file: spans of import items
    imports: Vec<Vec<(usize, usize)>>,
}

fn file_name(k: usize) -> String {
    if k == 0 { "main".into() } else { format!("f{k}") }
}

/// how file `k` names a helper function of file `m`
fn helper(k: usize, m: usize, name: &str) -> String {
    if k == m { name.to_string() } else { format!("z{m}.{name}") }
}

/// an enum value to match a pattern `ty.v` against when the reference says the pattern does not
/// resolve: prefer an enum called `ty` that has `v` (a wrongly visible one would then be accepted)
fn fallback_scrutinee(w: &World, k: usize, ty: &str, v: &str) -> Option<String> {
    let mut best: Option<(u8, String)> = None;
    for (m, f) in w.files.iter().enumerate() {
        for (i, t) in f.types.iter().enumerate() {
            if !t.is_enum {
                continue;
            }
            let (score, var) = if t.name == ty && t.members.iter().any(|x| x == v) {
                (3, v.to_string())
            } else if t.members.iter().any(|x| x == v) {
                (2, v.to_string())
            } else if t.name == ty {
                (1, t.members[0].clone())
            } else {
                (0, t.members[0].clone())
            };
            if best.as_ref().map(|b| score > b.0).unwrap_or(true) {
                best = Some((score, format!("{}()", helper(k, m, &format!("mk_{m}_{i}_{var}")))));
            }
        }
    }
    best.map(|b| b.1)
}

#[allow(clippy::too_many_arguments)]
fn render_stmts(w: &World, k: usize, res: &[Option<RDecl>], ss: &[St], ind: usize, src: &mut String, seg: char, n_use: &mut usize, uses: &mut Vec<(char, usize, usize, usize)>) {
    let pad = "  ".repeat(ind);
    for s in ss {
        match s {
            St::PMatch(ty, v) => {
                let want = res.get(*n_use).cloned().flatten();
                let (scrut, tag) = match &want {
                    Some(RDecl::Variant(m, i, n, vv)) => (Some(format!("{}()", helper(k, *m, &format!("mk_{m}_{i}_{vv}")))), format!("F{m}.{n}.{vv}")),
                    _ => (fallback_scrutinee(w, k, ty, v), "unexpected".to_string()),
                };
                let scrut = scrut.unwrap_or_else(|| "0".to_string());
                src.push_str(&format!("{pad}match {scrut} {{\n{pad}  "));
                let lo = src.len();
                src.push_str(&format!("{ty}.{v}"));
                uses.push((seg, *n_use, lo, src.len()));
                *n_use += 1;
                src.push_str(&format!(" -> println(\"{tag}\")\n{pad}  _ -> println(\"other\")\n{pad}}}\n"));
            }
            St::EUse(pre, ty, v) => {
                let want = res.get(*n_use).cloned().flatten();
                let expr = match pre {
                    Some(p) => format!("{p}.{ty}.{v}"),
                    None => format!("{ty}.{v}"),
                };
                src.push_str(&pad);
                match &want {
                    Some(RDecl::Variant(m, i, _, _)) => {
                        if pre.is_some() && src.len() % 2 == 0 {
                            // the namespace-qualified TYPE in an annotation, too
                            let t = format!("tq{}", src.len());
                            src.push_str(&format!("let {t}: {}.{ty} = ", pre.clone().unwrap()));
                            let lo = src.len();
                            src.push_str(&expr);
                            uses.push((seg, *n_use, lo, src.len()));
                            src.push_str(&format!("\n{pad}{}({t})\n", helper(k, *m, &format!("show_{m}_{i}"))));
                        } else {
                            src.push_str(&format!("{}(", helper(k, *m, &format!("show_{m}_{i}"))));
                            let lo = src.len();
                            src.push_str(&expr);
                            uses.push((seg, *n_use, lo, src.len()));
                            src.push_str(")\n");
                        }
                    }
                    _ => {
                        src.push_str(&format!("let t{} = ", src.len()));
                        let lo = src.len();
                        src.push_str(&expr);
                        uses.push((seg, *n_use, lo, src.len()));
                        src.push('\n');
                    }
                }
                *n_use += 1;
            }
            St::Let(x, id) => src.push_str(&format!("{pad}let {x} = (z: int) -> println(\"L{id}\")\n")),
            St::Use(_) | St::QUse(_, _) => {
                let name = match s {
                    St::Use(x) => x.clone(),
                    St::QUse(q, x) => format!("{q}.{x}"),
                    _ => unreachable!(),
                };
                src.push_str(&pad);
                // one use in three is in VALUE position (`let v = f` / `let v = p.f`, then `v(0)`) when it resolves
                let resolved = matches!(res.get(*n_use), Some(Some(_)));
                if resolved && src.len() % 3 == 0 {
                    let t = format!("vt{}", src.len());
                    src.push_str(&format!("let {t} = "));
                    let lo = src.len();
                    src.push_str(&name);
                    uses.push((seg, *n_use, lo, src.len()));
                    src.push_str(&format!("\n{pad}{t}(0)\n"));
                } else {
                    let lo = src.len();
                    src.push_str(&name);
                    uses.push((seg, *n_use, lo, src.len()));
                    src.push_str("(0)\n");
                }
                *n_use += 1;
            }
            St::MArms(id, arms) => {
                // the match sits in a helper lambda that is called once per arm, so every arm runs
                src.push_str(&format!("{pad}let mm{id} = (s{id}: int, v{id}: int -> void) -> {{\n{pad}  match (s{id}, v{id}) {{\n"));
                for (j, (b, body)) in arms.iter().enumerate() {
                    let pat = match b {
                        Some((x, _)) => x.clone(),
                        None => "_".to_string(),
                    };
                    src.push_str(&format!("{pad}    ({j}, {pat}) -> {{\n"));
                    render_stmts(w, k, res, body, ind + 3, src, seg, n_use, uses);
                    src.push_str(&format!("{pad}    }}\n"));
                }
                src.push_str(&format!("{pad}    _ -> {{\n{pad}      println(\"never\")\n{pad}    }}\n{pad}  }}\n{pad}}}\n"));
                for (j, (b, _)) in arms.iter().enumerate() {
                    let lid = b.as_ref().map(|x| x.1).unwrap_or(0);
                    src.push_str(&format!("{pad}mm{id}({j}, (z: int) -> println(\"L{lid}\"))\n"));
                }
            }
            St::IfElse(id, a, b) => {
                src.push_str(&format!("{pad}let ie{id} = (c{id}: bool) -> {{\n{pad}  if c{id} {{\n"));
                render_stmts(w, k, res, a, ind + 2, src, seg, n_use, uses);
                src.push_str(&format!("{pad}  }} else {{\n"));
                render_stmts(w, k, res, b, ind + 2, src, seg, n_use, uses);
                src.push_str(&format!("{pad}  }}\n{pad}}}\n{pad}ie{id}(true)\n{pad}ie{id}(false)\n"));
            }
            St::Block(kind, body) => {
                match kind {
                    0 => src.push_str(&format!("{pad}{{\n")),
                    1 => src.push_str(&format!("{pad}if true {{\n")),
                    _ => {
                        let w = uses.len() * 1000 + src.len();
                        src.push_str(&format!("{pad}var w{w} = true\n{pad}while w{w} {{\n{pad}  w{w} = false\n"));
                    }
                }
                render_stmts(w, k, res, body, ind + 1, src, seg, n_use, uses);
                src.push_str(&format!("{pad}}}\n"));
            }
            St::DefUse(y, inner) => {
                // `y(0)` sits inside the initialiser / iterable / scrutinee of the binder
                let lam = |id: &usize| format!("(z: int) -> println(\"L{id}\")");
                match &**inner {
                    St::Let(x, id) => {
                        src.push_str(&format!("{pad}let {x} = {{\n{pad}  "));
                        let lo = src.len();
                        src.push_str(y);
                        uses.push((seg, *n_use, lo, src.len()));
                        *n_use += 1;
                        src.push_str(&format!("(0)\n{pad}  {}\n{pad}}}\n", lam(id)));
                    }
                    St::For(x, id, body) => {
                        src.push_str(&format!("{pad}for {x} in idarr_{k}([{{\n{pad}  "));
                        let lo = src.len();
                        src.push_str(y);
                        uses.push((seg, *n_use, lo, src.len()));
                        *n_use += 1;
                        src.push_str(&format!("(0)\n{pad}  {}\n{pad}}}]) {{\n", lam(id)));
                        render_stmts(w, k, res, body, ind + 1, src, seg, n_use, uses);
                        src.push_str(&format!("{pad}}}\n"));
                    }
                    St::Match(x, id, body) => {
                        src.push_str(&format!("{pad}match {{\n{pad}  "));
                        let lo = src.len();
                        src.push_str(y);
                        uses.push((seg, *n_use, lo, src.len()));
                        *n_use += 1;
                        src.push_str(&format!("(0)\n{pad}  {}\n{pad}}} {{\n{pad}  {x} -> {{\n", lam(id)));
                        render_stmts(w, k, res, body, ind + 2, src, seg, n_use, uses);
                        src.push_str(&format!("{pad}  }}\n{pad}}}\n"));
                    }
                    _ => unreachable!(),
                }
            }
            St::For(x, id, body) => {
                src.push_str(&format!("{pad}let arr{id}: array<int -> void> = [(z: int) -> println(\"L{id}\")]\n{pad}for {x} in arr{id} {{\n"));
                render_stmts(w, k, res, body, ind + 1, src, seg, n_use, uses);
                src.push_str(&format!("{pad}}}\n"));
            }
            St::Match(x, id, body) => {
                src.push_str(&format!("{pad}match ((z: int) -> println(\"L{id}\")) {{\n{pad}  {x} -> {{\n"));
                render_stmts(w, k, res, body, ind + 2, src, seg, n_use, uses);
                src.push_str(&format!("{pad}  }}\n{pad}}}\n"));
            }
            St::Lam(x, id, body) => {
                src.push_str(&format!("{pad}let g{id} = ({x}: int -> void) -> {{\n"));
                render_stmts(w, k, res, body, ind + 1, src, seg, n_use, uses);
                src.push_str(&format!("{pad}}}\n{pad}g{id}((z: int) -> println(\"L{id}\"))\n"));
            }
        }
    }
}

fn render(w: &World) -> Rendered {
    let rr = reference(w);
    let mut r = Rendered { files: vec![], uses: vec![], imports: vec![] };
    for (k, f) in w.files.iter().enumerate() {
        let mut src = String::new();
        let mut uses = vec![];
        let mut imps = vec![];
        for imp in &f.imports {
            let lo = src.len();
            match imp {
                Imp::Glob(m) => src.push_str(&format!("use {}", file_name(*m))),
                Imp::Incl(m, l) => src.push_str(&format!("use {}.({})", file_name(*m), l.join(", "))),
                Imp::Excl(m, l) => src.push_str(&format!("use {} except ({})", file_name(*m), l.join(", "))),
                Imp::As(m, p) => src.push_str(&format!("use {} as {}", file_name(*m), p)),
                Imp::Missing => src.push_str("use nofile"),
            }
            imps.push((lo, src.len()));
            src.push('\n');
        }
        for d in &f.decls {
            if d.starts_with("idarr_") {
                src.push_str(&format!("fn {d}(a: array<int -> void>) -> array<int -> void> {{\n  a\n}}\n"));
            } else if let Some(rest) = d.strip_prefix("mk_") {
                // mk_<file>_<idx>_<variant>
                let parts: Vec<&str> = rest.split('_').collect();
                let i: usize = parts[1].parse().unwrap();
                let t = &f.types[i];
                src.push_str(&format!("fn {d}() -> {} {{\n  {}.{}\n}}\n", t.name, t.name, parts[2]));
            } else if let Some(rest) = d.strip_prefix("show_") {
                let parts: Vec<&str> = rest.split('_').collect();
                let i: usize = parts[1].parse().unwrap();
                let t = &f.types[i];
                src.push_str(&format!("fn {d}(x: {}) {{\n  match x {{\n", t.name));
                for v in &t.members {
                    src.push_str(&format!("    .{v} -> println(\"F{k}.{}.{v}\")\n", t.name));
                }
                src.push_str("  }\n}\n");
            } else {
                src.push_str(&format!("fn {d}(z: int) {{\n  println(\"F{k}.{d}\")\n}}\n"));
            }
        }
        for t in &f.types {
            if t.is_enum {
                src.push_str(&format!("type {} =\n", t.name));
                for v in &t.members {
                    src.push_str(&format!("  | {v}\n"));
                }
            } else {
                src.push_str(&format!("interface {} {{\n", t.name));
                for m in &t.members {
                    src.push_str(&format!("  fn {m}(self) -> int\n"));
                }
                src.push_str("}\n");
            }
        }
        src.push_str(&format!("fn probe{k}(z: int) {{\n  println(\"#{k}.p\")\n"));
        let mut n = 0;
        render_stmts(w, k, &rr.probe[k], &f.probe, 1, &mut src, 'p', &mut n, &mut uses);
        src.push_str("}\n");
        if k == 0 {
            src.push_str("println(\"#0.t\")\n");
            let mut n = 0;
            render_stmts(w, k, &rr.top[k], &f.top, 0, &mut src, 't', &mut n, &mut uses);
            src.push_str("probe0(0)\n");
            for j in 1..w.files.len() {
                src.push_str(&format!("z{j}.probe{j}(0)\n"));
            }
        }
        r.files.push(src);
        r.uses.push(uses);
        r.imports.push(imps);
    }
    r
}

// ------------------------------------------------------------------ model request
fn enc_stmts(ss: &[St], out: &mut String) {
    for s in ss {
        match s {
            St::Let(x, id) => out.push_str(&format!("l{x}.{id};")),
            St::Use(x) => out.push_str(&format!("u{x};")),
            St::QUse(q, x) => out.push_str(&format!("q{q}.{x};")),
            St::DefUse(y, inner) => {
                out.push_str(&format!("u{y};"));
                enc_stmts(std::slice::from_ref(&**inner), out);
            }
            St::MArms(_, arms) => {
                out.push_str("M<");
                for (b, body) in arms {
                    match b {
                        Some((x, id)) => out.push_str(&format!("a{x}.{id}{{")),
                        None => out.push_str("n{"),
                    }
                    enc_stmts(body, out);
                    out.push('}');
                }
                out.push('>');
            }
            St::IfElse(_, a, b) => {
                out.push_str("I{");
                enc_stmts(a, out);
                out.push_str("}{");
                enc_stmts(b, out);
                out.push('}');
            }
            St::PMatch(ty, v) => out.push_str(&format!("x_.{ty}.{v};")),
            St::EUse(pre, ty, v) => out.push_str(&format!("y{}.{ty}.{v};", pre.clone().unwrap_or_else(|| "_".into()))),
            St::Block(_, b) => {
                out.push('{');
                enc_stmts(b, out);
                out.push('}');
            }
            St::For(x, id, b) | St::Match(x, id, b) | St::Lam(x, id, b) => {
                let c = match s {
                    St::For(..) => 'f',
                    St::Match(..) => 'm',
                    _ => 'p',
                };
                out.push_str(&format!("{c}{x}.{id}{{"));
                enc_stmts(b, out);
                out.push('}');
            }
        }
    }
}

fn request(w: &World) -> String {
    let mut s = format!("names {INTRINSIC_NAME} {PRELUDE_NAME}");
    for (k, f) in w.files.iter().enumerate() {
        let mut decls = f.decls.clone();
        decls.push(format!("probe{k}"));
        let imps: Vec<String> = f
            .imports
            .iter()
            .map(|i| match i {
                Imp::Glob(m) => format!("g{m}"),
                Imp::Incl(m, l) => format!("i{m}:{}", l.join("+")),
                Imp::Excl(m, l) => format!("e{m}:{}", l.join("+")),
                Imp::As(m, p) => format!("a{m}:{p}"),
                Imp::Missing => "m".to_string(),
            })
            .collect();
        let mut p = String::new();
        enc_stmts(&f.probe, &mut p);
        let mut t = String::new();
        enc_stmts(&f.top, &mut t);
        let dash = |x: String| if x.is_empty() { "-".to_string() } else { x };
        let types: Vec<String> =
            f.types.iter().map(|t| format!("{}:{}:{}", if t.is_enum { "E" } else { "I" }, t.name, t.members.join("+"))).collect();
        s.push_str(&format!(" {} {} {} {} {}", decls.join(","), dash(types.join(",")), dash(imps.join(",")), dash(p), dash(t)));
    }
    s
}

// ------------------------------------------------------------------ running the implementation
fn join_c(v: &[String]) -> String {
    if v.is_empty() { "-".into() } else { v.join(",") }
}

fn run_impl(w: &World) -> String {
    let r = render(w);
    let extra: Vec<(String, String)> =
        (1..w.files.len()).map(|k| (format!("f{k}.abra"), r.files[k].clone())).collect();
    let main_src = r.files[0].clone();
    let chk = catch_unwind(AssertUnwindSafe(|| {
        let res = check_lsp("main.abra", provider(&main_src, &extra));
        let ids: Vec<Option<u32>> = (0..w.files.len())
            .map(|k| res.file_id_for_path(std::path::Path::new(&format!("{}.abra", file_name(k)))).map(|x| x as u32))
            .collect();
        (res.errors(), ids)
    }));
    let (errs, ids) = match chk {
        Err(p) => return format!("crash checker: {}", panic_msg(p).replace(['\n', '\t'], " ")),
        Ok(x) => x,
    };
    if !errs.is_empty() {
        let mut clashes: Vec<String> = vec![];
        let mut unres: Vec<String> = vec![];
        let mut bad: Vec<(usize, usize)> = vec![];
        let mut other: Vec<String> = vec![];
        for e in &errs {
            if e.message.contains("was declared more than once") {
                let name = e.message.split('`').nth(1).unwrap_or("?").to_string();
                clashes.push(name);
                continue;
            }
            if e.message.contains("Could not resolve identifier") {
                let fk = ids.iter().position(|i| *i == Some(e.file_id as u32));
                if let Some(k) = fk {
                    if let Some(pos) = r.imports[k].iter().position(|(lo, hi)| e.range.start >= *lo && e.range.end <= *hi + 1) {
                        if !bad.contains(&(k, pos)) {
                            bad.push((k, pos));
                        }
                        continue;
                    }
                    if let Some((seg, idx, _, _)) =
                        r.uses[k].iter().find(|(_, _, lo, hi)| e.range.start >= *lo && e.range.end <= *hi)
                    {
                        let key = format!("{k}.{seg}.{idx}");
                        if !unres.contains(&key) {
                            unres.push(key);
                        }
                        continue;
                    }
                }
            }
            if e.message.contains("Can't perform member access without knowing type") && !unres.is_empty() {
                continue; // follow-on of an unresolved qualifier
            }
            other.push(e.message.replace(['\n', '\t'], " "));
        }
        clashes.sort();
        // model order: per file, probe uses then top uses
        unres.sort_by_key(|s| {
            let p: Vec<&str> = s.split('.').collect();
            (p[0].parse::<usize>().unwrap(), if p[1] == "p" { 0 } else { 1 }, p[2].parse::<usize>().unwrap())
        });
        let mut ans = format!("diag clash={} unres={} bad={}", join_c(&clashes), join_c(&unres), bad.len());
        // a clash makes later type errors a matter of which declaration happened to stay: not compared
        if !other.is_empty() && clashes.is_empty() {
            other.sort();
            other.dedup();
            ans.push_str(&format!(" other={}", other.join(" / ")));
        }
        return ans;
    }
    let run = run_program_opts(&main_src, &RunOpts { files: extra, ..Default::default() });
    match &run.outcome {
        Outcome::Done => {
            let mut segs: HashMap<String, Vec<String>> = HashMap::new();
            let mut cur = String::new();
            for line in run.out.lines() {
                if let Some(m) = line.strip_prefix('#') {
                    cur = m.to_string();
                    segs.entry(cur.clone()).or_default();
                } else {
                    segs.entry(cur.clone()).or_default().push(line.to_string());
                }
            }
            let mut parts = vec![];
            for k in 0..w.files.len() {
                let p = segs.get(&format!("{k}.p")).cloned().unwrap_or_default();
                let t = segs.get(&format!("{k}.t")).cloned().unwrap_or_default();
                parts.push(format!("{k}.p={};{k}.t={}", join_c(&p), join_c(&t)));
            }
            format!("ok {}", parts.join(";"))
        }
        Outcome::Crash(m) => format!("crash run: {}", m.replace(['\n', '\t'], " ")),
        Outcome::Rejected(m) => format!("rejected-by-compile {}", m.replace(['\n', '\t'], " ")),
        o => format!("other {}", o.tag()),
    }
}

/// the reference's answer in the same format
fn ref_answer(w: &World, rr: &RefResult) -> String {
    let mut unres = vec![];
    for k in 0..w.files.len() {
        for (i, r) in rr.probe[k].iter().enumerate() {
            if r.is_none() {
                unres.push(format!("{k}.p.{i}"));
            }
        }
        for (i, r) in rr.top[k].iter().enumerate() {
            if r.is_none() {
                unres.push(format!("{k}.t.{i}"));
            }
        }
    }
    if rr.clashes.is_empty() && unres.is_empty() && rr.bad == 0 {
        let mut parts = vec![];
        for k in 0..w.files.len() {
            let p: Vec<String> = rr.probe[k].iter().map(|d| d.as_ref().unwrap().tag()).collect();
            let t: Vec<String> = rr.top[k].iter().map(|d| d.as_ref().unwrap().tag()).collect();
            parts.push(format!("{k}.p={};{k}.t={}", join_c(&p), join_c(&t)));
        }
        format!("ok {}", parts.join(";"))
    } else {
        format!("diag clash={} unres={} bad={}", join_c(&rr.clashes), join_c(&unres), rr.bad)
    }
}

/// remove uses that would reach a prelude / intrinsic declaration (calling those with `(0)` is a
/// type error that has nothing to do with resolution)
fn strip_builtin_uses(ss: &mut Vec<St>, res: &[Option<RDecl>], idx: &mut usize) {
    let mut i = 0;
    while i < ss.len() {
        let mut remove = false;
        match &mut ss[i] {
            St::Use(_) | St::QUse(_, _) => {
                if matches!(res.get(*idx), Some(Some(RDecl::Prelude(_))) | Some(Some(RDecl::Builtin(_))) | Some(Some(RDecl::Alias(_, _)))) {
                    remove = true;
                }
                *idx += 1;
            }
            St::Let(..) => {}
            St::PMatch(..) | St::EUse(..) => *idx += 1,
            St::DefUse(_, inner) => {
                // never stripped: when the use would reach a builtin, the whole shape is replaced below
                let bad = matches!(res.get(*idx), Some(Some(RDecl::Prelude(_))) | Some(Some(RDecl::Builtin(_))) | Some(Some(RDecl::Alias(_, _))));
                *idx += 1;
                let mut one = vec![(**inner).clone()];
                strip_builtin_uses(&mut one, res, idx);
                if bad {
                    ss[i] = one.remove(0);
                } else {
                    **inner = one.remove(0);
                }
            }
            St::MArms(_, arms) => {
                for (_, b) in arms.iter_mut() {
                    strip_builtin_uses(b, res, idx);
                    if b.is_empty() {
                        b.push(St::Let("u".into(), 0));
                    }
                }
            }
            St::IfElse(_, a, b) => {
                for body in [a, b] {
                    strip_builtin_uses(body, res, idx);
                    if body.is_empty() {
                        body.push(St::Let("u".into(), 0));
                    }
                }
            }
            St::Block(_, b) | St::For(_, _, b) | St::Match(_, _, b) | St::Lam(_, _, b) => {
                strip_builtin_uses(b, res, idx);
                if b.is_empty() {
                    b.push(St::Let("u".into(), 0));
                }
            }
        }
        if remove {
            ss.remove(i);
        } else {
            i += 1;
        }
    }
}


macro_rules! w {
    ($f:literal) => {
        include_str!(concat!("../../probes_bg8/", $f))
    };
}

fn fixed_probes() -> Vec<Probe> {
    vec![
        // a namespace-qualified function / constructor used as a VALUE
        Probe { name: "qualified-names-as-values", main: w!("A_08.abra"), files: &[("helper_ns.abra", w!("helper_ns.abra"))], want: Want::Out("42\n8\nhi\n2\n") },
        // a namespace-qualified TYPE in annotations: found / not found / qualifier is not a namespace
        Probe { name: "qualified-type-annotation", main: w!("B_14.abra"), files: &[("bmod.abra", w!("bmod.abra"))], want: Want::Out("4\n3\n") },
        Probe { name: "qualified-type-annotation-unresolved", main: w!("B_14b.abra"), files: &[("bmod.abra", w!("bmod.abra"))], want: Want::Rejected(&["Could not resolve identifier", "Must be a namespace"]) },
        Probe { name: "member-access-through-a-function", main: w!("B_13.abra"), files: &[], want: Want::Rejected(&["Could not resolve identifier"]) },
        // clashes with builtin types, intrinsics, #host functions; duplicate members of one interface / enum / struct / parameter list
        Probe {
            name: "clash-with-builtins-and-duplicate-members",
            main: w!("B_40.abra"),
            files: &[],
            want: Want::Rejected(&["`foo` was declared more than once", "`Aa` was declared more than once", "`Cc` was declared more than once", "`x` was declared more than once", "`a` was declared more than once", "`array_push` was declared more than once", "`array` was declared more than once", "`print_string` was declared more than once"]),
        },
        Probe {
            name: "duplicate-member-function-per-receiver-type",
            main: w!("B_21.abra"),
            files: &[],
            want: Want::Rejected(&["`dup` was declared for `float` more than once", "`dup` was declared for `bool` more than once", "`dup` was declared for `string` more than once", "`dup` was declared for `void` more than once", "`dup` was declared for `Pt` more than once", "`dup` was declared for `tuple(#2 elems)` more than once"]),
        },
        Probe { name: "extend-a-function-name", main: w!("B_01.abra"), files: &[], want: Want::Rejected(&["Must extend a type"]) },
        Probe { name: "implement-for-a-function-name", main: w!("B_43.abra"), files: &[], want: Want::Rejected(&["Must extend a type"]) },
        Probe { name: "extend-implement-for-non-types", main: w!("B_49.abra"), files: &[], want: Want::Rejected(&["Must extend a type", "Could not resolve identifier"]) },
        // D101: a type parameter declared twice is a clash
        Probe { name: "D101-duplicate-type-parameter", main: w!("B_47.abra"), files: &[], want: Want::Rejected(&["declared more than once"]) },
    ]
}

/// `OsFileProvider`: a module is looked up in the main file's directory, then in the import
/// directories, then in the standard-modules directory; a module that exists nowhere is a diagnostic
fn os_provider_probe(ctx: &mut Ctx) {
    use abra_core::vm::Runtime;
    use abra_core::{OsFileProvider, compile_bytecode};
    let root = ctx.out_dir.join("os17");
    let _ = std::fs::remove_dir_all(&root);
    let files: [(&str, &str); 10] = [
        ("main.abra", w!("os17/main.abra")),
        ("missing.abra", w!("os17/missing.abra")),
        ("local_mod.abra", w!("os17/local_mod.abra")),
        ("imp/local_mod.abra", w!("os17/imp/local_mod.abra")),
        ("imp/imp_mod.abra", w!("os17/imp/imp_mod.abra")),
        ("imp/both.abra", w!("os17/imp/both.abra")),
        ("imp/sub/deep.abra", w!("os17/imp/sub/deep.abra")),
        ("std/imp_mod.abra", w!("os17/std/imp_mod.abra")),
        ("std/std_mod.abra", w!("os17/std/std_mod.abra")),
        ("std/both.abra", w!("os17/std/both.abra")),
    ];
    for (rel, text) in files {
        let path = root.join(rel);
        std::fs::create_dir_all(path.parent().unwrap()).unwrap();
        std::fs::write(&path, text).unwrap();
    }
    let run = move |main: &str| -> String {
        let root = root.clone();
        let main = main.to_string();
        let r = std::panic::catch_unwind(std::panic::AssertUnwindSafe(move || {
            let provider = OsFileProvider::new(root.clone(), root.join("std"), vec![root.join("imp")]);
            match compile_bytecode(&main, provider) {
                Err(e) => format!("rejected: {}", e.to_string().lines().filter(|l| l.starts_with("error")).collect::<Vec<_>>().join(" | ")),
                Ok(program) => {
                    let mut rt = Runtime::new(program);
                    let mut out = String::new();
                    let (outcome, _, _) = drive(&mut rt, &RunOpts::default(), &mut out);
                    format!("{}: {}", outcome.tag(), out.replace('\n', "\\n"))
                }
            }
        }));
        r.unwrap_or_else(|p| format!("CRASH: {}", panic_msg(p)))
    };
    let got = std::thread::Builder::new().stack_size(256 << 20).spawn(move || (run("main.abra"), run("missing.abra"))).unwrap().join().unwrap();
    let want_main = "done: local_mod from main dir\\nimp_mod from import dir\\nstd_mod from std dir\\nboth from import dir\\nsub/deep from import dir\\n";
    let ok_main = got.0 == want_main;
    ctx.count(&format!("probe:os-provider-search-order:{}", if ok_main { "ok" } else { "FAIL" }));
    if !ok_main {
        ctx.spec_fail(format!("probe os-provider-search-order (main dir, then -i dirs, then standard modules): got `{}`, want `{want_main}`", got.0));
    }
    let ok_missing = got.1.starts_with("rejected:");
    ctx.count(&format!("probe:os-provider-missing-module:{}", if ok_missing { "ok" } else { "FAIL" }));
    if !ok_missing {
        ctx.spec_fail(format!("probe os-provider-missing-module: `use no_such_module` must be a diagnostic, got `{}`", got.1));
    }
}

fn main() {
    let mut ctx = Ctx::from_env("C21");
    let n_prog = if ctx.quick() { 700 } else { 12000 };
    let mut worlds: Vec<World> = vec![];
    {
        let mut g = Gen { rng: &mut ctx.rng, next_id: 0, type_names: vec![], visible_types: vec![], visible_enums: vec![], strict: false, ghost: vec![] };
        for i in 0..n_prog {
            g.next_id = 0;
            let mut w = g.world(i % 2 == 0);
            let rr = reference(&w);
            for k in 0..w.files.len() {
                let mut idx = 0;
                let res = rr.probe[k].clone();
                strip_builtin_uses(&mut w.files[k].probe, &res, &mut idx);
                let mut idx = 0;
                let res = rr.top[k].clone();
                strip_builtin_uses(&mut w.files[k].top, &res, &mut idx);
            }
            worlds.push(w);
        }
    }
    let answers = par_map(&worlds, run_impl);
    for (w, imp) in worlds.iter().zip(answers) {
        let rr = reference(w);
        let expect = ref_answer(w, &rr);
        ctx.count(&format!("files:{}", w.files.len()));
        for f in &w.files {
            for i in &f.imports {
                ctx.count(match i {
                    Imp::Glob(_) => "import:glob",
                    Imp::Incl(..) => "import:inclusion",
                    Imp::Excl(..) => "import:exclusion",
                    Imp::As(..) => "import:as",
                    Imp::Missing => "import:missing-file",
                });
            }
        }
        let class = if imp.starts_with("ok") {
            "answer:ok".to_string()
        } else if imp.starts_with("diag") {
            let mut c = String::from("answer:diag");
            if !imp.contains("clash=-") {
                c.push_str("+clash");
            }
            if !imp.contains("unres=-") {
                c.push_str("+unresolved");
            }
            if !imp.contains("bad=0") {
                c.push_str("+badimport");
            }
            if imp.contains(" other=") {
                c.push_str("+other");
            }
            c
        } else {
            format!("answer:{}", imp.split(' ').next().unwrap_or(""))
        };
        ctx.count(&class);
        fn shapes(ss: &[St], ctx: &mut Ctx) {
            for s in ss {
                match s {
                    St::MArms(_, arms) => {
                        ctx.count(&format!("shape:match-{}-arms", arms.len()));
                        let mut earlier: Vec<&String> = vec![];
                        for (b, body) in arms {
                            if body.iter().any(|u| matches!(u, St::Use(x) if earlier.contains(&x) && b.as_ref().map(|bb| &bb.0 != x).unwrap_or(true))) {
                                ctx.count("shape:later-arm-uses-earlier-arm-binder");
                            }
                            if let Some((x, _)) = b {
                                earlier.push(x);
                            }
                            shapes(body, ctx);
                        }
                    }
                    St::DefUse(y, inner) => {
                        let own = match &**inner {
                            St::Let(x, _) | St::For(x, _, _) | St::Match(x, _, _) => x == y,
                            _ => false,
                        };
                        ctx.count(if own { "shape:defining-expression-uses-own-binder-name" } else { "shape:defining-expression-uses-a-name" });
                        if let St::For(_, _, b) | St::Match(_, _, b) = &**inner {
                            shapes(b, ctx);
                        }
                    }
                    St::IfElse(_, a, b) => {
                        ctx.count("shape:if-else");
                        shapes(a, ctx);
                        shapes(b, ctx);
                    }
                    St::Block(_, b) | St::For(_, _, b) | St::Match(_, _, b) | St::Lam(_, _, b) => shapes(b, ctx),
                    _ => {}
                }
            }
        }
        for f in &w.files {
            shapes(&f.probe, &mut ctx);
            shapes(&f.top, &mut ctx);
        }
        // shadowing statistics from the reference
        for k in 0..w.files.len() {
            for d in rr.probe[k].iter().chain(rr.top[k].iter()) {
                ctx.count(match d {
                    None => "use:unresolved",
                    Some(RDecl::Loc(_)) => "use:local",
                    Some(RDecl::Fn(f, _)) if *f == k => "use:own-file",
                    Some(RDecl::Fn(..)) => "use:imported",
                    Some(RDecl::Variant(f, ..)) if *f == k => "use:variant-of-own-enum",
                    Some(RDecl::Variant(..)) => "use:variant-of-imported-enum",
                    Some(_) => "use:other",
                });
            }
        }
        let differs = if !rr.clashes.is_empty() {
            // with a clash only the clash multiset and the bad imports are what the property fixes
            let strip = |a: &str| a.split(' ').filter(|p| !p.starts_with("unres=") && !p.starts_with("other=")).collect::<Vec<_>>().join(" ");
            !imp.starts_with("diag") || strip(imp.split(" other=").next().unwrap_or("")) != strip(&expect)
        } else {
            imp != expect
        };
        if differs {
            let r = render(w);
            let mut text = String::new();
            for (k, f) in r.files.iter().enumerate() {
                text.push_str(&format!("--- {}.abra\n{}", file_name(k), f));
            }
            ctx.spec_fail(format!(
                "implementation `{imp}`, lexical-scoping / import-set reference `{expect}` for program:\n{text}"
            ));
        }
        ctx.case(request(w), imp);
    }
    run_probes(&mut ctx, &fixed_probes());
    os_provider_probe(&mut ctx);
    ctx.finish();
}
