//! C18 correspondence: named and default arguments.
//!
//! Every parameter list of arity ≤ 3 (quick) / ≤ 4 (thorough) × every subset of parameters with a
//! default × every call shape (sequence of positional / named / unknown-named arguments of length
//! ≤ arity + 1: permutations, omissions, duplicates, unknown names, surplus positionals,
//! positional-after-named) × every callee form (free function, namespaced function, member function
//! `x.g(..)`, fully qualified member function `T.g(x, ..)`, struct constructor, qualified and
//! unqualified enum variant constructor) is compiled and run by the real front end + VM.
//! Argument k is the side-effecting expression `tick(100+k)` (prints `e<100+k>;`), default i is the
//! literal 900+i, and the callee prints what it received, so the output names, per parameter, which
//! argument or default arrived and in which order the arguments were evaluated.
//! * vs the Lean model (`callorder …`): accepted ⇒ same entries and evaluation order; rejected ⇒
//!   same set of diagnostic kinds.
//! * vs the property itself (`spec_fail`): a well-formed call must run and print exactly what the
//!   equivalent all-positional call (defaults written out) prints when executed for real; an
//!   ill-formed call must be rejected with a diagnostic (no crash, no silent acceptance).
use abra_core::check_lsp;
use std::panic::{AssertUnwindSafe, catch_unwind};
use vh::*;
#[path = "../bg8_probes.rs"]
mod bg8_probes;
use bg8_probes::{Probe, Want, run_probes};

/// parameter names: a, b, c, d, then p4, p5, …
fn pname(i: usize) -> String {
    if i < 4 { ["a", "b", "c", "d"][i].to_string() } else { format!("p{i}") }
}

#[derive(Clone, Copy, PartialEq, Eq, Debug)]
enum A {
    Pos,
    Name(usize),
    Unk,
}

#[derive(Clone, Copy, PartialEq, Eq, Debug)]
enum Form {
    Fn,
    NsFn,
    Method,
    QMethod,
    Struct,
    Variant,
    DotVariant,
}
const FORMS: [Form; 7] =
    [Form::Fn, Form::NsFn, Form::Method, Form::QMethod, Form::Struct, Form::Variant, Form::DotVariant];

impl Form {
    fn tag(self) -> &'static str {
        match self {
            Form::Fn => "fn",
            Form::NsFn => "nsfn",
            Form::Method => "method",
            Form::QMethod => "qmethod",
            Form::Struct => "struct",
            Form::Variant => "variant",
            Form::DotVariant => "dotvariant",
        }
    }
    fn model_kind(self) -> &'static str {
        match self {
            Form::Fn | Form::NsFn => "fn",
            Form::Method | Form::QMethod => "method",
            Form::Struct => "struct",
            Form::Variant | Form::DotVariant => "variant",
        }
    }
}

#[derive(Clone, Copy, Debug, PartialEq, Eq)]
struct PL {
    n: usize,
    mask: u64,
}
impl PL {
    fn has_default(&self, i: usize) -> bool {
        self.mask >> i & 1 == 1
    }
    fn decl(&self, sep: &str) -> String {
        (0..self.n)
            .map(|i| {
                if self.has_default(i) {
                    format!("{}: int = {}", pname(i), 900 + i)
                } else {
                    format!("{}: int", pname(i))
                }
            })
            .collect::<Vec<_>>()
            .join(sep)
    }
    fn model_params(&self, with_self: bool) -> String {
        let mut v: Vec<String> = vec![];
        if with_self {
            v.push("self".into());
        }
        for i in 0..self.n {
            v.push(format!("{}{}", pname(i), if self.has_default(i) { "?" } else { "" }));
        }
        if v.is_empty() { "-".into() } else { v.join(",") }
    }
}

#[derive(Clone, Copy, PartialEq, Eq, Debug)]
enum E {
    Arg(usize),
    Def(usize),
}

/// The property stated directly (independent of the Lean model): Ok(entries of the equivalent
/// positional call) for a well-formed call, Err(()) for misuse.
fn spec(pl: &PL, args: &[A]) -> Result<Vec<E>, ()> {
    let k = args.iter().take_while(|a| **a == A::Pos).count();
    if args[k..].iter().any(|a| *a == A::Pos) {
        return Err(()); // positional after named
    }
    if k > pl.n {
        return Err(()); // more positionals than parameters
    }
    let mut by_name: Vec<Option<usize>> = vec![None; pl.n];
    for (j, a) in args.iter().enumerate().skip(k) {
        match a {
            A::Unk => return Err(()),
            A::Name(i) => {
                if *i < k || by_name[*i].is_some() {
                    return Err(()); // given twice
                }
                by_name[*i] = Some(j);
            }
            A::Pos => unreachable!(),
        }
    }
    let mut out = vec![];
    for i in 0..pl.n {
        if i < k {
            out.push(E::Arg(i));
        } else if let Some(j) = by_name[i] {
            out.push(E::Arg(j));
        } else if pl.has_default(i) {
            out.push(E::Def(i));
        } else {
            return Err(()); // required parameter not supplied
        }
    }
    Ok(out)
}

fn arg_text(j: usize, a: A) -> String {
    match a {
        A::Pos => format!("tick({})", 100 + j),
        A::Name(i) => format!("{} = tick({})", pname(i), 100 + j),
        A::Unk => format!("zz = tick({})", 100 + j),
    }
}

fn shape_text(args: &[A]) -> String {
    if args.is_empty() {
        return "-".into();
    }
    args.iter()
        .map(|a| match a {
            A::Pos => "_".to_string(),
            A::Name(i) => pname(*i),
            A::Unk => "zz".to_string(),
        })
        .collect::<Vec<_>>()
        .join(",")
}

/// the argument list text of the named call / of the equivalent positional call
fn call_args(args: &[A]) -> String {
    args.iter().enumerate().map(|(j, a)| arg_text(j, *a)).collect::<Vec<_>>().join(", ")
}
fn positional_args(entries: &[E]) -> String {
    entries
        .iter()
        .map(|e| match e {
            E::Arg(j) => format!("tick({})", 100 + j),
            E::Def(i) => format!("{}", 900 + i),
        })
        .collect::<Vec<_>>()
        .join(", ")
}

fn printer(vars: &[String]) -> String {
    let mut s = String::from("println(\"r:\"");
    for (i, v) in vars.iter().enumerate() {
        if i > 0 {
            s.push_str(" .. \",\"");
        }
        s.push_str(" .. ");
        s.push_str(v);
    }
    s.push(')');
    s
}

const TICK: &str = "fn tick(n: int) -> int {\n  print(\"e\" .. n .. \";\")\n  n\n}\n";

/// declarations for one (form, parameter list); returns (main prelude text, extra files)
fn decls(form: Form, pl: &PL) -> (String, Vec<(String, String)>) {
    let names: Vec<String> = (0..pl.n).map(|i| pname(i)).collect();
    match form {
        Form::Fn => (format!("{TICK}fn g({}) {{\n  {}\n}}\n", pl.decl(", "), printer(&names)), vec![]),
        Form::NsFn => (
            format!("use m as mm\n{TICK}"),
            vec![("m.abra".into(), format!("fn g({}) {{\n  {}\n}}\n", pl.decl(", "), printer(&names)))],
        ),
        Form::Method | Form::QMethod => {
            let mut d = pl.decl(", ");
            if !d.is_empty() {
                d = format!(", {d}");
            }
            (
                format!(
                    "{TICK}type Pt = {{ nm: int }}\nextend Pt {{\n  fn g(self{d}) {{\n    {}\n  }}\n}}\nlet pt = Pt(7)\n",
                    printer(&names)
                ),
                vec![],
            )
        }
        Form::Struct => {
            let fields: Vec<String> = names.iter().map(|n| format!("s.{n}")).collect();
            (
                format!(
                    "{TICK}type Sx = {{\n  {}\n}}\nfn show(s: Sx) {{\n  {}\n}}\n",
                    pl.decl("\n  "),
                    printer(&fields)
                ),
                vec![],
            )
        }
        Form::Variant | Form::DotVariant => {
            let xs: Vec<String> = (0..pl.n).map(|i| format!("x{i}")).collect();
            let pat: Vec<String> = (0..pl.n).map(|i| format!("{} = x{}", pname(i), i)).collect();
            (
                format!(
                    "{TICK}type En =\n  | Va({})\n  | Other\nfn show(v: En) {{\n  match v {{\n    .Va({}) -> {}\n    .Other -> println(\"other\")\n  }}\n}}\n",
                    pl.decl(", "),
                    pat.join(", "),
                    printer(&xs)
                ),
                vec![],
            )
        }
    }
}

/// statement text for one call; returns (text, start, end) where [start,end) is the span of the call
/// expression inside the text
fn call_stmt(form: Form, arglist: &str) -> (String, usize, usize) {
    let (pre, call, post) = match form {
        Form::Fn => ("", format!("g({arglist})"), "\n"),
        Form::NsFn => ("", format!("mm.g({arglist})"), "\n"),
        Form::Method => ("", format!("pt.g({arglist})"), "\n"),
        Form::QMethod => {
            ("", if arglist.is_empty() { "Pt.g(pt)".to_string() } else { format!("Pt.g(pt, {arglist})") }, "\n")
        }
        Form::Struct => ("show(", format!("Sx({arglist})"), ")\n"),
        Form::Variant => ("show(", format!("En.Va({arglist})"), ")\n"),
        Form::DotVariant => ("let v: En = ", format!(".Va({arglist})"), "\nshow(v)\n"),
    };
    let text = format!("{pre}{call}{post}");
    (text, pre.len(), pre.len() + call.len())
}

fn all_shapes(n: usize) -> Vec<Vec<A>> {
    let mut opts = vec![A::Pos];
    for i in 0..n {
        opts.push(A::Name(i));
    }
    opts.push(A::Unk);
    let mut out: Vec<Vec<A>> = vec![vec![]];
    let mut layer: Vec<Vec<A>> = vec![vec![]];
    for _ in 0..n + 1 {
        let mut next = vec![];
        for s in &layer {
            for o in &opts {
                let mut t = s.clone();
                t.push(*o);
                next.push(t);
            }
        }
        out.extend(next.iter().cloned());
        layer = next;
    }
    out
}

fn classify(msg: &str) -> &'static str {
    let m = msg.to_lowercase();
    if m.contains("could not resolve identifier") {
        "unknown"
    } else if m.contains("named argument more than once") {
        "dup"
    } else if m.contains("unnamed argument after named") {
        "posafter"
    } else if m.contains("missing argument") {
        "missing"
    } else if m.contains("too many") || m.contains("surplus") || m.contains("extra argument") || m.contains("unexpected argument") {
        "surplus"
    } else if m.contains("can't use named arguments") {
        "nodef"
    } else {
        "other"
    }
}

fn parse_output(out: &str) -> Option<String> {
    // e<k>;e<k>;r:v,v\n
    let out = out.trim_end_matches('\n');
    let (ev, r) = out.split_once("r:")?;
    let mut evs = vec![];
    for part in ev.split(';') {
        if part.is_empty() {
            continue;
        }
        let k: usize = part.strip_prefix('e')?.parse().ok()?;
        evs.push(format!("{}", k.checked_sub(100)?));
    }
    let mut ents = vec![];
    if !r.is_empty() {
        for v in r.split(',') {
            let x: usize = v.parse().ok()?;
            if (100..200).contains(&x) {
                ents.push(format!("a{}", x - 100));
            } else if (900..1000).contains(&x) {
                ents.push(format!("d{}", x - 900));
            } else {
                return None;
            }
        }
    }
    let j = |v: &Vec<String>| if v.is_empty() { "-".to_string() } else { v.join(",") };
    Some(format!("ok {}|{}", j(&ents), j(&evs)))
}

fn diag_answer(kinds: &[&str]) -> String {
    let mut c18: Vec<&str> = kinds.iter().cloned().filter(|k| *k != "other").collect();
    c18.sort();
    c18.dedup();
    if c18.is_empty() { "diag other".into() } else { format!("diag {}", c18.join(",")) }
}

/// full pipeline on one call alone: diagnostics via check_lsp, otherwise compile + run
fn run_single(form: Form, pl: &PL, arglist: &str) -> (String, String) {
    let (pre, files) = decls(form, pl);
    let (stmt, _, _) = call_stmt(form, arglist);
    let src = format!("{pre}{stmt}");
    let chk = catch_unwind(AssertUnwindSafe(|| {
        let res = check_lsp("main.abra", provider(&src, &files));
        res.errors().iter().map(|e| e.message.clone()).collect::<Vec<_>>()
    }));
    match chk {
        Err(p) => (format!("crash checker: {}", panic_msg(p).replace('\n', " ")), String::new()),
        Ok(msgs) if !msgs.is_empty() => {
            let kinds: Vec<&str> = msgs.iter().map(|m| classify(m)).collect();
            (diag_answer(&kinds), String::new())
        }
        Ok(_) => {
            let r = run_program_opts(&src, &RunOpts { files, ..Default::default() });
            match &r.outcome {
                Outcome::Done => (parse_output(&r.out).unwrap_or(format!("other-output {}", r.out.replace('\n', "\\n"))), r.out.clone()),
                Outcome::Crash(m) => (format!("crash compiler: {}", m.replace('\n', " ")), String::new()),
                o => (format!("other {}", o.tag()), String::new()),
            }
        }
    }
}

struct Group {
    form: Form,
    pl: PL,
    shapes: Vec<Vec<A>>,
}

struct CaseOut {
    form: Form,
    pl: PL,
    shape: Vec<A>,
    imp: String,
    /// raw output of the named call and of the equivalent positional call (well-formed shapes)
    named_out: Option<String>,
    pos_out: Option<String>,
    batched: bool,
}

fn split_markers(out: &str) -> std::collections::HashMap<usize, String> {
    let mut m = std::collections::HashMap::new();
    let mut cur: Option<usize> = None;
    let mut buf = String::new();
    for line in out.split_inclusive('\n') {
        if let Some(rest) = line.strip_prefix('#') {
            if let Some(c) = cur {
                m.insert(c, std::mem::take(&mut buf));
            }
            buf.clear();
            cur = rest.trim().parse().ok();
        } else {
            buf.push_str(line);
        }
    }
    if let Some(c) = cur {
        m.insert(c, buf);
    }
    m
}

fn run_group(g: &Group) -> Vec<CaseOut> {
    let (pre, files) = decls(g.form, &g.pl);
    let mut outs: Vec<CaseOut> = vec![];
    let mut good: Vec<(usize, Vec<E>)> = vec![];
    let mut bad: Vec<usize> = vec![];
    for (i, s) in g.shapes.iter().enumerate() {
        outs.push(CaseOut {
            form: g.form,
            pl: g.pl,
            shape: s.clone(),
            imp: String::new(),
            named_out: None,
            pos_out: None,
            batched: false,
        });
        match spec(&g.pl, s) {
            Ok(e) => good.push((i, e)),
            Err(()) => bad.push(i),
        }
    }
    // ---- well-formed shapes: one program, named call and positional equivalent per shape
    if !good.is_empty() {
        let mut src = pre.clone();
        for (i, e) in &good {
            src.push_str(&format!("println(\"#{}\")\n", 2 * i));
            src.push_str(&call_stmt(g.form, &call_args(&g.shapes[*i])).0);
            src.push_str(&format!("println(\"#{}\")\n", 2 * i + 1));
            src.push_str(&call_stmt(g.form, &positional_args(e)).0);
        }
        let r = run_program_opts(&src, &RunOpts { files: files.clone(), ..Default::default() });
        if r.outcome == Outcome::Done {
            let m = split_markers(&r.out);
            for (i, _) in &good {
                let a = m.get(&(2 * i)).cloned().unwrap_or_default();
                let b = m.get(&(2 * i + 1)).cloned().unwrap_or_default();
                outs[*i].imp = parse_output(&a).unwrap_or(format!("other-output {}", a.replace('\n', "\\n")));
                outs[*i].named_out = Some(a);
                outs[*i].pos_out = Some(b);
                outs[*i].batched = true;
            }
        } else {
            for (i, e) in &good {
                let (imp, out) = run_single(g.form, &g.pl, &call_args(&g.shapes[*i]));
                let (_, pout) = run_single(g.form, &g.pl, &positional_args(e));
                outs[*i].imp = imp;
                outs[*i].named_out = Some(out);
                outs[*i].pos_out = Some(pout);
            }
        }
    }
    // ---- ill-formed shapes: batches through the checker, diagnostics attributed by source span
    for chunk in bad.chunks(24) {
        let mut src = pre.clone();
        let mut spans: Vec<(usize, usize)> = vec![];
        for i in chunk {
            let (stmt, lo, hi) = call_stmt(g.form, &call_args(&g.shapes[*i]));
            spans.push((src.len() + lo, src.len() + hi));
            src.push_str(&stmt);
        }
        let chk = catch_unwind(AssertUnwindSafe(|| {
            let res = check_lsp("main.abra", provider(&src, &files));
            let main_id = res.file_id_for_path(std::path::Path::new("main.abra")).unwrap_or(0);
            res.errors()
                .iter()
                .map(|e| {
                    let mut ranges = vec![];
                    if e.file_id == main_id {
                        ranges.push(e.range.clone());
                    }
                    for (f, r, _) in &e.secondary_labels {
                        if *f == main_id {
                            ranges.push(r.clone());
                        }
                    }
                    (e.message.clone(), ranges)
                })
                .collect::<Vec<_>>()
        }));
        let mut fallback = false;
        let mut per: Vec<Vec<&'static str>> = vec![vec![]; chunk.len()];
        match &chk {
            Err(_) => fallback = true,
            Ok(errs) => {
                for (msg, ranges) in errs {
                    let mut hit = false;
                    for (ci, (lo, hi)) in spans.iter().enumerate() {
                        if ranges.iter().any(|r| r.start >= *lo && r.end <= *hi) {
                            per[ci].push(classify(msg));
                            hit = true;
                        }
                    }
                    if !hit {
                        fallback = true; // a diagnostic that belongs to no call: do not guess
                    }
                }
            }
        }
        for (ci, i) in chunk.iter().enumerate() {
            if fallback || per[ci].is_empty() {
                let (imp, out) = run_single(g.form, &g.pl, &call_args(&g.shapes[*i]));
                outs[*i].imp = imp;
                outs[*i].named_out = Some(out);
            } else {
                outs[*i].imp = diag_answer(&per[ci]);
                outs[*i].batched = true;
            }
        }
    }
    outs
}


macro_rules! w {
    ($f:literal) => {
        include_str!(concat!("../../probes_bg8/", $f))
    };
}

fn fixed_probes() -> Vec<Probe> {
    let p = |name, main, want| Probe { name, main, files: &[], want };
    vec![
        // 32 arguments: the call goes through a function object
        p("arity-32-positional", w!("A_06.abra"), Want::Out("10912\nABCDEFGHIJKLMNOPQRSTUVWXYZABCDEF\n")),
        // D87 (79c3120): a variant that carries data cannot be named without its arguments
        p("D87-payload-variant-without-arguments", w!("A_D3_bare_payload_variant.abra"), Want::Rejected(&["carries data", "arguments are missing"])),
        // D102 (c7017fe): a default on a method that implements an interface is a diagnostic at the declaration
        p("D102-default-on-impl-method", w!("B_48.abra"), Want::Rejected(&["can't have a default value"])),
        // lambdas do not support defaults (lambdas.md): using one is a diagnostic, never a crash
        p(
            "D102-default-on-lambda-parameter",
            "let f = (a: int, b: int = 5) -> a + b\nprintln(f(1))\n",
            Want::Rejected(&["can't have a default value"]),
        ),
        // default values holding a match, on a #host declaration, an impl method and a lambda parameter
        // a match inside a default value: fine on a #host declaration and a named function …
        p(
            "match-inside-default-values",
            "#host\nfn zz_host_fn(x: int = match 1 { 1 -> 2, _ -> 3 }) -> int\nfn plus(a: int, b: int = match 2 { 2 -> 5, _ -> 6 }) -> int { a + b }\nprintln(plus(1))\nprintln(plus(1, 2))\n",
            Want::Out("6\n3\n"),
        ),
        // … and on an impl method / lambda parameter the default itself is the diagnostic (D102)
        p(
            "match-inside-default-of-impl-method-and-lambda",
            w!("B_36.abra"),
            Want::Rejected(&["method that implements an interface can't have a default value", "anonymous function can't have a default value"]),
        ),
    ]
}

/// Default values that are themselves CALLS of every callee form (qualified member call with an explicit
/// receiver, method syntax, free function, struct and variant constructor — with named / default
/// arguments of their own), on function parameters, method parameters, struct fields and variant fields.
/// Oracle = the positional equivalent: the program that omits the default at two call sites must print
/// what the program with the default written out prints.
fn default_call_pairs(ctx: &mut Ctx) {
    let decls = "type Counter = { n: int }\nextend Counter {\n  fn bump(self, times: int = 1, by: int = 1) -> int { self.n + times * by }\n}\n\
fn add3(a: int, b: int = 2, c: int = 3) -> int { a + b * 10 + c * 100 }\n\
type Pt = { x: int, y: int = 7 }\n\
type Sh = | Circle(r: int, k: int = 4) | Dot\n\
fn show_sh(s: Sh) -> int {\n  match s {\n    .Circle(r = a, k = b) -> a * 10 + b\n    .Dot -> 0\n  }\n}\n";
    let defaults: [(&str, &str); 6] = [
        ("qualified-member-call", "Counter.bump(Counter(10), times = 2, by = 5)"),
        ("qualified-member-call-default", "Counter.bump(Counter(10), by = 5)"),
        ("method-call", "Counter(10).bump(by = 3)"),
        ("free-function-call", "add3(1, c = 5)"),
        ("struct-constructor", "Pt(1).y"),
        ("variant-constructor", "show_sh(Sh.Circle(r = 2))"),
    ];
    // (carrier, declaration with {D}, call omitting the default, call with {D} written out)
    let carriers: [(&str, &str, &str, &str); 4] = [
        ("function-parameter", "fn usef(a: int, d: int = {D}) -> int { a + d }\n", "usef(1)", "usef(1, {D})"),
        ("method-parameter", "type Hd = { z: int }\nextend Hd {\n  fn m(self, d: int = {D}) -> int { self.z + d }\n}\n", "Hd(1).m()", "Hd(1).m({D})"),
        ("struct-field", "type Sf = { a: int, d: int = {D} }\n", "Sf(1).d", "Sf(1, {D}).d"),
        (
            "variant-field",
            "type Vf = | Va(a: int, d: int = {D}) | Vb\nfn vsum(v: Vf) -> int {\n  match v {\n    .Va(a = p, d = q) -> p + q\n    .Vb -> 0\n  }\n}\n",
            "vsum(Vf.Va(a = 1))",
            "vsum(Vf.Va(a = 1, d = {D}))",
        ),
    ];
    let mut jobs: Vec<(String, String, String)> = vec![];
    for (dn, d) in defaults {
        for (cn, decl, omit, written) in carriers {
            let head = format!("{decls}{}", decl.replace("{D}", d));
            let a = format!("{head}println({omit})\nprintln({omit} + 1)\n");
            let w = written.replace("{D}", d);
            let b = format!("{head}println({w})\nprintln({w} + 1)\n");
            jobs.push((format!("default-{dn}-on-{cn}"), a, b));
        }
    }
    let results = par_map(&jobs, |(_, a, b)| (run_program(a), run_program(b)));
    for ((name, a, _), (ra, rb)) in jobs.iter().zip(results) {
        let ok = ra.outcome == Outcome::Done && rb.outcome == Outcome::Done && ra.out == rb.out && !ra.out.is_empty();
        ctx.count(&format!("probe:{name}:{}", if ok { "ok" } else { "FAIL" }));
        if !ok {
            let show = |r: &RunResult| match &r.outcome {
                Outcome::Done => format!("prints {:?}", r.out),
                Outcome::Rejected(t) => format!("rejected: {}", t.lines().filter(|l| l.starts_with("error")).collect::<Vec<_>>().join(" | ")),
                o => o.tag(),
            };
            ctx.spec_fail(format!(
                "probe {name}: the call that omits the default {} but the same call with the default written out {}\n--- main.abra\n{a}",
                show(&ra),
                show(&rb)
            ));
        }
    }
}

fn main() {
    let mut ctx = Ctx::from_env("C18");
    let max_n = if ctx.quick() { 3 } else { 4 };
    let mut groups: Vec<Group> = vec![];
    for &form in FORMS.iter() {
        for n in 0..=max_n {
            if n == 0 && matches!(form, Form::Struct | Form::Variant | Form::DotVariant) {
                continue; // no field-less struct / parenthesised field-less variant in the grammar
            }
            let shapes = all_shapes(n);
            for mask in 0..(1u32 << n) {
                let pl = PL { n, mask: mask as u64 };
                // quick tier: every well-formed shape for every form; the ill-formed ones completely for
                // free functions, a seeded third of them for the other forms
                let mut chosen = vec![];
                for s in &shapes {
                    let keep = match spec(&pl, s) {
                        Ok(_) => true,
                        Err(()) => {
                            if ctx.quick() {
                                if form == Form::Fn { n < 3 || ctx.rng.chance(1, 2) } else { ctx.rng.chance(1, if n < 3 { 3 } else { 12 }) }
                            } else if n == 4 {
                                ctx.rng.chance(1, if form == Form::Fn { 4 } else { 12 })
                            } else {
                                true
                            }
                        }
                    };
                    if keep {
                        chosen.push(s.clone());
                    }
                }
                groups.push(Group { form, pl, shapes: chosen });
            }
        }
    }
    // ---- arity 31, 32, 33 (more than CallData::MAX_NARGS = 31 arguments go through a function object):
    // defaults on the last ten parameters and on parameter 5; a fixed family of shapes per callee form
    for &form in FORMS.iter() {
        for n in [31usize, 32, 33] {
            let mut mask: u64 = 1 << 5;
            for i in n - 10..n {
                mask |= 1 << i;
            }
            let pl = PL { n, mask };
            let req_end = n - 10;
            let mut shapes: Vec<Vec<A>> = vec![];
            shapes.push(vec![A::Pos; n]); // all positional
            shapes.push(vec![A::Pos; req_end]); // trailing defaults omitted
            shapes.push((0..n).rev().map(A::Name).collect()); // all by name, reversed
            let mut s = vec![A::Pos; req_end];
            s.extend((req_end..n).rev().map(A::Name));
            shapes.push(s); // positional prefix, the rest by name in reverse
            let mut s = vec![A::Pos; 5];
            s.extend((6..req_end).rev().map(A::Name)); // parameter 5 and the tail use their defaults
            s.push(A::Name(n - 1));
            shapes.push(s);
            shapes.push(vec![A::Pos; n + 1]); // surplus positional
            shapes.push(vec![A::Pos; req_end - 1]); // a required parameter missing
            let mut s = vec![A::Pos; req_end];
            s.push(A::Name(3));
            shapes.push(s); // by position and by name
            let mut s = vec![A::Pos; req_end];
            s.push(A::Unk);
            shapes.push(s); // unknown name
            let mut s = vec![A::Pos; req_end];
            s.push(A::Name(n - 1));
            s.push(A::Pos);
            shapes.push(s); // positional after named
            groups.push(Group { form, pl, shapes });
        }
    }
    let results = par_map(&groups, run_group);
    for outs in results {
        for c in outs {
            let with_self = matches!(c.form, Form::Method | Form::QMethod);
            let req = format!(
                "callorder {} {} {} #{}",
                c.form.model_kind(),
                c.pl.model_params(with_self),
                shape_text(&c.shape),
                c.form.tag()
            );
            let what = format!(
                "{} params({}) call({})",
                c.form.tag(),
                c.pl.decl(", "),
                call_args(&c.shape)
            );
            ctx.count(&format!("form:{}", c.form.tag()));
            ctx.count(&format!("arity:{}", c.pl.n));
            ctx.count(if c.batched { "run:batched" } else { "run:single" });
            let class = c.imp.split(' ').take(if c.imp.starts_with("diag") { 2 } else { 1 }).collect::<Vec<_>>().join(":");
            ctx.count(&format!("answer:{class}"));
            match spec(&c.pl, &c.shape) {
                Ok(entries) => {
                    let uses_default = entries.iter().any(|e| matches!(e, E::Def(_)));
                    let reordered = entries.iter().filter_map(|e| if let E::Arg(j) = e { Some(*j) } else { None }).collect::<Vec<_>>().windows(2).any(|w| w[0] > w[1]);
                    ctx.count(&format!("wellformed:default={uses_default},reordered={reordered}"));
                    if !c.imp.starts_with("ok ") {
                        ctx.spec_fail(format!("{what}: well-formed call not accepted: `{}`", c.imp));
                    } else if c.named_out != c.pos_out || c.named_out.is_none() {
                        ctx.spec_fail(format!(
                            "{what}: prints `{}` but the equivalent positional call ({}) prints `{}`",
                            c.named_out.clone().unwrap_or_default().replace('\n', "\\n"),
                            positional_args(&entries),
                            c.pos_out.clone().unwrap_or_default().replace('\n', "\\n")
                        ));
                    }
                }
                Err(()) => {
                    ctx.count("illformed");
                    if !c.imp.starts_with("diag ") {
                        ctx.spec_fail(format!("{what}: misuse not rejected with a diagnostic: `{}`", c.imp));
                    }
                }
            }
            ctx.case(req, c.imp);
        }
    }
    run_probes(&mut ctx, &fixed_probes());
    default_call_pairs(&mut ctx);
    ctx.finish();
}
