//! C36 correspondence: host calls through the REAL generated bindings.
//!
//! `harness/c36gen` is a crate whose build script runs `abra_core::generate_host_function_enum` on a
//! fixed multi-file signature set (65 `#host fn`s of arity 0–4 over every type constructor nested to depth 3,
//! tuples up to width 12, seven `#host` structs with void fields and four `#host` enums, five of the types in
//! modules imported in all four import forms) and links the generated `HostFunctionArgs::from_vm`,
//! `HostFunctionRet::into_vm` and struct/enum `VmType` impls.  This binary generates, per case, random
//! argument values and a random result value, writes the Abra program (three call forms, four call shapes,
//! optionally one array object used in two places; every argument is printed again after the call) that
//! passes the arguments as literals and prints what the host function returned, and lets the child
//! process run it on the real compiler + VM, reading the arguments and writing the result with the
//! generated code.  Compared with the Lean model `Abra.Marshal`: the arguments the host saw (in
//! parameter order), the text the Abra program printed for the result, the pending flag.  Checked
//! directly (`spec_fail`): host-side arguments = the values written in the program; printed text = the
//! harness's own rendering of the value the host returned.
include!("../../c36gen/sigtable.rs");

use std::io::Write as _;
use vh::{Ctx, Rng};

fn struct_def(name: &str) -> Option<StructDef> {
    struct_defs().into_iter().find(|d| d.name == name)
}
fn enum_def(name: &str) -> Option<EnumDef> {
    enum_defs().into_iter().find(|d| d.name == name)
}
fn payload_ty(fs: &[Ty]) -> Ty {
    if fs.len() == 1 { fs[0].clone() } else { Ty::Tup(fs.to_vec()) }
}

const WORDS: &[&str] = &["", "a", "b", "ab", "hello world", "x y z", "Zed", "0", "été", "日本", "naïve café", "tab_less", "UPPER lower"];

thread_local! {
    /// rich mode: every array has at least two elements and is not a palindrome (a reversal is visible)
    static RICH: std::cell::Cell<bool> = const { std::cell::Cell::new(false) };
    /// an array value that the program binds to a variable once and uses in several places: (type, canonical value, name)
    static HOIST: std::cell::RefCell<Option<(Ty, String, String)>> = const { std::cell::RefCell::new(None) };
}

/// can the prelude print a value of this type (tuples wider than 4 have no ToString)
fn printable(t: &Ty) -> bool {
    match t {
        Ty::Opt(x) | Ty::Arr(x) => printable(x),
        Ty::Res(x, e) => printable(x) && printable(e),
        Ty::Tup(xs) => xs.len() <= 4 && xs.iter().all(printable),
        _ => true,
    }
}

fn child_types(t: &Ty, v: &V) -> Vec<Ty> {
    match (t, v) {
        (Ty::Opt(x), V::Some(_)) => vec![(**x).clone()],
        (Ty::Res(x, _), V::Ok(_)) => vec![(**x).clone()],
        (Ty::Res(_, e), V::Err(_)) => vec![(**e).clone()],
        (Ty::Arr(x), V::Arr(ys)) => vec![(**x).clone(); ys.len()],
        (Ty::Tup(xs), V::Tup(_)) => xs.clone(),
        (Ty::Named(name), V::Tup(_)) => struct_def(name).unwrap().fields.iter().map(|(_, t)| t.clone()).collect(),
        (Ty::Named(name), V::Variant(tag, Some(_))) => vec![payload_ty(&enum_def(name).unwrap().variants[*tag].1)],
        _ => vec![],
    }
}
fn children(v: &V) -> Vec<&V> {
    match v {
        V::Some(x) | V::Ok(x) | V::Err(x) => vec![x],
        V::Arr(xs) | V::Tup(xs) => xs.iter().collect(),
        V::Variant(_, Some(x)) => vec![x],
        _ => vec![],
    }
}
fn child_mut(v: &mut V, i: usize) -> &mut V {
    match v {
        V::Some(x) | V::Ok(x) | V::Err(x) => x,
        V::Arr(xs) | V::Tup(xs) => &mut xs[i],
        V::Variant(_, Some(x)) => x,
        _ => panic!("no child"),
    }
}
/// every array-typed node below (t, v): (type, path)
fn collect_arrays(t: &Ty, v: &V, path: &mut Vec<usize>, out: &mut Vec<(Ty, Vec<usize>)>) {
    if matches!(t, Ty::Arr(_)) {
        out.push((t.clone(), path.clone()));
    }
    let ts = child_types(t, v);
    for (i, (ct, cv)) in ts.iter().zip(children(v)).enumerate() {
        path.push(i);
        collect_arrays(ct, cv, path, out);
        path.pop();
    }
}
fn node_mut<'a>(args: &'a mut [V], path: &[usize]) -> &'a mut V {
    let mut cur = &mut args[path[0]];
    for &i in &path[1..] {
        cur = child_mut(cur, i);
    }
    cur
}

/// Make two array-typed places of the arguments hold ONE array (bound once in the program, used twice) with at
/// least two elements that is not a palindrome.  Returns the hoisted (type, value) when there are two such places.
fn share_an_array(params: &[Ty], args: &mut [V], rng: &mut Rng) -> Option<(Ty, V)> {
    let mut nodes: Vec<(Ty, Vec<usize>)> = vec![];
    for (j, (t, v)) in params.iter().zip(args.iter()).enumerate() {
        let mut path = vec![j];
        collect_arrays(t, v, &mut path, &mut nodes);
    }
    let mut pairs: Vec<(usize, usize)> = vec![];
    for a in 0..nodes.len() {
        for b in a + 1..nodes.len() {
            let (pa, pb) = (&nodes[a].1, &nodes[b].1);
            let prefix = pa.len() <= pb.len() && pb[..pa.len()] == pa[..] || pb.len() <= pa.len() && pa[..pb.len()] == pb[..];
            if nodes[a].0 == nodes[b].0 && !prefix {
                pairs.push((a, b));
            }
        }
    }
    if pairs.is_empty() {
        return None;
    }
    let (a, b) = *rng.pick(&pairs);
    let ty = nodes[a].0.clone();
    RICH.with(|r| r.set(true));
    let val = gen_v(&ty, rng, 1, true, false);
    RICH.with(|r| r.set(false));
    *node_mut(args, &nodes[a].1) = val.clone();
    *node_mut(args, &nodes[b].1) = val.clone();
    Some((ty, val))
}

/// `lit`: the value must be writable as an Abra literal (finite floats with a short decimal form)
fn gen_v(t: &Ty, rng: &mut Rng, depth: u32, lit: bool, edge: bool) -> V {
    match t {
        Ty::Int => V::Int(match rng.below(6) {
            0 => 0,
            1 => rng.range(-9, 9),
            2 => rng.range(-100000, 100000),
            3 => (1i64 << 62) - rng.range(0, 3),
            4 => -(1i64 << 62) + rng.range(0, 3),
            _ => rng.next() as i64 >> rng.below(40),
        }),
        Ty::Float => {
            if lit || rng.chance(2, 3) {
                let k = rng.range(-4000, 4000);
                V::Float(k as f64 / 8.0)
            } else {
                V::Float(match rng.below(6) {
                    0 => f64::INFINITY,
                    1 => f64::NEG_INFINITY,
                    2 => f64::NAN,
                    3 => -0.0,
                    4 => f64::from_bits(rng.next()),
                    _ => 1e300,
                })
            }
        }
        Ty::Bool => V::Bool(rng.chance(1, 2)),
        Ty::Str => V::Str(if edge && rng.chance(1, 2) { String::new() } else { rng.pick(WORDS).to_string() }),
        Ty::Unit => V::Unit,
        Ty::Opt(x) => {
            if rng.chance(if edge { 1 } else { 2 }, if edge { 2 } else { 3 }) { V::Some(Box::new(gen_v(x, rng, depth + 1, lit, edge))) } else { V::None }
        }
        Ty::Res(x, e) => {
            if rng.chance(1, 2) { V::Ok(Box::new(gen_v(x, rng, depth + 1, lit, edge))) } else { V::Err(Box::new(gen_v(e, rng, depth + 1, lit, edge))) }
        }
        Ty::Arr(x) => {
            // "edge" cases: half of all arrays are empty, so that empty containers sit next to non-empty
            // siblings (several arguments, elements of arrays/tuples/structs) in every position
            let n = if edge && rng.chance(1, 2) {
                0
            } else {
                match rng.below(5) {
                    0 => 0,
                    1 => 1,
                    _ => 1 + rng.below(if depth == 0 { 6 } else { 3 }) as usize,
                }
            };
            if RICH.with(|r| r.get()) {
                // at least two elements, first and last different (as far as the element type allows)
                let n = 2 + rng.below(3) as usize;
                let mut xs: Vec<V> = (0..n).map(|_| gen_v(x, rng, depth + 1, lit, false)).collect();
                for _ in 0..12 {
                    if canon(&xs[0]) != canon(&xs[n - 1]) {
                        break;
                    }
                    xs[n - 1] = gen_v(x, rng, depth + 1, lit, false);
                }
                return V::Arr(xs);
            }
            V::Arr((0..n).map(|_| gen_v(x, rng, depth + 1, lit, edge)).collect())
        }
        Ty::Tup(xs) => V::Tup(xs.iter().map(|x| gen_v(x, rng, depth + 1, lit, edge)).collect()),
        Ty::Named(name) => {
            if let Some(d) = struct_def(name) {
                V::Tup(d.fields.iter().map(|(_, ft)| gen_v(ft, rng, depth + 1, lit, edge)).collect())
            } else {
                let d = enum_def(name).unwrap();
                let tag = rng.below(d.variants.len() as u64) as usize;
                let fs = &d.variants[tag].1;
                if fs.is_empty() { V::Variant(tag, None) } else { V::Variant(tag, Some(Box::new(gen_v(&payload_ty(fs), rng, depth + 1, lit, edge)))) }
            }
        }
    }
}

fn float_lit(f: f64) -> String {
    // k/8 with |k| <= 4000: `{:?}` always has a decimal point and no exponent
    format!("{:?}", f)
}

/// the value as an Abra expression of type `t`
fn lit(t: &Ty, v: &V) -> String {
    match (t, v) {
        (Ty::Int, V::Int(n)) => format!("{n}"),
        (Ty::Float, V::Float(f)) => float_lit(*f),
        (Ty::Bool, V::Bool(b)) => format!("{b}"),
        (Ty::Str, V::Str(s)) => format!("\"{s}\""),
        (Ty::Unit, V::Unit) => "nil".into(),
        (Ty::Opt(x), V::Some(y)) => format!("option.some({})", lit(x, y)),
        (Ty::Opt(_), V::None) => "option.none".into(),
        (Ty::Res(x, _), V::Ok(y)) => format!("result.ok({})", lit(x, y)),
        (Ty::Res(_, e), V::Err(y)) => format!("result.err({})", lit(e, y)),
        (Ty::Arr(x), V::Arr(ys)) => {
            let shared = HOIST.with(|h| h.borrow().as_ref().filter(|(ht, hc, _)| ht == t && *hc == canon(v)).map(|(_, _, n)| n.clone()));
            match shared {
                Some(name) => name,
                None => format!("[{}]", ys.iter().map(|y| lit(x, y)).collect::<Vec<_>>().join(", ")),
            }
        }
        (Ty::Tup(xs), V::Tup(ys)) => format!("({})", xs.iter().zip(ys).map(|(x, y)| lit(x, y)).collect::<Vec<_>>().join(", ")),
        (Ty::Named(name), V::Tup(ys)) => {
            let d = struct_def(name).unwrap();
            format!("{}({})", name, d.fields.iter().zip(ys).map(|((_, x), y)| lit(x, y)).collect::<Vec<_>>().join(", "))
        }
        (Ty::Named(name), V::Variant(tag, p)) => {
            let d = enum_def(name).unwrap();
            let (vn, fs) = &d.variants[*tag];
            match p {
                None => format!("{name}.{vn}"),
                Some(y) => {
                    if fs.len() == 1 {
                        format!("{name}.{vn}({})", lit(&fs[0], y))
                    } else {
                        let V::Tup(ys) = &**y else { panic!() };
                        format!("{name}.{vn}({})", fs.iter().zip(ys).map(|(x, y)| lit(x, y)).collect::<Vec<_>>().join(", "))
                    }
                }
            }
        }
        _ => panic!("value does not fit type"),
    }
}

/// what the Abra program is expected to print for a value of type `t` (the prelude's ToString rules
/// and the ToString impls of sigs.abra), computed from the host value
fn show(t: &Ty, v: &V) -> String {
    match (t, v) {
        (Ty::Int, V::Int(n)) => format!("{n}"),
        (Ty::Float, V::Float(f)) => f.to_string(),
        (Ty::Bool, V::Bool(b)) => format!("{b}"),
        (Ty::Str, V::Str(s)) => s.clone(),
        (Ty::Unit, V::Unit) => "nil".into(),
        (Ty::Opt(x), V::Some(y)) => format!("some({})", show(x, y)),
        (Ty::Opt(_), V::None) => "none".into(),
        (Ty::Res(x, _), V::Ok(y)) => format!("ok({})", show(x, y)),
        (Ty::Res(_, e), V::Err(y)) => format!("err({})", show(e, y)),
        (Ty::Arr(x), V::Arr(ys)) => format!("[ {} ]", ys.iter().map(|y| show(x, y)).collect::<Vec<_>>().join(", ")),
        // wider than the prelude can print: the program prints the components one per line
        (Ty::Tup(xs), V::Tup(ys)) if xs.len() > 4 => xs.iter().zip(ys).map(|(x, y)| show(x, y)).collect::<Vec<_>>().join("\n"),
        (Ty::Tup(xs), V::Tup(ys)) => format!("({})", xs.iter().zip(ys).map(|(x, y)| show(x, y)).collect::<Vec<_>>().join(", ")),
        (Ty::Named(name), V::Tup(ys)) => {
            let d = struct_def(name).unwrap();
            let parts: Vec<String> = d.fields.iter().zip(ys).filter(|((_, x), _)| *x != Ty::Unit).map(|((_, x), y)| show(x, y)).collect();
            format!("{}({})", name, parts.join(", "))
        }
        (Ty::Named(name), V::Variant(tag, p)) => {
            let d = enum_def(name).unwrap();
            let (vn, fs) = &d.variants[*tag];
            match p {
                None => format!("{name}.{vn}"),
                Some(y) => {
                    if fs.len() == 1 {
                        format!("{name}.{vn}({})", show(&fs[0], y))
                    } else {
                        let V::Tup(ys) = &**y else { panic!() };
                        format!("{name}.{vn}({})", fs.iter().zip(ys).map(|(x, y)| show(x, y)).collect::<Vec<_>>().join(", "))
                    }
                }
            }
        }
        _ => panic!("value does not fit type"),
    }
}

fn ty_tokens(t: &Ty) -> String {
    match t {
        Ty::Int => "int".into(),
        Ty::Float => "float".into(),
        Ty::Bool => "bool".into(),
        Ty::Str => "str".into(),
        Ty::Unit => "unit".into(),
        Ty::Opt(x) => format!("opt {}", ty_tokens(x)),
        Ty::Res(x, e) => format!("res {} {}", ty_tokens(x), ty_tokens(e)),
        Ty::Arr(x) => format!("arr {}", ty_tokens(x)),
        Ty::Tup(xs) => format!("tup {} {}", xs.len(), xs.iter().map(ty_tokens).collect::<Vec<_>>().join(" ")),
        Ty::Named(name) => {
            if let Some(d) = struct_def(name) {
                format!("struct {} {} {}", name, d.fields.len(), d.fields.iter().map(|(f, x)| format!("{f} {}", ty_tokens(x))).collect::<Vec<_>>().join(" "))
            } else {
                let d = enum_def(name).unwrap();
                let vs: Vec<String> = d
                    .variants
                    .iter()
                    .map(|(vn, fs)| if fs.is_empty() { format!("{vn} bare") } else { format!("{vn} pay {}", ty_tokens(&payload_ty(fs))) })
                    .collect();
                format!("enum {} {} {}", name, d.variants.len(), vs.join(" "))
            }
        }
    }
}

fn floats_of(v: &V, out: &mut Vec<f64>) {
    match v {
        V::Float(f) => out.push(*f),
        V::Some(x) | V::Ok(x) | V::Err(x) => floats_of(x, out),
        V::Arr(xs) | V::Tup(xs) => xs.iter().for_each(|x| floats_of(x, out)),
        V::Variant(_, Some(x)) => floats_of(x, out),
        _ => {}
    }
}

fn shape(v: &V, ctx: &mut Ctx) {
    match v {
        V::Int(_) => ctx.count("value:int"),
        V::Float(f) => ctx.count(if f.is_finite() { "value:float" } else { "value:float-nonfinite" }),
        V::Bool(_) => ctx.count("value:bool"),
        V::Str(s) => ctx.count(if s.is_ascii() { "value:string" } else { "value:string-multibyte" }),
        V::Unit => ctx.count("value:unit"),
        V::Some(x) => {
            ctx.count("value:some");
            shape(x, ctx)
        }
        V::None => ctx.count("value:none"),
        V::Ok(x) => {
            ctx.count("value:ok");
            shape(x, ctx)
        }
        V::Err(x) => {
            ctx.count("value:err");
            shape(x, ctx)
        }
        V::Arr(xs) => {
            ctx.count(if xs.is_empty() { "value:array-empty" } else { "value:array" });
            xs.iter().for_each(|x| shape(x, ctx))
        }
        V::Tup(xs) => {
            ctx.count("value:tuple-or-struct");
            xs.iter().for_each(|x| shape(x, ctx))
        }
        V::Variant(_, p) => {
            ctx.count(if p.is_some() { "value:variant-with-payload" } else { "value:variant-bare" });
            if let Some(x) = p {
                shape(x, ctx)
            }
        }
    }
}

/// does a composite hold an empty array/string/none/unit next to a non-empty sibling that is converted after it?
fn is_empty_leaf(v: &V) -> bool {
    matches!(v, V::None | V::Unit) || matches!(v, V::Arr(xs) if xs.is_empty()) || matches!(v, V::Str(s) if s.is_empty())
}
fn empty_beside_sibling(vs: &[V]) -> bool {
    vs.len() >= 2 && vs.iter().any(is_empty_leaf) && vs.iter().any(|v| !is_empty_leaf(v))
}
fn count_siblings(v: &V, ctx: &mut Ctx) {
    match v {
        V::Arr(xs) | V::Tup(xs) => {
            if empty_beside_sibling(xs) {
                ctx.count("empty-value-beside-nonempty-sibling:inside-composite");
            }
            if xs.iter().any(|x| matches!(x, V::Arr(e) if e.is_empty())) && xs.len() >= 2 {
                ctx.count("empty-array-inside-composite");
            }
            xs.iter().for_each(|x| count_siblings(x, ctx))
        }
        V::Some(x) | V::Ok(x) | V::Err(x) => count_siblings(x, ctx),
        V::Variant(_, Some(x)) => count_siblings(x, ctx),
        _ => {}
    }
}

/// The c36gen crate lives next to this crate's sources.  When the check runs against a scratch copy of the
/// repository (VERIF_REPO, used to try seeded changes), a copy of the crate whose path dependencies point at
/// that copy is written next to the alternate harness crate.
fn child_crate_dir() -> Result<std::path::PathBuf, String> {
    let manifest = std::path::Path::new(env!("CARGO_MANIFEST_DIR"));
    if let Ok(d) = std::env::var("VERIF_C36GEN_DIR") {
        return Ok(d.into());
    }
    let src = std::fs::canonicalize(manifest.join("src")).map_err(|e| e.to_string())?;
    let real = src.parent().ok_or("no parent")?.join("c36gen");
    let repo = std::env::var("VERIF_REPO").unwrap_or_else(|_| "/repo".into());
    let repo = repo.trim_end_matches('/').to_string();
    let dir = if repo == "/repo" {
        real
    } else {
        let alt = manifest.join("c36gen");
        std::fs::create_dir_all(alt.join("src")).map_err(|e| e.to_string())?;
        for f in ["Cargo.toml", "build.rs", "sigtable.rs", "src/main.rs"] {
            let text = std::fs::read_to_string(real.join(f)).map_err(|e| format!("{f}: {e}"))?.replace("/repo/", &format!("{repo}/"));
            let dst = alt.join(f);
            if std::fs::read_to_string(&dst).ok().as_deref() != Some(&text) {
                std::fs::write(&dst, text).map_err(|e| e.to_string())?;
            }
        }
        alt
    };
    let _ = std::fs::copy(format!("{repo}/Cargo.lock"), dir.join("Cargo.lock"));
    Ok(dir)
}

/// Do the generated bindings compile when embedded like /repo/e2e_tests/test_host_funcs does, for a host file
/// with `use m as p` (D104) and for two #host types of one name in two modules (D105)?  Hard checks: a failure is
/// reported with the host files as the concrete input; a probe that cannot run is a note.
fn probe_stage(ctx: &mut Ctx, gen_dir: &std::path::Path) {
    let Some(harness) = gen_dir.parent() else { return };
    let manifest = std::path::Path::new(env!("CARGO_MANIFEST_DIR"));
    let real = match std::fs::canonicalize(manifest.join("src")) {
        Ok(s) => s.parent().unwrap().join("c36probe"),
        Err(_) => return,
    };
    let repo = std::env::var("VERIF_REPO").unwrap_or_else(|_| "/repo".into());
    let repo = repo.trim_end_matches('/').to_string();
    let dir = if repo == "/repo" {
        real
    } else {
        let alt = harness.join("c36probe");
        let copy = |rel: &str| -> Option<()> {
            let text = std::fs::read_to_string(real.join(rel)).ok()?.replace("/repo/", &format!("{repo}/"));
            let dst = alt.join(rel);
            std::fs::create_dir_all(dst.parent()?).ok()?;
            std::fs::write(dst, text).ok()
        };
        for f in ["Cargo.toml", "build.rs", "src/main.rs", "abra_alias/a.abra", "abra_alias/host.abra", "abra_same/a.abra", "abra_same/b.abra", "abra_same/host.abra"] {
            if copy(f).is_none() {
                ctx.notes.push("probe stage: cannot copy the probe crate".into());
                return;
            }
        }
        alt
    };
    let _ = std::fs::copy(format!("{repo}/Cargo.lock"), dir.join("Cargo.lock"));
    for (feature, id, what) in [
        ("alias", "C36-alias-reexport-private-root", "host file with `use a as pa`: generated `pub use crate::a as pa;`"),
        ("same", "C36-same-name-host-types", "two #host types named Item in modules a and b: generated code names both `Item`"),
    ] {
        let o = std::process::Command::new("cargo")
            .args(["build", "--offline", "--quiet", "--features", feature])
            .current_dir(&dir)
            .env("CARGO_TARGET_DIR", gen_dir.join("target"))
            .env_remove("RUSTFLAGS")
            .output();
        match o {
            Err(e) => ctx.notes.push(format!("probe {feature} did not run: {e}")),
            Ok(o) if o.status.success() => {
                ctx.count(&format!("probe:{feature}:generated-bindings-compile"));
            }
            Ok(o) => {
                let err = String::from_utf8_lossy(&o.stderr).to_string();
                if err.contains("generate_host_function_enum failed") || err.contains("panicked") {
                    ctx.spec_fail(format!("probe {feature}: the generator itself fails ({what}): {}", err.lines().filter(|l| l.contains("panicked") || l.contains("failed")).take(2).collect::<Vec<_>>().join(" | ")));
                } else {
                    let errs: Vec<&str> = err.lines().filter(|l| l.starts_with("error[")).collect();
                    let mut uniq: Vec<&str> = vec![];
                    for e in errs {
                        if !uniq.contains(&e) {
                            uniq.push(e);
                        }
                    }
                    let first = if uniq.is_empty() { "error".to_string() } else { uniq.join(" | ") };
                    ctx.count(&format!("probe:{feature}:generated-bindings-do-not-compile"));
                    let mut files = vec![];
                    if let Ok(rd) = std::fs::read_dir(dir.join(format!("abra_{feature}"))) {
                        let mut names: Vec<_> = rd.flatten().map(|e| e.path()).collect();
                        names.sort();
                        for pth in names {
                            files.push(format!(
                                "{}: {}",
                                pth.file_name().unwrap().to_string_lossy(),
                                std::fs::read_to_string(&pth).unwrap_or_default().trim().replace('\n', " ; ")
                            ));
                        }
                    }
                    ctx.spec_fail(format!(
                        "[{id}] {what}: the bindings generate_host_function_enum(\"host.abra\") writes for these files do not compile when embedded as \
                         /repo/e2e_tests/test_host_funcs does (`mod generated; use generated::*;`): {first} -- files: {}",
                        files.join(" || ")
                    ));
                }
            }
        }
    }
}

struct Case {
    k: usize,
    /// the arguments of the first call
    args: Vec<V>,
    /// the arguments every call of the program must hand to the host, in call order
    calls: Vec<Vec<V>>,
    ret: V,
    program: String,
    /// lines the result takes in the output
    result_lines: usize,
    /// what the program prints after the call(s): every argument re-read on the Abra side (marshalling an
    /// argument must not change the caller's copy), and the value the host returned when it was passed back
    after: Vec<(String, String)>,
}

fn main() {
    let mut ctx = Ctx::from_env("C36");
    let per_sig = if ctx.quick() { 7 } else { 120 };
    let table = sigs();
    let mut cases: Vec<Case> = vec![];
    for (k, sig) in table.iter().enumerate() {
        for _ in 0..per_sig {
            let edge = ctx.rng.chance(2, 5);
            // shapes: 0 plain; 1 the same variable in two argument positions; 2 the same variables passed to two
            // successive calls; 3 the value the host returned is passed back to it.  In 1-3 arrays are "rich".
            let same_ty_pair: Option<(usize, usize)> = {
                let mut v = vec![];
                for i in 0..sig.params.len() {
                    for j in i + 1..sig.params.len() {
                        if sig.params[i] == sig.params[j] && sig.params[i] != Ty::Unit {
                            v.push((i, j));
                        }
                    }
                }
                if v.is_empty() { None } else { Some(*ctx.rng.pick(&v)) }
            };
            let echo1 = sig.params.len() == 1 && sig.params[0] == sig.ret && printable(&sig.ret) && sig.ret != Ty::Unit;
            let mut shape_kind = match ctx.rng.below(8) {
                0 | 1 => 1,
                2 | 3 => 2,
                4 => 3,
                _ => 0,
            };
            if same_ty_pair.is_some() && ctx.rng.chance(1, 2) {
                shape_kind = 1;
            }
            if shape_kind == 1 && same_ty_pair.is_none() {
                shape_kind = 2;
            }
            if shape_kind == 3 && !echo1 {
                shape_kind = 2;
            }
            if sig.params.iter().all(|t| *t == Ty::Unit) {
                shape_kind = 0;
            }
            let rich = shape_kind != 0 || ctx.rng.chance(1, 3);
            let edge = edge && !rich;
            RICH.with(|r| r.set(rich));
            let mut args: Vec<V> = sig.params.iter().map(|t| gen_v(t, &mut ctx.rng, 0, true, edge)).collect();
            RICH.with(|r| r.set(false));
            if shape_kind == 1 {
                let (i, j) = same_ty_pair.unwrap();
                args[j] = args[i].clone();
            }
            // one array bound once and used in two places of the arguments (inside an outer array, tuple, struct,
            // option, or as two arguments)
            let hoisted = if ctx.rng.chance(3, 4) { share_an_array(&sig.params, &mut args, &mut ctx.rng) } else { None };
            if shape_kind == 1 {
                // keep the two positions identical after sharing
                let (i, j) = same_ty_pair.unwrap();
                args[j] = args[i].clone();
            }
            let edge_ret = ctx.rng.chance(2, 5);
            RICH.with(|r| r.set(shape_kind == 3));
            let ret = gen_v(&sig.ret, &mut ctx.rng, 0, shape_kind == 3, edge_ret && shape_kind != 3);
            RICH.with(|r| r.set(false));
            let mut p = program_header();
            if let Some((ht, hv)) = &hoisted {
                p.push_str(&format!("let s0: {} = {}\n", abra_ty(ht), lit(ht, hv)));
                HOIST.with(|h| *h.borrow_mut() = Some((ht.clone(), canon(hv), "s0".to_string())));
                ctx.count("shared-array:one-object-in-two-places");
            }
            let mut names = vec![];
            let mut after: Vec<(String, String)> = vec![];
            for (j, (t, v)) in sig.params.iter().zip(&args).enumerate() {
                if *t == Ty::Unit {
                    names.push("nil".to_string());
                } else if shape_kind == 1 && same_ty_pair.unwrap().1 == j {
                    names.push(format!("a{}", same_ty_pair.unwrap().0));
                } else {
                    p.push_str(&format!("let a{j}: {} = {}\n", abra_ty(t), lit(t, v)));
                    names.push(format!("a{j}"));
                    if printable(t) {
                        after.push((format!("a{j}"), show(t, v)));
                    }
                }
            }
            HOIST.with(|h| *h.borrow_mut() = None);
            if let Some((ht, hv)) = &hoisted {
                if printable(ht) {
                    after.push(("s0".to_string(), show(ht, hv)));
                }
            }
            // three call forms: direct call, the host function stored in a variable (the compiler emits a
            // wrapper function object), and a call from inside an Abra function whose parameters are passed on
            let form = ctx.rng.below(3);
            let has_void_param = sig.params.iter().any(|t| *t == Ty::Unit);
            let callee = match form {
                1 => {
                    p.push_str(&format!("let g = f{k:02}\n"));
                    "g".to_string()
                }
                2 if !has_void_param => {
                    let ps: Vec<String> = sig.params.iter().enumerate().map(|(j, t)| format!("p{j}: {}", abra_ty(t))).collect();
                    let qs: Vec<String> = (0..sig.params.len()).map(|j| format!("p{j}")).collect();
                    p.push_str(&format!("fn via({}) -> {} {{\n    f{k:02}({})\n}}\n", ps.join(", "), abra_ty(&sig.ret), qs.join(", ")));
                    "via".to_string()
                }
                _ => format!("f{k:02}"),
            };
            ctx.count(match (form, callee.as_str()) {
                (1, _) => "call-form:through-variable",
                (2, "via") => "call-form:inside-function",
                _ => "call-form:direct",
            });
            ctx.count(match shape_kind {
                1 => "call-shape:same-variable-in-two-positions",
                2 => "call-shape:same-variables-in-two-successive-calls",
                3 => "call-shape:returned-value-passed-back",
                _ => "call-shape:single-call",
            });
            let mut calls = vec![args.clone()];
            let mut result_lines = 1;
            // an earlier call whose result is not the one printed
            if shape_kind == 2 {
                if sig.ret == Ty::Unit {
                    p.push_str(&format!("{callee}({})\n", names.join(", ")));
                } else {
                    p.push_str(&format!("let first = {callee}({})\n", names.join(", ")));
                }
                calls.push(args.clone());
            }
            let mut last_names = names.clone();
            if shape_kind == 3 {
                p.push_str(&format!("let back = {callee}({})\n", names.join(", ")));
                last_names = vec!["back".to_string()];
                calls.push(vec![ret.clone()]);
            }
            if sig.ret == Ty::Unit {
                p.push_str(&format!("{callee}({})\nprintln(nil)\n", last_names.join(", ")));
            } else if matches!(&sig.ret, Ty::Tup(xs) if xs.len() > 4) {
                let Ty::Tup(xs) = &sig.ret else { unreachable!() };
                let rs: Vec<String> = (0..xs.len()).map(|j| format!("r{j}")).collect();
                p.push_str(&format!("let ({}) = {callee}({})\n", rs.join(", "), last_names.join(", ")));
                for r in &rs {
                    p.push_str(&format!("println({r})\n"));
                }
                result_lines = xs.len();
                ctx.count("wide-tuple-result");
            } else {
                p.push_str(&format!("let r = {callee}({})\nprintln(r)\n", last_names.join(", ")));
            }
            if shape_kind == 3 {
                after.push(("back".to_string(), show(&sig.ret, &ret)));
            }
            if shape_kind == 2 && sig.ret != Ty::Unit && printable(&sig.ret) {
                after.push(("first".to_string(), show(&sig.ret, &ret)));
            }
            // re-read on the Abra side after the call(s)
            for (name, _) in &after {
                p.push_str(&format!("println({name})\n"));
            }
            cases.push(Case { k, args, calls, ret, program: p, result_lines, after });
        }
    }

    // build and run the child (real generator in its build script)
    let dir = match child_crate_dir() {
        Ok(d) => d,
        Err(e) => {
            ctx.spec_fail(format!("cannot prepare the c36gen crate: {e}"));
            ctx.finish();
            return;
        }
    };
    let b = std::process::Command::new("cargo")
        .args(["build", "--offline", "--quiet"])
        .current_dir(&dir)
        .env_remove("RUSTFLAGS")
        .output();
    let b = match b {
        Ok(b) => b,
        Err(e) => {
            ctx.spec_fail(format!("cannot run cargo for the c36gen crate: {e}"));
            ctx.finish();
            return;
        }
    };
    if !b.status.success() {
        let err = String::from_utf8_lossy(&b.stderr);
        let first: Vec<&str> = err.lines().filter(|l| l.starts_with("error")).take(5).collect();
        ctx.spec_fail(format!(
            "the bindings generated by generate_host_function_enum for the fixed signature file do not build: {}",
            if first.is_empty() { err.lines().rev().take(5).collect::<Vec<_>>().join(" | ") } else { first.join(" | ") }
        ));
        ctx.finish();
        return;
    }
    probe_stage(&mut ctx, &dir);
    let exe = dir.join("target/debug/c36gen");
    let case_line = |i: usize| format!("{i}\t{}\t{}\t{}\n", cases[i].k, v_text(&cases[i].ret), hex(cases[i].program.as_bytes()));
    let mut answers: Vec<Option<String>> = vec![None; cases.len()];
    let run_child = |idxs: &[usize], threads: usize, answers: &mut Vec<Option<String>>| -> String {
        let input: String = idxs.iter().map(|&i| case_line(i)).collect();
        let child = std::process::Command::new(&exe)
            .env("VERIF_THREADS", threads.to_string())
            .stdin(std::process::Stdio::piped())
            .stdout(std::process::Stdio::piped())
            .stderr(std::process::Stdio::null())
            .spawn();
        let mut child = match child {
            Ok(c) => c,
            Err(e) => return format!("cannot start: {e}"),
        };
        let mut stdin = child.stdin.take().unwrap();
        let w = std::thread::spawn(move || {
            let _ = stdin.write_all(input.as_bytes());
        });
        let out = child.wait_with_output();
        let _ = w.join();
        match out {
            Ok(out) => {
                for l in String::from_utf8_lossy(&out.stdout).lines() {
                    let mut p = l.splitn(3, '\t');
                    if p.next() == Some("R") {
                        if let (Some(i), Some(rest)) = (p.next().and_then(|x| x.parse::<usize>().ok()), p.next()) {
                            if i < answers.len() {
                                answers[i] = Some(rest.to_string());
                            }
                        }
                    }
                }
                format!("{}", out.status)
            }
            Err(e) => format!("wait failed: {e}"),
        }
    };
    let all: Vec<usize> = (0..cases.len()).collect();
    let _ = run_child(&all, vh::n_threads().min(12), &mut answers);
    // cases without an answer: the child process died (abort, stack overflow, …).  Re-run them one thread,
    // in order; the first case still unanswered is the one that kills the process.
    let mut deaths = 0;
    loop {
        let missing: Vec<usize> = (0..cases.len()).filter(|&i| answers[i].is_none()).collect();
        if missing.is_empty() || deaths >= 25 {
            break;
        }
        let status = run_child(&missing, 1, &mut answers);
        if let Some(&killer) = missing.iter().find(|&&i| answers[i].is_none()) {
            deaths += 1;
            answers[killer] = Some(format!("-\t-\t-\tcrash:{}", hex(format!("the process serving this call died ({status})").as_bytes())));
        }
    }
    if deaths > 0 {
        ctx.notes.push(format!("{deaths} cases killed the serving process"));
    }
    let lines: Vec<String> = answers.iter().map(|a| a.clone().unwrap_or_else(|| format!("-\t-\t-\tcrash:{}", hex(b"not run")))).collect();
    for (c, l) in cases.iter().zip(&lines) {
        let sig = &table[c.k];
        let f: Vec<&str> = l.split('\t').collect();
        let (seen_k, seen_args, printed_hex, status) = (f[0], f[1], f[2], f[3]);
        let printed = String::from_utf8_lossy(&unhex(printed_hex)).to_string();
        // the output: the result first, then the re-read arguments
        let plines: Vec<&str> = printed.split_inclusive('\n').collect();
        let cut = c.result_lines.min(plines.len());
        let printed_result: String = plines[..cut].concat();
        let printed_after: Vec<String> = plines[cut..].iter().map(|l| l.trim_end_matches('\n').to_string()).collect();
        let seen_calls: Vec<&str> = seen_args.split(" ;; ").collect();
        // requests for the model: one per host call of the program
        let mut fl = vec![];
        floats_of(&c.ret, &mut fl);
        let mut tbl: Vec<(u64, String)> = vec![];
        for x in fl {
            if !tbl.iter().any(|(b, _)| *b == x.to_bits()) {
                tbl.push((x.to_bits(), x.to_string()));
            }
        }
        for (ci, call_args) in c.calls.iter().enumerate() {
            let req = format!(
                "marshal P {} {} R {} A {} V {} T {} {} #f{:02}-call{}of{}",
                sig.params.len(),
                sig.params.iter().map(ty_tokens).collect::<Vec<_>>().join(" "),
                ty_tokens(&sig.ret),
                call_args.iter().map(v_text).collect::<Vec<_>>().join(" "),
                v_text(&c.ret),
                tbl.len(),
                tbl.iter().map(|(b, t)| format!("{b} {}", hex(t.as_bytes()))).collect::<Vec<_>>().join(" "),
                c.k,
                ci + 1,
                c.calls.len()
            );
            let req = req.split_whitespace().collect::<Vec<_>>().join(" ");
            let seen = seen_calls.get(ci).copied().unwrap_or("-");
            let imp = if status == "done" && seen_calls.len() == c.calls.len() {
                format!("args={} | out={} | pending=cleared", seen, printed_result.trim_end_matches('\n'))
            } else {
                format!("status={status} calls={} args={seen} out={}", seen_calls.len(), printed_result.trim_end_matches('\n'))
            };
            ctx.case(req, imp.replace('\n', "\\n"));
        }
        // the property's own statement
        let canon_args = |vs: &Vec<V>| if vs.is_empty() { "()".to_string() } else { vs.iter().map(canon).collect::<Vec<_>>().join(" ") };
        let want_args = c.calls.iter().map(canon_args).collect::<Vec<_>>().join(" ;; ");
        let call = format!("f{:02}({}) -> {}", c.k, sig.params.iter().map(abra_ty).collect::<Vec<_>>().join(", "), abra_ty(&sig.ret));
        if status != "done" {
            let detail = status.split_once(':').map(|(a, b)| format!("{a}: {}", String::from_utf8_lossy(&unhex(b)))).unwrap_or(status.to_string());
            ctx.spec_fail(format!(
                "{call} called with [{want_args}], host answering {}: the call did not complete ({detail}); the host had read [{seen_args}]; program: {}",
                canon(&c.ret),
                c.program.replace('\n', " ; ")
            ));
            ctx.count("outcome:not-done");
            continue;
        }
        if seen_k != c.k.to_string() || seen_args != want_args {
            ctx.spec_fail(format!(
                "{call}: Abra passed [{want_args}] but the generated HostFunctionArgs::from_vm gave the host [{seen_args}] (function index {seen_k}; calls separated by ;;); program: {}",
                c.program.replace('\n', " ; ")
            ));
        }
        let want_out = if sig.ret == Ty::Unit { "nil\n".to_string() } else { format!("{}\n", show(&sig.ret, &c.ret)) };
        if printed_result != want_out {
            ctx.spec_fail(format!(
                "{call}: the host returned {} which prints as {:?}, but the Abra program printed {:?}",
                canon(&c.ret),
                want_out,
                printed_result
            ));
        }
        // marshalling must not change the caller's copy of an argument (nor the returned value when it is passed back)
        let want_after: Vec<String> = c.after.iter().flat_map(|(_, t)| t.split('\n').map(|x| x.to_string()).collect::<Vec<_>>()).collect();
        if printed_after != want_after {
            let mut which = String::new();
            let mut pos = 0;
            for (name, t) in &c.after {
                let n = t.split('\n').count();
                let got = printed_after.get(pos..pos + n).map(|x| x.join("\n"));
                if got.as_deref() != Some(t.as_str()) {
                    which = format!("`{name}` was {:?} before the call and reads {:?} after it", t, got.unwrap_or_default());
                    break;
                }
                pos += n;
            }
            ctx.spec_fail(format!(
                "{call}: passing a value to the host changed the caller's copy: {which}; host saw [{seen_args}]; program: {}",
                c.program.replace('\n', " ; ")
            ));
        }
        ctx.count("re-read-after-call:values-compared");
        ctx.count(&format!("arity:{}", sig.params.len()));
        ctx.count("outcome:done");
        if sig.params.iter().any(|t| *t == Ty::Unit) {
            ctx.count("void-parameter");
        }
        if sig.ret == Ty::Unit {
            ctx.count("void-result");
        }
        if matches!(sig.ret, Ty::Tup(_)) {
            ctx.count("tuple-result");
        }
        if empty_beside_sibling(&c.args) {
            ctx.count("empty-value-beside-nonempty-sibling:among-arguments");
        }
        if c.args.len() >= 2 && c.args.iter().any(|v| matches!(v, V::Arr(e) if e.is_empty())) {
            ctx.count("empty-array-among-several-arguments");
        }
        for a in &c.args {
            shape(a, &mut ctx);
            count_siblings(a, &mut ctx);
        }
        count_siblings(&c.ret, &mut ctx);
        shape(&c.ret, &mut ctx);
    }
    ctx.finish();
}
