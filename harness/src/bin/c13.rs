//! C13 correspondence: for every (scrutinee type, arm list) of the bounded universe the set of arms the
//! checker reports redundant is compared with the `useful` flags of the Lean model M9, and checked
//! directly against brute-force reachability over every value of the domain (an arm is reachable iff
//! some value matches it and no earlier arm).
#[path = "../patuniv.rs"]
mod patuniv;
use patuniv::*;
use vh::*;

fn main() {
    let mut ctx = Ctx::from_env("C13");
    let u = universe();
    let quick = ctx.quick();
    // a different stream than C12's (same generator, different seed derivation)
    ctx.rng.next();
    let mut cases = gen_cases(&u, &mut ctx.rng, quick);
    // literal spellings: every pair of float spellings, equal and different values
    let all_floats: Vec<String> = FLOATS.iter().map(|s| s.to_string()).chain(floats_extra().iter().cloned()).collect();
    for a in &all_floats {
        for b in &all_floats {
            cases.push(MatchCase {
                ty: Ty::Float,
                arms: vec![Pat::Float(a.clone()), Pat::Float(b.clone()), Pat::Wild],
                origin: "spellings",
            });
            // inside a tuple with an or-pattern: only pairs of close or equal values
            let (x, y) = (f64::from_bits(fbits(a)), f64::from_bits(fbits(b)));
            if x == y || (x - y).abs() < 1e-9 || (x.is_infinite() || y.is_infinite()) {
                cases.push(MatchCase {
                    ty: Ty::Tuple(vec![Ty::Float, Ty::Bool]),
                    arms: vec![
                        Pat::Tuple(vec![Pat::Float(a.clone()), Pat::Bool(true)]),
                        Pat::Tuple(vec![Pat::Or(Box::new(Pat::Float(b.clone())), Box::new(Pat::Float(a.clone()))), Pat::Wild]),
                        Pat::Tuple(vec![Pat::Float(b.clone()), Pat::Bool(false)]),
                        Pat::Wild,
                    ],
                    origin: "spellings",
                });
            }
        }
    }
    placement_selftest(&u, &mut ctx);
    // placement dimension (D70): case i sits at placement (i + 5) mod 17; every third case is also
    // checked at the let-initialiser placement and both verdicts must agree
    let idx: Vec<usize> = (0..cases.len()).collect();
    let verdicts = par_map(&idx, |&i| {
        let c = &cases[i];
        let pl = placement_for(&c.arms, (i + 5) % PLACEMENTS.len());
        let prog = match_program_at(&u, &c.ty, &some_value(&u, &c.ty), &c.arms, pl);
        let v = checker_verdict(&prog);
        let base = if i % 3 == 0 && pl != 0 {
            Some(checker_verdict(&match_program_at(&u, &c.ty, &some_value(&u, &c.ty), &c.arms, 0)))
        } else {
            None
        };
        (v, base)
    });
    for (i, (c, (v, base))) in cases.iter().zip(verdicts).enumerate() {
        let pl = placement_for(&c.arms, (i + 5) % PLACEMENTS.len());
        ctx.count(&format!("placement:{}", PLACEMENTS[pl]));
        if let Some(b) = &base {
            ctx.count("placement-pairs-compared");
            if verdict_key(b) != verdict_key(&v) {
                ctx.spec_fail(format!(
                    "verdict depends on where the match stands: match on {} with arms [{}] as {}: {} / as let-init: {}",
                    u.ty_src(&c.ty), c.arms.iter().map(|p| u.pat_src(p)).collect::<Vec<_>>().join(" ; "),
                    PLACEMENTS[pl], verdict_key(&v), verdict_key(b)
                ));
            }
        }
        let req = format!("{} #pl={}", request(&u, "u", &c.ty, &c.arms), PLACEMENTS[pl]);
        let arms_txt = c.arms.iter().map(|p| u.pat_src(p)).collect::<Vec<_>>().join(" ; ");
        ctx.count(&format!("origin:{}", c.origin));
        ctx.count(&format!("type:{}", head_kind(&c.ty)));
        if c.arms.iter().any(has_or) {
            ctx.count("with-or-pattern");
        }
        if let Some(p) = &v.crash {
            ctx.count("verdict:crash");
            ctx.spec_fail(format!("checker panicked ({p}) on a match on {} with arms [{arms_txt}]", u.ty_src(&c.ty)));
            ctx.case(req, format!("crash {}", p.replace('\n', " ")));
            continue;
        }
        if !v.other.is_empty() {
            ctx.count("verdict:other-diagnostic");
            ctx.case(req, format!("other {}", v.other.join(" / ").replace('\n', " ")));
            continue;
        }
        // ---- the property itself: reachability by brute force
        let values = u.values(&c.ty, 5);
        let mut reached = vec![false; c.arms.len()];
        for x in &values {
            if let Some(k) = first_match(&c.arms, x) {
                reached[k] = true;
            }
        }
        for k in 0..c.arms.len() {
            let reported = v.redundant.contains(&k);
            if reported && reached[k] {
                let x = values.iter().find(|x| first_match(&c.arms, x) == Some(k)).unwrap();
                ctx.spec_fail(format!(
                    "match on {} with arms [{arms_txt}]: arm {k} is reported REDUNDANT but the value {} reaches it first",
                    u.ty_src(&c.ty), u.val_src(x, &c.ty)
                ));
            }
            if !reported && !reached[k] {
                ctx.spec_fail(format!(
                    "match on {} with arms [{arms_txt}]: arm {k} is NOT reported redundant but no value reaches it",
                    u.ty_src(&c.ty)
                ));
            }
        }
        ctx.count(&format!("redundant-arms:{}", v.redundant.len().min(3)));
        let flags: String = (0..c.arms.len()).map(|k| if v.redundant.contains(&k) { '0' } else { '1' }).collect();
        ctx.case(req, format!("u={flags}"));
    }
    ctx.finish();
}
