//! bG8 scratch runner: `bg8run main.abra [name.abra=path ...]` compiles and runs one program with the real crates.
use vh::*;
fn main() {
    let args: Vec<String> = std::env::args().skip(1).collect();
    let src = std::fs::read_to_string(&args[0]).unwrap();
    let mut files = vec![];
    for a in &args[1..] {
        let (n, p) = a.split_once('=').unwrap();
        files.push((n.to_string(), std::fs::read_to_string(p).unwrap()));
    }
    std::panic::set_hook(Box::new(|_| {}));
    let r = std::thread::Builder::new()
        .stack_size(256 << 20)
        .spawn(move || run_program_opts(&src, &RunOpts { files, ..Default::default() }))
        .unwrap()
        .join()
        .unwrap();
    match &r.outcome {
        Outcome::Rejected(t) => {
            println!("REJECTED");
            for l in t.lines().filter(|l| l.starts_with("error")) {
                println!("  {l}");
            }
        }
        o => println!("OUTCOME: {:?}", o),
    }
    println!("OUT: {}", r.out.replace('\n', "\\n"));
}
