//! C24 correspondence: `== != < <= > >=` and `Hash.hash` of the built-in comparable types, executed by the
//! real compiler + VM (prelude implementations for bool/void/tuples/arrays, inlined VM instructions for
//! int/float/string), on
//!  * EXHAUSTIVE domains: every pair of values of bool, void and tuples/arrays thereof up to size 3
//!    (4-tuples of bool, nested tuples, arrays of tuples, arrays of arrays), and
//!  * boundary ints / floats (as bit patterns, ±0, ±inf, NaN) / strings, alone and inside tuples/arrays.
//! One program per pair prints every comparison and both hashes.  The answers are compared with the Lean
//! hand model `Abra.PreludeCmp` and — independently (`spec_fail`) — with a Rust oracle (lexicographic
//! order) and with the laws themselves evaluated on the implementation's answers: `==` reflexive,
//! symmetric, transitive; `!=` its negation; exactly one of `<`, `==`, `>`; `x <= y` iff not `y < x`;
//! `x >= y` iff `y <= x`; `x > y` iff `y < x`; `<` transitive; equal values hash equally.
use std::cmp::Ordering;
use std::collections::HashMap;
use vh::*;

const SIGN: u64 = 1 << 63;

#[derive(Clone, PartialEq, Debug)]
enum Ty {
    B,
    V,
    I,
    F,
    S,
    T(Vec<Ty>),
    A(Box<Ty>),
}

#[derive(Clone, PartialEq, Debug)]
enum Val {
    B(bool),
    U,
    I(i64),
    F(u64),
    S(String),
    T(Vec<Val>),
    A(Vec<Val>),
}

impl Ty {
    fn code(&self) -> String {
        match self {
            Ty::B => "B".into(),
            Ty::V => "V".into(),
            Ty::I => "I".into(),
            Ty::F => "F".into(),
            Ty::S => "S".into(),
            Ty::T(ts) => format!("{}{}", ts.len(), ts.iter().map(|t| t.code()).collect::<String>()),
            Ty::A(t) => format!("A{}", t.code()),
        }
    }
    fn abra(&self) -> String {
        match self {
            Ty::B => "bool".into(),
            Ty::V => "void".into(),
            Ty::I => "int".into(),
            Ty::F => "float".into(),
            Ty::S => "string".into(),
            Ty::T(ts) => format!("({})", ts.iter().map(|t| t.abra()).collect::<Vec<_>>().join(", ")),
            Ty::A(t) => format!("array<{}>", t.abra()),
        }
    }
    fn has(&self, f: &dyn Fn(&Ty) -> bool) -> bool {
        f(self)
            || match self {
                Ty::T(ts) => ts.iter().any(|t| t.has(f)),
                Ty::A(t) => t.has(f),
                _ => false,
            }
    }
    fn has_ord(&self) -> bool {
        !self.has(&|t| matches!(t, Ty::A(_)))
    }
    fn has_hash(&self) -> bool {
        !self.has(&|t| matches!(t, Ty::F))
    }
}

fn float_lit(b: u64, sp: (u64, u64, u64)) -> String {
    let f = f64::from_bits(b);
    if f.is_finite() {
        let mut s = format!("{}", f);
        if !s.contains('.') {
            s.push_str(".0");
        }
        if s.starts_with('-') { format!("({s})") } else { s }
    } else if b == sp.0 {
        "inf".into()
    } else if b == sp.1 {
        "ninf".into()
    } else {
        assert_eq!(b, sp.2);
        "nan".into()
    }
}

fn str_lit(s: &str) -> String {
    let mut o = String::from("\"");
    for c in s.chars() {
        match c {
            '\\' => o.push_str("\\\\"),
            '"' => o.push_str("\\\""),
            '\n' => o.push_str("\\n"),
            '\t' => o.push_str("\\t"),
            c => o.push(c),
        }
    }
    o.push('"');
    o
}

impl Val {
    fn code(&self) -> String {
        match self {
            Val::B(b) => if *b { "1".into() } else { "0".into() },
            Val::U => "u".into(),
            Val::I(n) => n.to_string(),
            Val::F(b) => format!("{:016x}", b),
            Val::S(s) => hex(s.as_bytes()),
            Val::T(vs) => format!("({})", vs.iter().map(|v| v.code()).collect::<Vec<_>>().join(",")),
            Val::A(vs) => format!("[{}]", vs.iter().map(|v| v.code()).collect::<Vec<_>>().join(",")),
        }
    }
    fn abra(&self, sp: (u64, u64, u64)) -> String {
        match self {
            Val::B(b) => b.to_string(),
            Val::U => "nil".into(),
            Val::I(n) => n.to_string(),
            Val::F(b) => float_lit(*b, sp),
            Val::S(s) => str_lit(s),
            Val::T(vs) => format!("({})", vs.iter().map(|v| v.abra(sp)).collect::<Vec<_>>().join(", ")),
            Val::A(vs) => format!("[{}]", vs.iter().map(|v| v.abra(sp)).collect::<Vec<_>>().join(", ")),
        }
    }
}

// ---------------------------------------------------------------- oracle (independent of the prelude's code)
fn total_cmp_bits(a: u64, b: u64) -> Ordering {
    let (sa, sb) = (a >> 63, b >> 63);
    if sa != sb {
        if sa == 1 { Ordering::Less } else { Ordering::Greater }
    } else if sa == 0 {
        (a & !SIGN).cmp(&(b & !SIGN))
    } else {
        (b & !SIGN).cmp(&(a & !SIGN))
    }
}

/// lexicographic order; `None` where the type has no order (arrays) and the values differ
fn oracle_cmp(a: &Val, b: &Val) -> Ordering {
    match (a, b) {
        (Val::B(x), Val::B(y)) => x.cmp(y),
        (Val::U, Val::U) => Ordering::Equal,
        (Val::I(x), Val::I(y)) => x.cmp(y),
        (Val::F(x), Val::F(y)) => total_cmp_bits(*x, *y),
        (Val::S(x), Val::S(y)) => x.as_bytes().cmp(y.as_bytes()),
        (Val::T(xs), Val::T(ys)) => {
            for (x, y) in xs.iter().zip(ys) {
                let c = oracle_cmp(x, y);
                if c != Ordering::Equal {
                    return c;
                }
            }
            Ordering::Equal
        }
        _ => unreachable!(),
    }
}

fn oracle_eq(a: &Val, b: &Val) -> bool {
    match (a, b) {
        (Val::T(xs), Val::T(ys)) => xs.iter().zip(ys).all(|(x, y)| oracle_eq(x, y)),
        (Val::A(xs), Val::A(ys)) => xs.len() == ys.len() && xs.iter().zip(ys).all(|(x, y)| oracle_eq(x, y)),
        (Val::F(x), Val::F(y)) => x == y,
        _ => a == b,
    }
}

// ---------------------------------------------------------------- domains
fn all_values(t: &Ty, max_len: usize) -> Vec<Val> {
    match t {
        Ty::B => vec![Val::B(false), Val::B(true)],
        Ty::V => vec![Val::U],
        Ty::T(ts) => {
            let mut acc: Vec<Vec<Val>> = vec![vec![]];
            for t in ts {
                let vs = all_values(t, max_len);
                acc = acc.into_iter().flat_map(|p| vs.iter().map(move |v| { let mut q = p.clone(); q.push(v.clone()); q })).collect();
            }
            acc.into_iter().map(Val::T).collect()
        }
        Ty::A(t) => {
            let vs = all_values(t, max_len);
            let mut out = vec![Val::A(vec![])];
            let mut layer: Vec<Vec<Val>> = vec![vec![]];
            for _ in 0..max_len {
                layer = layer.into_iter().flat_map(|p| vs.iter().map(move |v| { let mut q = p.clone(); q.push(v.clone()); q })).collect();
                out.extend(layer.iter().cloned().map(Val::A));
            }
            out
        }
        _ => unreachable!(),
    }
}

fn scalars(t: &Ty, sp: (u64, u64, u64)) -> Vec<Val> {
    match t {
        Ty::B => vec![Val::B(false), Val::B(true)],
        Ty::V => vec![Val::U],
        Ty::I => [0i64, 1, -1, 2, -2, 31, i64::MAX, i64::MAX - 1, i64::MIN, i64::MIN + 1, 1 << 32, -(1 << 32), (1 << 53) + 1]
            .iter().map(|n| Val::I(*n)).collect(),
        Ty::F => [0u64, SIGN, 1, SIGN | 1, 0x3FF0_0000_0000_0000, 0xBFF0_0000_0000_0000, 0x3FF0_0000_0000_0001,
            0x7FEF_FFFF_FFFF_FFFF, 0xFFEF_FFFF_FFFF_FFFF, 0x4340_0000_0000_0000, 0x3FE0_0000_0000_0000, sp.0, sp.1, sp.2]
            .iter().map(|b| Val::F(*b)).collect(),
        Ty::S => ["", "a", "b", "ab", "aa", "a\0", "\u{e9}", "\u{e8}", "z", "\u{7f}", "\u{80}", "\u{1f600}", "ab\"c\\", "A"]
            .iter().map(|s| Val::S(s.to_string())).collect(),
        _ => unreachable!(),
    }
}

fn rand_val(t: &Ty, rng: &mut Rng, sp: (u64, u64, u64)) -> Val {
    match t {
        Ty::T(ts) => Val::T(ts.iter().map(|t| rand_val(t, rng, sp)).collect()),
        Ty::A(t) => {
            let n = rng.below(4);
            Val::A((0..n).map(|_| rand_val(t, rng, sp)).collect())
        }
        t => {
            let vs = scalars(t, sp);
            // few distinct values per component, so that deeper components decide
            vs[rng.below(vs.len().min(5) as u64) as usize + if rng.chance(1, 4) { vs.len() - vs.len().min(5) } else { 0 }].clone()
        }
    }
}

/// change one leaf (or one array length) of `v`
fn mutate(t: &Ty, v: &Val, rng: &mut Rng, sp: (u64, u64, u64)) -> Val {
    match (t, v) {
        (Ty::T(ts), Val::T(vs)) => {
            let k = rng.below(vs.len() as u64) as usize;
            let mut o = vs.clone();
            o[k] = mutate(&ts[k], &vs[k], rng, sp);
            Val::T(o)
        }
        (Ty::A(et), Val::A(vs)) => {
            let mut o = vs.clone();
            match rng.below(3) {
                0 if !o.is_empty() => { o.pop(); }
                1 if !o.is_empty() => { let k = rng.below(o.len() as u64) as usize; o[k] = mutate(et, &vs[k], rng, sp); }
                _ => o.push(rand_val(et, rng, sp)),
            }
            Val::A(o)
        }
        (t, _) => rand_val(t, rng, sp),
    }
}

fn tb() -> Ty { Ty::B }
fn tup(ts: Vec<Ty>) -> Ty { Ty::T(ts) }
fn arr(t: Ty) -> Ty { Ty::A(Box::new(t)) }

struct Job {
    ty: Ty,
    a: Val,
    b: Val,
    src: String,
    exhaustive: bool,
    shape: &'static str,
}

fn host_specials() -> (u64, u64, u64) {
    use std::hint::black_box;
    let huge: f64 = black_box(1e308);
    let inf = black_box(huge * black_box(10.0));
    let ninf = black_box(inf * black_box(-1.0));
    let nan = black_box(inf - inf);
    (inf.to_bits(), ninf.to_bits(), nan.to_bits())
}

/// the operand shapes the compiler distinguishes for scalar comparisons: variable/variable (`vv`, the
/// default), variable/literal (`vl`: the optimizer turns the literal into the immediate of an `*Imm`
/// instruction), literal/variable (`lv`), literal/literal (`ll`), and a literal match pattern (`match`)
fn shaped_program(t: &Ty, a: &Val, b: &Val, sp: (u64, u64, u64), shape: &str) -> String {
    let (la, lb) = (a.abra(sp), b.abra(sp));
    if shape == "match" {
        return format!("let x: {} = {la}\nmatch x {{\n  {lb} -> println(true)\n  _ -> println(false)\n}}\n", t.abra());
    }
    if shape == "iface" {
        // qualified interface-method calls: the only route to the prelude's `implement Equal/Ord for int/float/string`
        // bodies (operators on built-ins are inlined, also in generic code)
        let mut s = format!("let x: {} = {la}\nlet y: {} = {lb}\n", t.abra(), t.abra());
        s.push_str("println(Equal.equal(x, y))\nprintln(not Equal.equal(x, y))\n");
        if t.has_ord() {
            s.push_str("println(Ord.less_than(x, y))\nprintln(Ord.less_than_or_equal(x, y))\nprintln(Ord.greater_than(x, y))\nprintln(Ord.greater_than_or_equal(x, y))\n");
        }
        if t.has_hash() {
            s.push_str("println(Hash.hash(x))\nprintln(Hash.hash(y))\n");
        }
        return s;
    }
    let mut s = String::new();
    let (x, y) = match shape {
        "vl" => { s.push_str(&format!("let x: {} = {la}\n", t.abra())); ("x".to_string(), lb) }
        "lv" => { s.push_str(&format!("let y: {} = {lb}\n", t.abra())); (la, "y".to_string()) }
        _ => (la, lb),
    };
    s.push_str(&format!("println({x} == {y})\nprintln({x} != {y})\nprintln({x} < {y})\nprintln({x} <= {y})\nprintln({x} > {y})\nprintln({x} >= {y})\n"));
    if t.has_hash() {
        s.push_str(&format!("println(Hash.hash({x}))\nprintln(Hash.hash({y}))\n"));
    }
    s
}

fn literal_ok(v: &Val) -> bool {
    match v { Val::F(b) => f64::from_bits(*b).is_finite(), _ => true }
}
fn pattern_ok(v: &Val) -> bool {
    match v { Val::F(b) => f64::from_bits(*b).is_finite() && b >> 63 == 0, Val::I(n) => *n >= 0, Val::U => false, _ => true }
}

fn program(t: &Ty, a: &Val, b: &Val, sp: (u64, u64, u64)) -> String {
    let mut s = String::new();
    if t.has(&|t| matches!(t, Ty::F)) {
        let mut h = String::from("1");
        for _ in 0..308 { h.push('0'); }
        s.push_str(&format!("let huge = {h}.0\nlet inf = huge * 10.0\nlet ninf = inf * (-1.0)\nlet nan = inf - inf\n"));
    }
    s.push_str(&format!("let x: {} = {}\nlet y: {} = {}\n", t.abra(), a.abra(sp), t.abra(), b.abra(sp)));
    s.push_str("println(x == y)\nprintln(x != y)\n");
    if t.has_ord() {
        s.push_str("println(x < y)\nprintln(x <= y)\nprintln(x > y)\nprintln(x >= y)\n");
    }
    if t.has_hash() {
        s.push_str("println(Hash.hash(x))\nprintln(Hash.hash(y))\n");
    }
    s
}

fn render(t: &Ty, r: &RunResult) -> String {
    match &r.outcome {
        Outcome::Done => {}
        Outcome::Error(k) => return format!("err {k}"),
        o => return format!("other {} {}", o.tag(), match o { Outcome::Crash(m) | Outcome::Rejected(m) => m.replace(['\n', '\t'], " ").chars().take(160).collect::<String>(), _ => String::new() }),
    }
    let mut names = vec!["eq", "ne"];
    if t.has_ord() { names.extend_from_slice(&["lt", "le", "gt", "ge"]); }
    let nb = names.len();
    if t.has_hash() { names.extend_from_slice(&["ha", "hb"]); }
    let ls: Vec<&str> = r.out.lines().collect();
    if ls.len() != names.len() {
        return format!("other bad-output {:?}", r.out);
    }
    names.iter().zip(ls).enumerate().map(|(i, (n, l))| {
        if i < nb { format!("{n}={}", match l { "true" => "1", "false" => "0", _ => "?" }) } else { format!("{n}={l}") }
    }).collect::<Vec<_>>().join(" ")
}

fn field(ans: &str, name: &str) -> Option<String> {
    ans.split(' ').find_map(|f| f.strip_prefix(&format!("{name}=")).map(|x| x.to_string()))
}

fn main() {
    let mut ctx = Ctx::from_env("C24");
    let sp = host_specials();
    let quick = ctx.quick();
    let mut jobs: Vec<Job> = vec![];

    // ---- exhaustive: every pair of every value
    let ex_types: Vec<(Ty, usize)> = vec![
        (tb(), 0), (Ty::V, 0),
        (tup(vec![tb(), tb()]), 0), (tup(vec![tb(), Ty::V]), 0), (tup(vec![Ty::V, tb()]), 0), (tup(vec![Ty::V, Ty::V]), 0),
        (tup(vec![tb(), tb(), tb()]), 0), (tup(vec![tb(), Ty::V, tb()]), 0), (tup(vec![Ty::V, Ty::V, Ty::V]), 0),
        (tup(vec![tb(), tb(), tb(), tb()]), 0), (tup(vec![tb(), Ty::V, Ty::V, tb()]), 0),
        (tup(vec![tup(vec![tb(), tb()]), tb()]), 0), (tup(vec![tb(), tup(vec![tb(), Ty::V])]), 0),
        (arr(tb()), 3), (arr(Ty::V), 3), (arr(tup(vec![tb(), tb()])), 2), (arr(tup(vec![tb(), Ty::V])), 3),
        (arr(arr(tb())), 1), (tup(vec![arr(tb()), tb()]), 2),
    ];
    for (t, max_len) in &ex_types {
        let max_len = if !quick && matches!(t, Ty::A(_)) && *max_len < 3 { max_len + 1 } else { *max_len };
        let vs = all_values(t, max_len);
        for a in &vs {
            for b in &vs {
                jobs.push(Job { ty: t.clone(), a: a.clone(), b: b.clone(), src: program(t, a, b, sp), exhaustive: true, shape: "vv" });
            }
        }
    }
    // ---- boundary scalars: all pairs
    for t in [Ty::I, Ty::F, Ty::S] {
        let vs = scalars(&t, sp);
        for a in &vs {
            for b in &vs {
                jobs.push(Job { ty: t.clone(), a: a.clone(), b: b.clone(), src: program(&t, a, b, sp), exhaustive: false, shape: "vv" });
            }
        }
    }
    // ---- every operand shape for the scalar types: all pairs of bool, and of the boundary ints/floats/strings
    for t in [Ty::B, Ty::I, Ty::F, Ty::S] {
        let vs = scalars(&t, sp);
        for a in &vs {
            for b in &vs {
                for shape in ["vl", "lv", "ll", "match", "iface"] {
                    let ok = match shape {
                        "iface" => true,
                        "vl" => literal_ok(b),
                        "lv" => literal_ok(a),
                        "ll" => literal_ok(a) && literal_ok(b),
                        _ => pattern_ok(b),
                    };
                    // quick tier: every pair in `vl` (the immediate forms), a seeded half in the other shapes
                    if !ok || (quick && shape != "vl" && shape != "match" && ctx.rng.chance(1, 2)) { continue; }
                    jobs.push(Job { ty: t.clone(), a: a.clone(), b: b.clone(), src: shaped_program(&t, a, b, sp, shape), exhaustive: false, shape });
                }
            }
        }
    }
    // ---- qualified interface calls on compound types (exhaustive small ones, and a few mixed)
    for (t, max_len) in [(tup(vec![tb(), tb()]), 0usize), (tup(vec![tb(), Ty::V, tb()]), 0), (arr(tb()), 2), (arr(tup(vec![tb(), Ty::V])), 1)] {
        let vs = all_values(&t, max_len);
        for a in &vs {
            for b in &vs {
                jobs.push(Job { ty: t.clone(), a: a.clone(), b: b.clone(), src: shaped_program(&t, a, b, sp, "iface"), exhaustive: true, shape: "iface" });
            }
        }
    }
    for t in [tup(vec![Ty::I, Ty::F]), tup(vec![Ty::S, Ty::I, tb()]), arr(Ty::S), arr(Ty::F)] {
        for _ in 0..(if quick { 12 } else { 300 }) {
            let a = rand_val(&t, &mut ctx.rng, sp);
            let b = if ctx.rng.chance(1, 2) { mutate(&t, &a, &mut ctx.rng, sp) } else { a.clone() };
            jobs.push(Job { ty: t.clone(), a: a.clone(), b: b.clone(), src: shaped_program(&t, &a, &b, sp, "iface"), exhaustive: false, shape: "iface" });
        }
    }
    // ---- compound types over ints/floats/strings: random pairs, half of them one mutation apart
    let mixed: Vec<Ty> = vec![
        tup(vec![Ty::I, Ty::F]), tup(vec![Ty::S, Ty::I, tb()]), tup(vec![Ty::I, Ty::F, Ty::S, tb()]),
        tup(vec![tup(vec![Ty::I, Ty::S]), Ty::F]), tup(vec![Ty::F, Ty::F]), tup(vec![Ty::S, Ty::S, Ty::S]),
        arr(Ty::I), arr(Ty::S), arr(Ty::F), arr(tup(vec![Ty::I, Ty::S])), arr(arr(Ty::I)), tup(vec![Ty::V, Ty::I, Ty::V, Ty::S]),
    ];
    let per = if quick { 45 } else { 900 };
    for t in &mixed {
        for _ in 0..per {
            let a = rand_val(t, &mut ctx.rng, sp);
            let b = match ctx.rng.below(4) {
                0 => a.clone(),
                1 | 2 => mutate(t, &a, &mut ctx.rng, sp),
                _ => rand_val(t, &mut ctx.rng, sp),
            };
            jobs.push(Job { ty: t.clone(), a: a.clone(), b: b.clone(), src: program(t, &a, &b, sp), exhaustive: false, shape: "vv" });
        }
    }

    let float_prologue = {
        let mut h = String::from("1");
        for _ in 0..308 { h.push('0'); }
        format!("let huge = {h}.0\nlet inf = huge * 10.0\nlet ninf = inf * (-1.0)\nlet nan = inf - inf\n")
    };
    let results = par_map(&jobs, |j| {
        if j.shape == "vv" {
            return render(&j.ty, &run_program(&j.src));
        }
        let src = if j.ty.has(&|t| matches!(t, Ty::F)) { format!("{float_prologue}{}", j.src) } else { j.src.clone() };
        let r = run_program(&src);
        if j.shape == "match" {
            return match (&r.outcome, r.out.trim()) {
                (Outcome::Done, "true") => "eq=1".to_string(),
                (Outcome::Done, "false") => "eq=0".to_string(),
                (o, out) => format!("other {} {:?} {}", o.tag(), out, match o { Outcome::Rejected(m) | Outcome::Crash(m) => m.replace(['\n', '\t'], " ").chars().take(160).collect::<String>(), _ => String::new() }),
            };
        }
        render(&j.ty, &r)
    });

    // ---- record, compare with the oracle, collect the tables for the laws
    let mut table: HashMap<String, HashMap<(String, String), String>> = HashMap::new();
    for (j, imp) in jobs.iter().zip(results.iter()) {
        let tc = j.ty.code();
        ctx.count(&format!("shape:{}", j.shape));
        if j.shape == "match" {
            let eq = oracle_eq(&j.a, &j.b);
            let spec = format!("eq={}", if eq { 1 } else { 0 });
            if *imp != spec {
                ctx.spec_fail(format!("{} : match {} {{ {} -> true, _ -> false }}: implementation `{imp}`, a literal pattern matches exactly the values == to it: `{spec}`\n--- program\n{}", j.ty.abra(), j.a.abra(sp), j.b.abra(sp), j.src));
            }
            ctx.case(format!("cmp24m {tc} {} {}", j.a.code(), j.b.code()), imp.clone());
            continue;
        }
        ctx.count(&format!("type:{tc}"));
        ctx.count(if j.exhaustive { "domain:exhaustive" } else { "domain:sampled" });
        let what = format!("{} [{}] : {} ? {}", j.ty.abra(), j.shape, j.a.abra(sp), j.b.abra(sp));
        let eq = oracle_eq(&j.a, &j.b);
        let bit = |x: bool| if x { "1" } else { "0" };
        let mut spec = format!("eq={} ne={}", bit(eq), bit(!eq));
        if j.ty.has_ord() {
            let c = oracle_cmp(&j.a, &j.b);
            ctx.count(match c { Ordering::Less => "order:less", Ordering::Equal => "order:equal", Ordering::Greater => "order:greater" });
            spec.push_str(&format!(" lt={} le={} gt={} ge={}", bit(c == Ordering::Less), bit(c != Ordering::Greater), bit(c == Ordering::Greater), bit(c != Ordering::Less)));
        } else {
            ctx.count(if eq { "array:equal" } else { "array:different" });
        }
        let imp_cmp: String = imp.split(' ').filter(|f| !f.starts_with("ha=") && !f.starts_with("hb=")).collect::<Vec<_>>().join(" ");
        if imp_cmp != spec {
            ctx.spec_fail(format!("{what}: implementation `{imp}`, lexicographic oracle `{spec}`\n--- program\n{}", j.src));
        }
        if j.ty.has_hash() {
            if let (Some(ha), Some(hb)) = (field(imp, "ha"), field(imp, "hb")) {
                if eq && ha != hb {
                    ctx.spec_fail(format!("{what}: equal values, different hashes {ha} / {hb}"));
                }
                if eq { ctx.count("hash:equal-values") } else if ha == hb { ctx.count("hash:collision") } else { ctx.count("hash:different") }
            }
        }
        // the laws are evaluated per operand shape (a full table exists for `vv` and `vl`)
        let tkey = if j.shape == "vv" { tc.clone() } else { format!("{tc}[{}]", j.shape) };
        table.entry(tkey).or_default().insert((j.a.code(), j.b.code()), imp.clone());
        ctx.case(format!("cmp24 {tc} {} {} #{}", j.a.code(), j.b.code(), j.shape), imp.clone());
    }

    // ---- the laws, evaluated directly on the implementation's answers
    let mut law_checks = 0u64;
    for (tc, tab) in &table {
        let get = |a: &str, b: &str, f: &str| -> Option<bool> {
            tab.get(&(a.to_string(), b.to_string())).and_then(|ans| field(ans, f)).map(|v| v == "1")
        };
        let mut vals: Vec<String> = tab.keys().map(|k| k.0.clone()).collect();
        vals.sort();
        vals.dedup();
        let has_ord = tab.values().next().map(|a| a.contains("lt=")).unwrap_or(false);
        let mut fails: Vec<String> = vec![];
        for a in &vals {
            if let Some(false) = get(a, a, "eq") { fails.push(format!("`==` not reflexive at {a}")); }
            for b in &vals {
                let (Some(eab), Some(nab)) = (get(a, b, "eq"), get(a, b, "ne")) else { continue };
                law_checks += 1;
                if nab == eab { fails.push(format!("`!=` is not the negation of `==` at {a}, {b}")); }
                if let Some(eba) = get(b, a, "eq") { if eab != eba { fails.push(format!("`==` not symmetric at {a}, {b}")); } }
                if has_ord {
                    let (lt, le, gt, ge) = (get(a, b, "lt").unwrap_or(false), get(a, b, "le").unwrap_or(false), get(a, b, "gt").unwrap_or(false), get(a, b, "ge").unwrap_or(false));
                    if [lt, eab, gt].iter().filter(|x| **x).count() != 1 { fails.push(format!("not exactly one of < == > at {a}, {b}")); }
                    if let (Some(ltba), Some(leba)) = (get(b, a, "lt"), get(b, a, "le")) {
                        if le != !ltba { fails.push(format!("x <= y is not `not (y < x)` at {a}, {b}")); }
                        if ge != leba { fails.push(format!("x >= y is not y <= x at {a}, {b}")); }
                        if gt != ltba { fails.push(format!("x > y is not y < x at {a}, {b}")); }
                    }
                }
                // triples: transitivity
                if vals.len() <= 40 {
                    for c in &vals {
                        if let (Some(ebc), Some(eac)) = (get(b, c, "eq"), get(a, c, "eq")) {
                            law_checks += 1;
                            if eab && ebc && !eac { fails.push(format!("`==` not transitive at {a}, {b}, {c}")); }
                            if has_ord {
                                if let (Some(lab), Some(lbc), Some(lac)) = (get(a, b, "lt"), get(b, c, "lt"), get(a, c, "lt")) {
                                    if lab && lbc && !lac { fails.push(format!("`<` not transitive at {a}, {b}, {c}")); }
                                }
                            }
                        }
                    }
                }
            }
        }
        for f in fails.into_iter().take(10) {
            ctx.spec_fail(format!("type {tc}: {f}"));
        }
    }
    ctx.notes.push(format!("{law_checks} law instances (pairs and triples) evaluated on the implementation's answers"));
    ctx.finish();
}
