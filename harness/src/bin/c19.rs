//! C19 correspondence.
//!  (1) templates with an oracle computed here from the property's words: a lambda sees the values its free
//!      variables had when it was created (also when only a nested lambda uses them), later reassignment is
//!      invisible to it, every invocation has its own locals — `spec_fail` on deviation;
//!  (2) generated F3 programs (nested lambdas, captures of locals and parameters, reassignment before and after
//!      creation): values/outputs against `Abra.Sem`;
//!  (3) the capture analysis: per lambda (number of captures, number of locals) read off the real unoptimised
//!      assembly (`make_closure n`, `push_nil m`) against the model of the analysis (`analysis …` requests);
//!  (0) the template families of harness/src/bg9cov.rs that name C19 (Rust oracles: captured named function values,
//!      capture-position family, builtin / namespace-qualified function values, D80/D102 regressions).
#[path = "../bg9cov.rs"]
mod bg9cov;
#[path = "../progen.rs"]
mod progen;
use progen::run::*;
use progen::*;
use vh::*;

fn templates(rng: &mut Rng) -> Vec<(String, String, String)> {
    let mut v = vec![];
    for _ in 0..6 {
        let (k1, k2, a, b) = (rng.range(-50, 50), rng.range(-50, 50), rng.range(-20, 20), rng.range(-20, 20));
        let lit = |n: i64| if n < 0 { format!("({n})") } else { format!("{n}") };
        // reassignment after creation
        v.push((
            "reassign-after".into(),
            format!("var m = {}\nlet f = (a: int) -> a + m\nm = {}\nprintln(f({}))\nprintln(m)\n", lit(k1), lit(k2), lit(a)),
            format!("{}\n{}\n", a + k1, k2),
        ));
        // reassignment before creation
        v.push((
            "reassign-before".into(),
            format!("var m = {}\nm = {}\nlet f = (a: int) -> a + m\nprintln(f({}))\n", lit(k1), lit(k2), lit(a)),
            format!("{}\n", a + k2),
        ));
        // nested lambda: `k` is used only by the inner lambda; the outer one must capture it at ITS creation
        v.push((
            "nested-inner-only".into(),
            format!(
                "var k = {}\nlet f = (a: int) -> {{\n  let g = (b: int) -> a + b + k\n  g\n}}\nk = {}\nlet g = f({})\nk = 7\nprintln(g({}))\n",
                lit(k1),
                lit(k2),
                lit(a),
                lit(b)
            ),
            format!("{}\n", a + b + k1),
        ));
        // three levels, parameter and local captured
        v.push((
            "nested-3".into(),
            format!(
                "var k = {}\nlet f = (a: int) -> {{\n  let t = a * 2\n  (b: int) -> {{\n    (c: int) -> a + b + c + t + k\n  }}\n}}\nlet g = f({})\nk = {}\nlet h = g({})\nprintln(h(1))\n",
                lit(k1),
                lit(a),
                lit(k2),
                lit(b)
            ),
            format!("{}\n", a + b + 1 + a * 2 + k1),
        ));
        // closures created in a loop capture the current value of the loop variable
        v.push((
            "loop-var".into(),
            format!("var s = 0\nfor i in 4 {{\n  let f = (a: int) -> a + i\n  s = s + f({})\n}}\nprintln(s)\n", lit(a)),
            format!("{}\n", 4 * a + 6),
        ));
        // fresh locals per invocation
        v.push((
            "fresh-locals".into(),
            format!("let f = (a: int) -> {{\n  var t = 0\n  t += a\n  t\n}}\nprintln(f({}))\nprintln(f({}))\n", lit(a), lit(b)),
            format!("{a}\n{b}\n"),
        ));
        // captured array is shared by reference, captured int is a copy
        v.push((
            "array-shared".into(),
            format!(
                "let arr = [{}]\nvar n = {}\nlet f = (a: int) -> {{\n  arr.push(a)\n  arr.len() + n\n}}\nn = 1000\nprintln(f({}))\nprintln(arr)\n",
                lit(k1),
                lit(k2),
                lit(a)
            ),
            format!("{}\n[ {}, {} ]\n", 2 + k2, k1, a),
        ));
        // lambda inside a function capturing a parameter
        v.push((
            "fn-param".into(),
            format!("fn mk(p: int) -> int -> int {{\n  var q = p\n  let f = (a: int) -> a + p + q\n  q = 0\n  f\n}}\nlet f = mk({})\nprintln(f({}))\n", lit(k1), lit(a)),
            format!("{}\n", a + 2 * k1),
        ));
    }
    v
}

fn main() {
    let mut ctx = Ctx::from_env("C19");
    if std::env::var("VERIF_DEBUG").is_ok() {
        std::panic::set_hook(Box::new(|i| eprintln!("PANIC: {i}")));
    }
    let base = probe_shapes(&mut ctx);
    // coverage-guided template families with their own oracles (harness/src/bg9cov.rs)
    bg9cov::run_templates(&mut ctx, "C19");

    // ---- (1)
    let mut trng = Rng::new(ctx.rng.next());
    let ts = templates(&mut trng);
    let res = par_map(&ts, |(_, src, _)| run_program(src));
    for ((name, src, exp), r) in ts.iter().zip(res) {
        ctx.count(&format!("template:{name}:{}", r.outcome.tag()));
        if r.outcome != Outcome::Done || &r.out != exp {
            ctx.spec_fail(format!(
                "{name}: a lambda must see the values captured at its creation: outcome {} output {:?}, expected {:?}\n{src}",
                r.outcome.tag(),
                r.out,
                exp
            ));
        }
    }

    // ---- (2) + (3)
    let n = if ctx.quick() { 170 } else { 4000 };
    struct Job {
        prog: Program,
        src: String,
        req: String,
        areq: String,
    }
    let mut jobs = vec![];
    for k in 0..n {
        let mut r = Rng::new(ctx.rng.next());
        let o = GenOpts {
            tier: 3,
            stmts: 5 + (k % 8),
            budget: 60 + (k as i32 % 5) * 15,
            no_unit_vars: true,
            lambda_boost: true,
            big_ints: 1,
            ..base.clone()
        };
        let (prog, hist) = generate(&mut r, o);
        for (f, c) in hist {
            if f.starts_with("lambda") || f.starts_with("call_lambda") || f == "assign" || f == "shadow" {
                *ctx.hist.entry(format!("gen:{f}")).or_insert(0) += c;
            }
        }
        let src = program_src(&prog);
        let req = sem_request(&prog, &format!("L{k}"));
        let areq = format!("{} #L{k}", analysis_request(&prog));
        if std::env::var("VERIF_DEBUG").is_ok() {
            let _ = std::fs::write(format!("/tmp/bG9/o19/src_{k}.abra"), &src);
        }
        jobs.push(Job { prog, src, req, areq });
    }
    let results = par_map(&jobs, |j| (real_all_budgets(&j.src, &j.prog.final_ty), real_assembly(&j.src)));
    let model = model_batch(&jobs.iter().map(|j| j.req.clone()).collect::<Vec<_>>());
    let mut to_shrink = vec![];
    for (i, (j, ((real, answers), asm))) in jobs.iter().zip(results.iter()).enumerate() {
        if !real.accepted {
            ctx.count("gen:generator-rejected");
            continue;
        }
        ctx.count(&format!("gen-outcome:{}", real.answer.split(' ').next().unwrap_or("")));
        if answers.iter().any(|a| a != &answers[0]) {
            ctx.spec_fail(format!("result depends on the step budget: {:?}\n{}", answers, j.src));
        }
        if model[i] != real.answer {
            to_shrink.push(i);
        }
        ctx.case(j.req.clone(), real.answer.clone());
        match asm {
            Ok(lines) => {
                let pairs = closures_of_assembly(lines);
                let nl = pairs.split(' ').filter(|s| !s.is_empty()).count();
                ctx.count(&format!("analysis:lambdas={}", nl.min(6)));
                ctx.case(j.areq.clone(), format!("{pairs} loops=ok table=ok"));
            }
            Err(e) => ctx.count(&format!("analysis:{e}")),
        }
    }
    let shrunk: Vec<(usize, Program)> = par_map(&to_shrink.iter().take(5).cloned().collect::<Vec<_>>(), |&i| (i, shrink(&jobs[i].prog, 300)));
    for (i, p) in shrunk {
        ctx.spec_fail(format!(
            "program with lambdas differs from the reference interpreter: implementation `{}`, reference `{}`; shrunk program:\n{}",
            results[i].0.0.answer,
            model[i],
            program_src(&p)
        ));
    }
    ctx.finish();
}
