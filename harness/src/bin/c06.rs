//! C06 correspondence driver; the machinery (program generator, manual collector schedules, per-transition
//! validation requests, reachability oracle) is in harness/src/gcdrive.rs and shared with C07.
use abra_core::vm::verif_gc;
use std::collections::HashMap;
use vh::gcdrive::*;
use vh::*;

fn main() {
    if std::env::args().nth(1).as_deref() == Some("--paced") {
        let src = std::fs::read_to_string(std::env::args().nth(2).unwrap()).unwrap();
        std::panic::set_hook(Box::new(|_| {}));
        let r = run_program_budget(&src, 1);
        print!("{}\n{}", r.outcome.tag(), r.out);
        return;
    }
    let mut ctx = Ctx::from_env("C06");
    let quick = ctx.quick();
    let n_progs = if quick { 40 } else { 240 };
    let max_steps = 200_000u64;

    struct Job { name: String, src: String, sched: Sched, validate: bool }
    let mut jobs: Vec<Job> = vec![];
    let mut progs: Vec<(String, String)> = vec![("D22".into(), D22.to_string())];
    for i in 0..n_progs {
        let seed = ctx.rng.next();
        let n = 6 + ctx.rng.below(if quick { 14 } else { 30 }) as usize;
        progs.push((format!("g{i}"), gen_program(seed, n)));
    }
    // mover programs: every barriered store path, validated under slow marking from many start points
    let movers: Vec<(String, String)> = (0..12).map(|k| (format!("mover{k}"), mover_program(k, 5))).collect();
    for (name, src) in movers.iter().chain(progs.iter()) {
        if abra_core::compile_bytecode("main.abra", provider(src, &[])).is_err() {
            ctx.notes.push(format!("GENERATOR BUG: program {name} is rejected by the compiler and was skipped"));
        }
    }
    let movers: Vec<(String, String)> = movers.into_iter().filter(|(_, src)| abra_core::compile_bytecode("main.abra", provider(src, &[])).is_ok()).collect();
    progs.retain(|(_, src)| abra_core::compile_bytecode("main.abra", provider(src, &[])).is_ok());
    for (name, src) in movers.iter() {
        let stride = if quick { 4 } else { 1 };
        let mut st = 0u64;
        while st < 160 {
            jobs.push(Job { name: name.clone(), src: src.clone(), sched: Sched::From { start: st, k: 1 }, validate: true });
            st += stride;
        }
    }
    progs.extend(movers.iter().cloned());
    for (pi, (name, src)) in progs.iter().enumerate() {
        if name.starts_with("mover") {
            continue;
        }
        // validated runs: a few schedules per program (every transition checked against the model)
        let mut scheds: Vec<Sched> = vec![];
        let s0 = ctx.rng.below(300);
        scheds.push(Sched::From { start: s0, k: 1 });
        scheds.push(Sched::Random { num: 3, max: 4, seed: ctx.rng.next() });
        if !quick {
            scheds.push(Sched::From { start: ctx.rng.below(600), k: 7 });
            scheds.push(Sched::Random { num: 7, max: 2, seed: ctx.rng.next() });
        }
        for s in scheds {
            jobs.push(Job { name: name.clone(), src: src.clone(), sched: s, validate: true });
        }
        // unvalidated sweeps over the cycle start point (implementation vs collection disabled only):
        // thorough = every start point of the first 400 steps for a subset, quick = a stride
        let (limit, stride) = if quick { (400u64, 37u64) } else { (600, if pi % 4 == 0 { 1 } else { 13 }) };
        let mut st = (pi as u64) % stride;
        while st < limit {
            for k in [1u32, 64] {
                jobs.push(Job { name: name.clone(), src: src.clone(), sched: Sched::From { start: st, k }, validate: false });
            }
            st += stride;
        }
    }
    // programs with tasks: every green thread's collector is validated (own heap, own cycle)
    let n_mt = if quick { 10 } else { 60 };
    let mut mt_jobs: Vec<(String, String, Sched)> = vec![];
    for i in 0..n_mt {
        let src = task_program(ctx.rng.next());
        mt_jobs.push((format!("mt{i}"), src.clone(), Sched::From { start: ctx.rng.below(120), k: 1 }));
        mt_jobs.push((format!("mt{i}"), src, Sched::Random { num: 4, max: 3, seed: ctx.rng.next() }));
    }
    let mt_refs = par_map(&mt_jobs, |(_, src, _)| run_scheduled_mt(src, &Sched::From { start: u64::MAX, k: 0 }, max_steps));
    let mt_res = par_map(&mt_jobs, |(_, src, sched)| {
        std::panic::catch_unwind(std::panic::AssertUnwindSafe(|| run_scheduled_mt(src, sched, max_steps))).ok()
    });
    for (((name, src, sched), r), rf) in mt_jobs.iter().zip(mt_res).zip(mt_refs.iter()) {
        ctx.count("validated-run-with-tasks");
        let Some(r) = r else {
            ctx.spec_fail(format!("program {name} (tasks) under schedule {sched:?} crashed the host; source: {src:?}"));
            continue;
        };
        if !r.outcome.starts_with("stopped") && (r.out != rf.out || r.outcome != rf.outcome) {
            ctx.spec_fail(format!("program {name} (tasks) under schedule {sched:?} prints {:?} ({}) but {:?} ({}) with collection disabled; source: {src:?}", r.out, r.outcome, rf.out, rf.outcome));
        }
        for s in r.spec.iter().chain(r.cycle_spec.iter()).take(3) {
            ctx.spec_fail(format!("program {name} (tasks) schedule {sched:?}: {s}; source: {src:?}"));
        }
        for (req, imp) in r.cases {
            let kind = req.split(' ').nth(1).unwrap_or("?").to_string();
            let ph = req.split(' ').nth(2).unwrap_or("?").to_string();
            ctx.count(&format!("{kind}:{ph}:task-program"));
            ctx.case(req, imp);
        }
    }
    // reference outputs
    let refs: Vec<(String, String)> = par_map(&progs, |(_, src)| run_nogc(src, max_steps));
    let refmap: HashMap<String, (String, String)> = progs.iter().zip(refs.iter()).map(|((n, _), r)| (n.clone(), r.clone())).collect();
    let results = par_map(&jobs, |j| {
        match std::panic::catch_unwind(std::panic::AssertUnwindSafe(|| run_scheduled(&j.src, &j.sched, j.validate, max_steps))) {
            Ok(r) => r,
            Err(p) => {
                verif_gc::set_manual(false);
                RunOut { out: String::new(), outcome: format!("crash:{}", panic_msg(p)), cases: vec![], spec: vec![], vm_steps: 0, gc_steps: 0, cycles: 0, max_heap_objs: 0, cycle_spec: vec![], cycles_checked: 0 }
            }
        }
    });
    let mut total_cycles = 0;
    for (j, r) in jobs.iter().zip(results) {
        let (ro, oc) = &refmap[&j.name];
        ctx.count(if j.validate { "validated-run" } else { "sweep-run" });
        total_cycles += r.cycles;
        if r.outcome.starts_with("stopped") {
            // reported below through r.spec
        } else if &r.out != ro || &r.outcome != oc {
            ctx.spec_fail(format!("program {} under schedule {:?} prints {:?} ({}) but {:?} ({}) with collection disabled; source: {:?}", j.name, j.sched, r.out, r.outcome, ro, oc, j.src));
        }
        for s in r.spec.iter().take(3) {
            ctx.spec_fail(format!("program {} schedule {:?}: {s}; source: {:?}", j.name, j.sched, j.src));
        }
        for (req, imp) in r.cases {
            let kind = req.split(' ').nth(1).unwrap_or("?").to_string();
            let ph = req.split(' ').nth(2).unwrap_or("?").to_string();
            ctx.count(&format!("{kind}:{ph}"));
            ctx.case(req, imp);
        }
    }
    // real pacing (maybe_gc as shipped), last and in child processes: with an unsafe collector this phase
    // is undefined behaviour and may take the process down
    if ctx.spec_failures.is_empty() {
        let exe = std::env::current_exe().unwrap();
        let dir = ctx.out_dir.clone();
        let paced: Vec<Option<(String, String)>> = par_map(&progs, |(name, src)| {
            let f = dir.join(format!("paced_{name}.abra"));
            std::fs::write(&f, src).unwrap();
            let o = std::process::Command::new(&exe).arg("--paced").arg(&f).output().ok()?;
            let _ = std::fs::remove_file(&f);
            if !o.status.success() {
                return None;
            }
            let txt = String::from_utf8_lossy(&o.stdout).to_string();
            let (oc, out) = txt.split_once('\n')?;
            Some((out.to_string(), oc.to_string()))
        });
        for ((name, src), r) in progs.iter().zip(paced.iter()) {
            let (ro, oc) = &refmap[name];
            ctx.count("real-pacing-run");
            match r {
                None => ctx.spec_fail(format!("program {name} under the real collector pacing crashes the host; with collection disabled it prints {:?} ({}); source: {:?}", ro, oc, src)),
                Some((out, tag)) => {
                    if out != ro || tag != oc {
                        ctx.spec_fail(format!("program {name} under the real collector pacing prints {:?} ({}) but {:?} ({}) with collection disabled; source: {:?}", out, tag, ro, oc, src));
                    }
                }
            }
        }
    } else {
        ctx.notes.push("real-pacing phase skipped: a reachable object was already seen reclaimed under a manual schedule".into());
    }
    ctx.notes.push(format!("programs={} jobs={} completed collection cycles={}", progs.len(), jobs.len(), total_cycles));
    ctx.finish();
}
