//! C27 correspondence: histories of map / set operations over key domains with extreme ints, forced
//! collisions, a constant-hash user key type, strings and tuples, run by the real `core/map` /
//! `core/set` on the real VM; after every operation the program prints the result and `len()`.
//! The transcript is compared with the Lean hash-table model and, independently, with Rust's
//! `HashMap` (the reference dictionary = the executable statement of the property).
use std::collections::HashMap;
use vh::*;

#[derive(Clone, Debug, PartialEq, Eq, Hash)]
enum Key {
    Int(i64),
    Const(i64),
    Str(String),
    Tup(i64, i64),
}

impl Key {
    fn src(&self) -> String {
        match self {
            Key::Int(n) => n.to_string(),
            Key::Const(n) => format!("Key({n})"),
            Key::Str(s) => format!("\"{s}\""),
            Key::Tup(a, b) => format!("({a}, {b})"),
        }
    }
    fn req(&self) -> String {
        match self {
            Key::Int(n) => format!("i:{n}"),
            Key::Const(n) => format!("c:{n}"),
            Key::Str(s) => format!("s:{}", hex(s.as_bytes())),
            Key::Tup(a, b) => format!("t:{a},{b}"),
        }
    }
}

#[derive(Clone, Copy, PartialEq, Debug)]
enum Dom { Extreme, Mod64, Mod1024, Const, Str, Tup, Small }

impl Dom {
    fn name(self) -> &'static str {
        match self {
            Dom::Extreme => "int-extreme", Dom::Mod64 => "int-mod64", Dom::Mod1024 => "int-mod1024",
            Dom::Const => "user-const-hash", Dom::Str => "string", Dom::Tup => "tuple", Dom::Small => "int-small",
        }
    }
    fn key_type(self) -> &'static str {
        match self {
            Dom::Const => "Key", Dom::Str => "string", Dom::Tup => "(int, int)", _ => "int",
        }
    }
    /// the pool of keys of this domain; `size` bounds how many distinct keys a history can hold
    fn pool(self, size: usize) -> Vec<Key> {
        match self {
            Dom::Extreme => {
                let mut v: Vec<i64> = vec![i64::MIN, i64::MIN + 1, -1, 0, 1, i64::MAX, i64::MAX - 1, -2, 2, 63, 64, -64, 4, -4, 1 << 62, -(1 << 62)];
                v.truncate(size.max(6));
                v.into_iter().map(Key::Int).collect()
            }
            // congruent mod 64 (two residue classes): collide in every table of at most 64 buckets
            Dom::Mod64 => (0..size as i64).map(|j| Key::Int(if j % 3 == 0 { 5 } else { 0 } + 64 * (j - size as i64 / 2))).collect(),
            // multiples of 1024 of both signs: collide in every table size a history can reach
            Dom::Mod1024 => (0..size as i64).map(|j| Key::Int(1024 * (j - size as i64 / 2))).collect(),
            Dom::Const => (0..size as i64).map(Key::Const).collect(),
            Dom::Str => {
                let mut v = vec![String::new()];
                let alpha = ["a", "b", "c", "é"];
                let mut layer = vec![String::new()];
                while v.len() < size {
                    let mut next = vec![];
                    for p in &layer {
                        for a in alpha {
                            next.push(format!("{p}{a}"));
                        }
                    }
                    v.extend(next.iter().cloned());
                    layer = next;
                }
                v.truncate(size);
                v.into_iter().map(Key::Str).collect()
            }
            Dom::Tup => (0..size as i64).map(|j| Key::Tup(j % 7 - 3, j / 7 - 2)).collect(),
            Dom::Small => (0..size as i64).map(|j| Key::Int(j - 3)).collect(),
        }
    }
}

#[derive(Clone, Debug)]
enum Op {
    Ins(Key, i64),
    ISet(Key, i64),
    Get(Key),
    IGet(Key),
    TryGet(Key),
    Has(Key),
    Rem(Key),
    Len,
    /// `m[k] op= v` through the map's Index impl (`+`, `-`, `*`); the bool says: inside the helper function `bump`
    IUpd(Key, char, i64, bool),
}

impl Op {
    fn req(&self) -> String {
        match self {
            Op::Ins(k, v) => format!("ins {} {v}", k.req()),
            Op::ISet(k, v) => format!("iset {} {v}", k.req()),
            Op::Get(k) => format!("get {}", k.req()),
            Op::IGet(k) => format!("iget {}", k.req()),
            Op::TryGet(k) => format!("tryget {}", k.req()),
            Op::Has(k) => format!("has {}", k.req()),
            Op::Rem(k) => format!("rem {}", k.req()),
            Op::Len => "len".into(),
            Op::IUpd(k, o, v, _) => format!("{} {} {v}", match o { '+' => "iadd", '-' => "isub", _ => "imul" }, k.req()),
        }
    }
    fn kind(&self) -> &'static str {
        match self {
            Op::Ins(..) => "insert", Op::ISet(..) => "index-set", Op::Get(..) => "get", Op::IGet(..) => "index-get",
            Op::TryGet(..) => "try_get", Op::Has(..) => "contains", Op::Rem(..) => "remove", Op::Len => "len",
            Op::IUpd(_, _, _, false) => "index-compound-assign", Op::IUpd(_, _, _, true) => "index-compound-assign-in-function",
        }
    }
    fn src(&self, is_set: bool) -> String {
        match self {
            Op::Ins(k, v) => if is_set { format!("m.insert({})", k.src()) } else { format!("m.insert({}, {v})", k.src()) },
            Op::ISet(k, v) => format!("m[{}] = {v}", k.src()),
            Op::Get(k) => format!("print(m.get({}))", k.src()),
            Op::IGet(k) => format!("print(m[{}])", k.src()),
            Op::TryGet(k) => format!("print(m.try_get({}))", k.src()),
            Op::Has(k) => format!("print(m.contains({}))", k.src()),
            Op::Rem(k) => format!("print(m.remove({}))", k.src()),
            Op::Len => String::new(),
            Op::IUpd(k, o, v, false) => format!("m[{}] {o}= {v}", k.src()),
            Op::IUpd(k, o, v, true) => format!("bump_{}(m, {}, {v})", match o { '+' => "add", '-' => "sub", _ => "mul" }, k.src()),
        }
    }
}

fn program(dom: Dom, is_set: bool, ops: &[Op]) -> String {
    let mut s = String::from("use core/map\nuse core/set\n");
    if dom == Dom::Const {
        s.push_str("type Key = {\n  id: int\n}\nimplement Hash for Key {\n  fn hash(a) = 7\n}\nimplement Equal for Key {\n  fn equal(a, b) = a.id == b.id\n}\n");
    }
    if is_set {
        s.push_str(&format!("let m: set<{}> = set.new()\n", dom.key_type()));
    } else {
        s.push_str(&format!("let m: map<{}, int> = map.new()\n", dom.key_type()));
    }
    if !is_set {
        let kt = dom.key_type();
        for (n, o) in [("add", '+'), ("sub", '-'), ("mul", '*')] {
            s.push_str(&format!("fn bump_{n}(t: map<{kt}, int>, k: {kt}, v: int) {{\n  t[k] {o}= v\n}}\n"));
        }
    }
    for op in ops {
        let line = op.src(is_set);
        if !line.is_empty() {
            s.push_str(&line);
            s.push('\n');
        }
        s.push_str("print(\",\")\nprint(m.len())\nprint(\"/\")\n");
    }
    s
}

/// reference dictionary; also tracks the slot/bucket structure the history drives the table through
struct Ref {
    m: HashMap<Key, i64>,
    slots: usize,
    free: usize,
    buckets: usize,
    resizes: usize,
    reuses: usize,
}

impl Ref {
    fn new() -> Ref {
        Ref { m: HashMap::new(), slots: 0, free: 0, buckets: 0, resizes: 0, reuses: 0 }
    }
    /// Ok(printed result) or Err(()) for the panic of `get` on an absent key
    fn exec(&mut self, op: &Op) -> Result<String, ()> {
        Ok(match op {
            Op::Ins(k, v) | Op::ISet(k, v) => {
                if self.slots >= self.buckets {
                    self.buckets = if self.buckets == 0 { 4 } else { self.buckets * 2 };
                    self.resizes += 1;
                }
                if self.m.insert(k.clone(), *v).is_none() {
                    if self.free > 0 {
                        self.free -= 1;
                        self.reuses += 1;
                    } else {
                        self.slots += 1;
                    }
                }
                String::new()
            }
            Op::Get(k) | Op::IGet(k) => match self.m.get(k) {
                Some(v) => v.to_string(),
                None => return Err(()),
            },
            Op::TryGet(k) => match self.m.get(k) {
                Some(v) => format!("some({v})"),
                None => "none".into(),
            },
            Op::Has(k) => self.m.contains_key(k).to_string(),
            Op::Rem(k) => {
                let was = self.m.remove(k).is_some();
                if was {
                    self.free += 1;
                }
                was.to_string()
            }
            Op::Len => String::new(),
            Op::IUpd(k, o, v, _) => {
                // index_get (panics when absent), then index_set = insert (with its resize check)
                let old = match self.m.get(k) {
                    Some(x) => *x,
                    None => return Err(()),
                };
                let new = match o { '+' => old + v, '-' => old - v, _ => old * v };
                if self.slots >= self.buckets {
                    self.buckets = if self.buckets == 0 { 4 } else { self.buckets * 2 };
                    self.resizes += 1;
                }
                self.m.insert(k.clone(), new);
                String::new()
            }
        })
    }
}

fn op_key(op: &Op) -> &Key {
    match op {
        Op::Ins(k, _) | Op::ISet(k, _) | Op::Get(k) | Op::IGet(k) | Op::TryGet(k) | Op::Has(k) | Op::Rem(k) | Op::IUpd(k, ..) => k,
        Op::Len => &Key::Int(0),
    }
}

struct Job { dom: Dom, is_set: bool, ops: Vec<Op>, expect: String, resizes: usize, reuses: usize, max_live: usize }

fn gen_history(rng: &mut Rng, dom: Dom, is_set: bool, max_ops: usize, thorough: bool) -> Job {
    let n_ops = if thorough && rng.chance(1, 3) { max_ops } else { 5 + rng.below(max_ops as u64 - 4) as usize };
    // how many distinct keys the history plays with: small pools give dense hit/update/remove traffic,
    // large pools drive the table through several resizes
    let pool_size = match rng.below(4) {
        0 => 4,
        1 => 12,
        2 => 40,
        _ => if thorough { 160 } else { 40 },
    };
    let pool = dom.pool(pool_size);
    // phases: grow (mostly inserts of fresh keys), churn (balanced), drain (mostly removes)
    let mut r = Ref::new();
    let mut ops = vec![];
    let mut expect = String::new();
    let mut max_live = 0;
    let grow_until = n_ops * (30 + rng.below(50) as usize) / 100;
    for i in 0..n_ops {
        let phase_grow = i < grow_until;
        let k = if phase_grow && rng.chance(2, 3) {
            // prefer a key that is absent
            let absent: Vec<&Key> = pool.iter().filter(|k| !r.m.contains_key(*k)).collect();
            if absent.is_empty() { rng.pick(&pool).clone() } else { (*rng.pick(&absent)).clone() }
        } else if rng.chance(1, 2) && !r.m.is_empty() {
            // a present key (sorted for reproducibility: HashMap iteration order is not stable)
            let mut present: Vec<&Key> = pool.iter().filter(|k| r.m.contains_key(*k)).collect();
            present.truncate(64);
            (*rng.pick(&present)).clone()
        } else {
            rng.pick(&pool).clone()
        };
        let v = rng.range(-5, 99);
        let roll = rng.below(100);
        let op = if is_set {
            match roll {
                0..=44 => if phase_grow || rng.chance(1, 2) { Op::Ins(k, 0) } else { Op::Rem(k) },
                45..=69 => Op::Rem(k),
                70..=94 => Op::Has(k),
                _ => Op::Len,
            }
        } else if phase_grow {
            match roll {
                0..=59 => Op::Ins(k, v),
                60..=69 => Op::ISet(k, v),
                70..=77 => Op::TryGet(k),
                78..=84 => Op::Has(k),
                85..=92 => Op::Rem(k),
                93..=96 => if r.m.contains_key(&k) { Op::Get(k) } else { Op::TryGet(k) },
                _ => if r.m.contains_key(&k) { Op::IGet(k) } else { Op::Len },
            }
        } else {
            match roll {
                0..=24 => Op::Ins(k, v),
                25..=31 => Op::ISet(k, v),
                32..=59 => Op::Rem(k),
                60..=71 => Op::TryGet(k),
                72..=81 => Op::Has(k),
                82..=89 => if r.m.contains_key(&k) || rng.chance(1, 40) { Op::Get(k) } else { Op::TryGet(k) },
                90..=95 => if r.m.contains_key(&k) || rng.chance(1, 40) { Op::IGet(k) } else { Op::Has(k) },
                _ => Op::Len,
            }
        };
        // `m[k] op= v` through the Index impl: mostly on present keys (an absent key panics and ends the program)
        let op = if !is_set && !matches!(op, Op::Len) && rng.chance(1, 12) && (r.m.contains_key(op_key(&op)) || rng.chance(1, 30)) {
            let k = op_key(&op).clone();
            let old = r.m.get(&k).copied().unwrap_or(0);
            let (o, v) = match rng.below(3) {
                0 => ('+', rng.range(-50, 99)),
                1 => ('-', rng.range(-50, 99)),
                _ => ('*', rng.range(-2, 3)),
            };
            let (o, v) = if o == '*' && (old * v).abs() > (1 << 40) { ('+', 1) } else { (o, v) };
            Op::IUpd(k, o, v, rng.chance(1, 3))
        } else {
            op
        };
        let res = r.exec(&op);
        ops.push(op);
        match res {
            Ok(s) => {
                expect.push_str(&s);
                expect.push(',');
                expect.push_str(&r.m.len().to_string());
                expect.push('/');
            }
            Err(()) => {
                expect.push_str("ERR:panic");
                break;
            }
        }
        max_live = max_live.max(r.m.len());
    }
    Job { dom, is_set, ops, expect, resizes: r.resizes, reuses: r.reuses, max_live }
}

fn main() {
    let mut ctx = Ctx::from_env("C27");
    let quick = ctx.quick();
    let (n_hist, max_ops) = if quick { (420, 60) } else { (2100, 400) };
    let doms = [Dom::Extreme, Dom::Mod64, Dom::Mod1024, Dom::Const, Dom::Str, Dom::Tup, Dom::Small];
    let mut jobs: Vec<Job> = vec![];

    // directed: the replay of D9 (key MIN) and the lookups/removes on an empty table
    for k in [i64::MIN, i64::MIN + 1, -1, 0, i64::MAX] {
        let key = Key::Int(k);
        let ops = vec![
            Op::TryGet(key.clone()), Op::Has(key.clone()), Op::Rem(key.clone()), Op::Ins(key.clone(), 1), Op::Get(key.clone()),
            Op::Ins(key.clone(), 2), Op::IGet(key.clone()), Op::Rem(key.clone()), Op::Rem(key.clone()), Op::TryGet(key.clone()),
            Op::ISet(key.clone(), 3), Op::Has(key.clone()), Op::Len, Op::Get(Key::Int(k ^ 1)),
        ];
        let mut r = Ref::new();
        let mut expect = String::new();
        for op in &ops {
            match r.exec(op) {
                Ok(s) => expect.push_str(&format!("{s},{}/", r.m.len())),
                Err(()) => expect.push_str("ERR:panic"),
            }
        }
        jobs.push(Job { dom: Dom::Extreme, is_set: false, ops, expect, resizes: r.resizes, reuses: r.reuses, max_live: 1 });
    }
    for i in 0..n_hist {
        let dom = doms[i % doms.len()];
        let is_set = dom != Dom::Const && (i / doms.len()) % 5 == 4;
        let dom = if is_set && matches!(dom, Dom::Str | Dom::Tup) { Dom::Mod64 } else { dom };
        jobs.push(gen_history(&mut ctx.rng, dom, is_set, max_ops, !quick));
    }

    let srcs: Vec<String> = jobs.iter().map(|j| program(j.dom, j.is_set, &j.ops)).collect();
    let files = core_modules();
    let results = par_map(&srcs, |src| {
        run_program_opts(src, &RunOpts { files: files.clone(), max_steps: 200_000_000, ..Default::default() })
    });
    for (j, r) in jobs.iter().zip(results) {
        let req = format!(
            "hmap {} #{}{}",
            j.ops.iter().map(|o| o.req()).collect::<Vec<_>>().join(" ; "),
            j.dom.name(),
            if j.is_set { "-set" } else { "" }
        );
        let imp = match &r.outcome {
            Outcome::Done => r.out.clone(),
            Outcome::Error(k) => format!("{}ERR:{}", r.out, k),
            Outcome::Rejected(m) => format!("REJECTED {}", m.lines().filter(|l| !l.trim().is_empty()).take(3).collect::<Vec<_>>().join(" ")),
            o => format!("{}{}", r.out, o.tag().to_uppercase()),
        }
        .replace(['\n', '\t'], " ");
        ctx.count(&format!("keys:{}", j.dom.name()));
        ctx.count(if j.is_set { "container:set" } else { "container:map" });
        for op in &j.ops {
            ctx.count(&format!("op:{}", op.kind()));
        }
        ctx.count(&format!("resizes:{}", j.resizes.min(8)));
        ctx.count(match j.reuses { 0 => "slot-reuse:0", 1..=5 => "slot-reuse:1-5", _ => "slot-reuse:6+" });
        ctx.count(match j.max_live { 0..=4 => "max-live:0-4", 5..=16 => "max-live:5-16", 17..=64 => "max-live:17-64", _ => "max-live:65+" });
        ctx.count(if j.expect.ends_with("ERR:panic") { "end:panic-get-absent" } else { "end:done" });
        if imp != j.expect {
            ctx.spec_fail(format!(
                "map/set history differs from the reference dictionary ({}{}): `{}`: implementation `{}`, dictionary `{}`",
                j.dom.name(), if j.is_set { ", set" } else { "" }, req, imp, j.expect
            ));
        }
        ctx.case(req, imp);
    }
    ctx.finish();
}
