//! C37 correspondence: seeded operation histories over several live `utils::id_set::IdSet`s
//! (`IdSet<String>` and `IdSet<i64>`): insert / duplicate insert / try_get_id / contains / index /
//! len / iter / into_iter / clear / clone / drop, with the scenarios "clone, then drop or clear the
//! original, keep using the clone" forced regularly.
//!
//! Per history: one request for the Lean model `Abra.IdSet` (answers and, at `lay:h`, the buffer
//! layout and the pointer structure compared with the hook `IdSet::verif_layout`).  Independently
//! (`spec_fail`): every answer is compared with a map-plus-vector reference kept by the harness, and
//! after every mutating operation the property's pointer invariant is checked on the real addresses
//! — every pointer in `id_to_ptr` and every key of `map` lies inside the initialised part of a buffer
//! owned by the same set, the keys are exactly the `id_to_ptr` entries with their ids, and buffers of
//! different live sets do not overlap.  A history is abandoned as soon as that check fails, so the
//! harness itself never executes the use-after-free it has just detected.
use std::collections::HashMap;
use std::fmt::Debug;
use std::hash::Hash;
use std::panic::{AssertUnwindSafe, catch_unwind};
use utils::id_set::IdSet;
use vh::*;

trait Val: Hash + Eq + Clone + Debug + Default {
    fn token(&self) -> String;
    fn pool() -> Vec<Self>;
    fn parse(tok: &str) -> Self;
    const NAME: &'static str;
}
impl Val for String {
    fn token(&self) -> String {
        format!("s{}", hex(self.as_bytes()))
    }
    fn pool() -> Vec<String> {
        let mut v: Vec<String> = ["", "a", "b", "ab", "ba", "apple", "banana", "été", "日本", "a b", "x:y", "0"]
            .iter()
            .map(|s| s.to_string())
            .collect();
        v.push("long-".repeat(20));
        for i in 0..24 {
            v.push(format!("item{i}"));
        }
        v
    }
    fn parse(tok: &str) -> String {
        let h = &tok[1..];
        if h == "-" {
            return String::new();
        }
        let bytes: Vec<u8> = (0..h.len() / 2).map(|i| u8::from_str_radix(&h[2 * i..2 * i + 2], 16).unwrap()).collect();
        String::from_utf8(bytes).unwrap()
    }
    const NAME: &'static str = "String";
}
impl Val for i64 {
    fn token(&self) -> String {
        format!("{self}")
    }
    fn pool() -> Vec<i64> {
        let mut v = vec![0, 1, -1, 2, 7, i64::MAX, i64::MIN, 1 << 32, -(1 << 40), 42];
        for i in 0..24 {
            v.push(1000 + i * 37);
        }
        v
    }
    fn parse(tok: &str) -> i64 {
        tok.parse().unwrap()
    }
    const NAME: &'static str = "i64";
}

/// the reference: a vector of distinct values in insertion order plus a map value → id
#[derive(Clone)]
struct Ref<T: Val> {
    vec: Vec<T>,
    map: HashMap<T, u32>,
}
impl<T: Val> Default for Ref<T> {
    fn default() -> Self {
        Ref { vec: vec![], map: HashMap::new() }
    }
}
impl<T: Val> Ref<T> {
    fn insert(&mut self, v: T) -> u32 {
        if let Some(&i) = self.map.get(&v) {
            return i;
        }
        let i = self.vec.len() as u32;
        self.vec.push(v.clone());
        self.map.insert(v, i);
        i
    }
}

#[derive(Clone, Debug)]
enum Op<T> {
    New,
    Ins(usize, T),
    Get(usize, T),
    Has(usize, T),
    Idx(usize, u32),
    Len(usize),
    Iter(usize),
    Into(usize),
    Clear(usize),
    Clone(usize),
    Drop(usize),
    Lay(usize),
}

fn op_token<T: Val>(op: &Op<T>) -> String {
    match op {
        Op::New => "new".into(),
        Op::Ins(h, v) => format!("ins:{h}:{}", v.token()),
        Op::Get(h, v) => format!("get:{h}:{}", v.token()),
        Op::Has(h, v) => format!("has:{h}:{}", v.token()),
        Op::Idx(h, i) => format!("idx:{h}:{i}"),
        Op::Len(h) => format!("len:{h}"),
        Op::Iter(h) => format!("iter:{h}"),
        Op::Into(h) => format!("into:{h}"),
        Op::Clear(h) => format!("clear:{h}"),
        Op::Clone(h) => format!("clone:{h}"),
        Op::Drop(h) => format!("drop:{h}"),
        Op::Lay(h) => format!("lay:{h}"),
    }
}

struct Live<T: Val> {
    set: IdSet<T>,
    r: Ref<T>,
}

/// the pointer invariant of the property, on the real addresses; Err(text) when violated
fn check_layout<T: Val>(sets: &[Option<Live<T>>]) -> Result<(), String> {
    let sz = std::mem::size_of::<T>();
    let mut all_bufs: Vec<(usize, usize, usize)> = vec![]; // (set, lo, hi) of allocated ranges
    for (h, s) in sets.iter().enumerate() {
        let Some(l) = s else { continue };
        let (bufs, ids, keys) = l.set.verif_layout();
        for &(base, len, cap) in &bufs {
            if len > cap {
                return Err(format!("set {h}: buffer len {len} > capacity {cap}"));
            }
            if cap > 0 {
                all_bufs.push((h, base, base + cap * sz));
            }
        }
        let inside = |a: usize| bufs.iter().any(|&(base, len, _)| a >= base && a < base + len * sz && (a - base) % sz == 0);
        for (i, &a) in ids.iter().enumerate() {
            if !inside(a) {
                return Err(format!(
                    "set {h}: id_to_ptr[{i}] = {a:#x} does not point into the initialised part of a buffer owned by this set (own buffers: {:x?})",
                    bufs
                ));
            }
        }
        if keys.len() != ids.len() {
            return Err(format!("set {h}: map has {} keys, id_to_ptr has {} entries", keys.len(), ids.len()));
        }
        for &(a, id) in &keys {
            if !inside(a) {
                return Err(format!(
                    "set {h}: map key for id {id} = {a:#x} does not point into a buffer owned by this set (own buffers: {:x?})",
                    bufs
                ));
            }
            if ids.get(id as usize) != Some(&a) {
                return Err(format!("set {h}: map key {a:#x} carries id {id} but id_to_ptr[{id}] = {:x?}", ids.get(id as usize)));
            }
        }
    }
    for i in 0..all_bufs.len() {
        for j in i + 1..all_bufs.len() {
            let (h1, lo1, hi1) = all_bufs[i];
            let (h2, lo2, hi2) = all_bufs[j];
            if lo1 < hi2 && lo2 < hi1 {
                return Err(format!("buffers overlap: set {h1} [{lo1:#x},{hi1:#x}) and set {h2} [{lo2:#x},{hi2:#x})"));
            }
        }
    }
    Ok(())
}

fn layout_token<T: Val>(set: &IdSet<T>) -> String {
    let sz = std::mem::size_of::<T>();
    let (bufs, ids, keys) = set.verif_layout();
    let b: Vec<String> = bufs.iter().map(|&(_, len, cap)| format!("{len}/{cap}")).collect();
    let p: Vec<String> = ids
        .iter()
        .map(|&a| {
            for (k, &(base, len, _)) in bufs.iter().enumerate() {
                if a >= base && a < base + len * sz {
                    return format!("{k}:{}", (a - base) / sz);
                }
            }
            format!("x{a:x}")
        })
        .collect();
    format!("L{};{};{}", b.join(","), p.join(","), keys.len())
}

fn list_token<T: Val>(xs: impl Iterator<Item = T>) -> String {
    let v: Vec<String> = xs.map(|x| x.token()).collect();
    format!("[{}]", v.join(","))
}

fn gen_history<T: Val>(rng: &mut Rng, max_ops: usize) -> Vec<Op<T>> {
    let pool = T::pool();
    let n = 3 + rng.below(max_ops as u64 - 2) as usize;
    let small_pool = 2 + rng.below(pool.len() as u64 - 2) as usize; // how many distinct values this history uses
    let mut ops: Vec<Op<T>> = vec![Op::New];
    // live handles, tracked symbolically so every generated op is one safe Rust accepts
    let mut live: Vec<usize> = vec![0];
    let mut total = 1usize;
    let mut sizes: HashMap<usize, usize> = HashMap::new();
    sizes.insert(0, 0);
    let mut script: Vec<u8> = vec![];
    // values known to be in each set, so that lookups hit about as often as they miss
    let mut known: HashMap<usize, Vec<T>> = HashMap::new();
    known.insert(0, vec![]);
    while ops.len() < n {
        if live.is_empty() {
            ops.push(Op::New);
            live.push(total);
            sizes.insert(total, 0);
            total += 1;
            continue;
        }
        let h = *rng.pick(&live);
        let mut v = pool[rng.below(small_pool as u64) as usize].clone();
        if let Some(kn) = known.get(&h) {
            if !kn.is_empty() && rng.chance(2, 5) {
                v = rng.pick(kn).clone();
            }
        }
        // bookkeeping of `known` from the ops emitted in the previous iteration
        let before = ops.len();
        // forced scenario: clone h; drop or clear h; then use the clone
        if script.is_empty() && rng.chance(1, 14) && live.len() < 5 {
            script = vec![1, if rng.chance(1, 2) { 2 } else { 3 }, 4, 5, 6, 7];
        }
        let choice = if let Some(c) = script.first().copied() {
            script.remove(0);
            100 + c as u64
        } else {
            rng.below(100)
        };
        match choice {
            101 => {
                ops.push(Op::Clone(h));
                live.push(total);
                sizes.insert(total, sizes[&h]);
                total += 1;
                // the next scripted steps act on the original `h`: remember it by moving it last-but-one
                live.retain(|&x| x != h);
                live.insert(0, h);
            }
            102 => {
                let h0 = live[0];
                ops.push(Op::Drop(h0));
                live.remove(0);
            }
            103 => {
                let h0 = live[0];
                ops.push(Op::Clear(h0));
                sizes.insert(h0, 0);
            }
            104 => {
                let c = total - 1;
                if live.contains(&c) {
                    ops.push(Op::Get(c, v));
                }
            }
            105 => {
                let c = total - 1;
                if live.contains(&c) {
                    ops.push(Op::Ins(c, v));
                    *sizes.get_mut(&c).unwrap() += 1;
                }
            }
            106 => {
                let c = total - 1;
                if live.contains(&c) {
                    ops.push(Op::Iter(c));
                    ops.push(Op::Lay(c));
                }
            }
            107 => {
                let c = total - 1;
                if live.contains(&c) {
                    ops.push(Op::Idx(c, 0));
                }
            }
            0..=44 => {
                ops.push(Op::Ins(h, v));
                *sizes.get_mut(&h).unwrap() += 1;
            }
            45..=54 => ops.push(Op::Get(h, v)),
            55..=59 => ops.push(Op::Has(h, v)),
            60..=67 => {
                let bound = sizes[&h] as u64 + 2;
                ops.push(Op::Idx(h, rng.below(bound) as u32));
            }
            68..=71 => ops.push(Op::Len(h)),
            72..=77 => ops.push(Op::Iter(h)),
            78..=83 => ops.push(Op::Lay(h)),
            84..=89 => {
                if live.len() < 5 {
                    ops.push(Op::Clone(h));
                    live.push(total);
                    sizes.insert(total, sizes[&h]);
                    total += 1;
                }
            }
            90..=92 => {
                ops.push(Op::Drop(h));
                live.retain(|&x| x != h);
            }
            93..=95 => {
                ops.push(Op::Clear(h));
                sizes.insert(h, 0);
            }
            96..=97 => {
                ops.push(Op::Into(h));
                live.retain(|&x| x != h);
            }
            _ => {
                if live.len() < 5 {
                    ops.push(Op::New);
                    live.push(total);
                    sizes.insert(total, 0);
                    total += 1;
                }
            }
        }
        let mut follow: Vec<Op<T>> = vec![];
        for op in &ops[before..] {
            // clear() followed at once by re-insertion of the values inserted just before it: ids must restart
            // at 0 and the value must really be stored again (nothing cached across clear() may survive)
            if let Op::Clear(g) = op {
                if let Some(kn) = known.get(g) {
                    if !kn.is_empty() && rng.chance(2, 3) {
                        follow.push(Op::Ins(*g, kn[kn.len() - 1].clone()));
                        if kn.len() >= 2 && rng.chance(1, 2) {
                            follow.push(Op::Ins(*g, kn[kn.len() - 2].clone()));
                        }
                        follow.push(Op::Len(*g));
                        follow.push(Op::Idx(*g, 0));
                    }
                }
            }
            match op {
                Op::New => {
                    known.insert(total - 1, vec![]);
                }
                Op::Ins(g, x) => known.entry(*g).or_default().push(x.clone()),
                Op::Clear(g) => {
                    known.insert(*g, vec![]);
                }
                Op::Clone(g) => {
                    let c = known.get(g).cloned().unwrap_or_default();
                    known.insert(total - 1, c);
                }
                _ => {}
            }
        }
        for f in follow {
            if let Op::Ins(g, x) = &f {
                known.entry(*g).or_default().push(x.clone());
                *sizes.entry(*g).or_insert(0) += 1;
            }
            ops.push(f);
        }
    }
    // final dump of every live set
    for &h in &live {
        ops.push(Op::Iter(h));
        ops.push(Op::Lay(h));
    }
    ops
}

struct HistResult {
    req: String,
    imp: String,
    fails: Vec<String>,
    hist: Vec<&'static str>,
}

fn run_history<T: Val>(ops: &[Op<T>]) -> HistResult {
    let mut sets: Vec<Option<Live<T>>> = vec![];
    let mut req = String::from("idset");
    let mut imp: Vec<String> = vec![];
    let mut fails: Vec<String> = vec![];
    let mut hist: Vec<&'static str> = vec![];
    let mut cloned_from: HashMap<usize, usize> = HashMap::new();
    let descr = |upto: usize| -> String {
        let t: Vec<String> = ops[..upto].iter().map(op_token).collect();
        format!("IdSet<{}> history [{}]", T::NAME, t.join(" "))
    };
    for (k, op) in ops.iter().enumerate() {
        req.push(' ');
        req.push_str(&op_token(op));
        let mut mutated = false;
        let ans: String = match op {
            Op::New => {
                // `IdSet::new()` and the derived `Default` must give the same empty set
                let set = if k % 2 == 0 { IdSet::new() } else { IdSet::default() };
                sets.push(Some(Live { set, r: Ref::default() }));
                mutated = true;
                hist.push(if k % 2 == 0 { "new" } else { "new:default()" });
                format!("h{}", sets.len() - 1)
            }
            Op::Ins(h, v) => {
                let l = sets[*h].as_mut().unwrap();
                let nb0 = l.set.verif_layout().0.len();
                let known = l.r.map.contains_key(v);
                let id = l.set.insert(v.clone());
                let rid = l.r.insert(v.clone());
                if id != rid {
                    fails.push(format!("{}: insert answered id {id}, the map-plus-vector reference says {rid}", descr(k + 1)));
                }
                let nb1 = l.set.verif_layout().0.len();
                hist.push(if known { "insert:duplicate" } else { "insert:new" });
                if nb1 != nb0 {
                    hist.push(if known { "insert:duplicate+buffer-switch" } else { "insert:new+buffer-switch" });
                }
                if cloned_from.contains_key(h) {
                    hist.push("insert-into-clone");
                }
                mutated = true;
                format!("id{id}")
            }
            Op::Get(h, v) => {
                let l = sets[*h].as_ref().unwrap();
                let a = l.set.try_get_id(v);
                let r = l.r.map.get(v).copied();
                if a != r {
                    fails.push(format!("{}: try_get_id answered {a:?}, reference {r:?}", descr(k + 1)));
                }
                hist.push(if a.is_some() { "try_get_id:some" } else { "try_get_id:none" });
                // `get_id` is `try_get_id(..).unwrap()`: same id when present, a (safe) panic when absent
                let g = catch_unwind(AssertUnwindSafe(|| l.set.get_id(v))).ok();
                if g != r {
                    fails.push(format!("{}: get_id gave {g:?}, reference {r:?}", descr(k + 1)));
                }
                match a {
                    Some(i) => format!("some{i}"),
                    None => "none".into(),
                }
            }
            Op::Has(h, v) => {
                let l = sets[*h].as_ref().unwrap();
                let a = l.set.contains(v);
                if a != l.r.map.contains_key(v) {
                    fails.push(format!("{}: contains answered {a}", descr(k + 1)));
                }
                hist.push("contains");
                if a { "t".into() } else { "f".into() }
            }
            Op::Idx(h, i) => {
                let l = sets[*h].as_ref().unwrap();
                let a = catch_unwind(AssertUnwindSafe(|| l.set[*i].clone()));
                let r = l.r.vec.get(*i as usize);
                match (&a, r) {
                    (Ok(x), Some(y)) if x == y => {}
                    (Err(_), None) => {}
                    _ => fails.push(format!("{}: set[{i}] gave {:?}, reference {:?}", descr(k + 1), a.as_ref().ok(), r)),
                }
                hist.push(if a.is_ok() { "index:value" } else { "index:panic" });
                // `IndexMut`: writing back an equal value keeps the documented requirement (values are not
                // changed with respect to Hash/Eq) and must leave every answer as it was
                if let (Ok(x), true) = (&a, k % 3 == 0) {
                    let lm = sets[*h].as_mut().unwrap();
                    lm.set[*i] = x.clone();
                    hist.push("index_mut:write-back");
                    if lm.set.try_get_id(x) != Some(*i) || lm.set[*i] != *x {
                        fails.push(format!("{}: after `set[{i}] = set[{i}].clone()` the value is no longer found under id {i}", descr(k + 1)));
                    }
                }
                match a {
                    Ok(x) => format!("v{}", x.token()),
                    Err(_) => "panic".into(),
                }
            }
            Op::Len(h) => {
                let l = sets[*h].as_ref().unwrap();
                let a = l.set.len();
                if a != l.r.vec.len() || l.set.is_empty() != l.r.vec.is_empty() {
                    fails.push(format!("{}: len answered {a}, reference {}", descr(k + 1), l.r.vec.len()));
                }
                hist.push("len");
                format!("n{a}")
            }
            Op::Iter(h) => {
                let l = sets[*h].as_ref().unwrap();
                let a: Vec<T> = l.set.iter().cloned().collect();
                let b: Vec<T> = (&l.set).into_iter().cloned().collect();
                if a != l.r.vec || b != l.r.vec {
                    fails.push(format!("{}: iter gave {:?}, reference {:?}", descr(k + 1), a, l.r.vec));
                }
                // `Debug` goes through `iter()` as well
                let dbg = format!("{:?}", l.set);
                let want = format!("{{{}}}", l.r.vec.iter().map(|x| format!("{x:?}")).collect::<Vec<_>>().join(", "));
                if dbg != want {
                    fails.push(format!("{}: Debug gave {dbg}, reference {want}", descr(k + 1)));
                }
                hist.push("iter");
                list_token(a.into_iter())
            }
            Op::Into(h) => {
                let l = sets[*h].take().unwrap();
                let a: Vec<T> = l.set.into_iter().collect();
                if a != l.r.vec {
                    fails.push(format!("{}: into_iter gave {:?}, reference {:?}", descr(k + 1), a, l.r.vec));
                }
                hist.push("into_iter");
                mutated = true;
                list_token(a.into_iter())
            }
            Op::Clear(h) => {
                let l = sets[*h].as_mut().unwrap();
                l.set.clear();
                l.r = Ref::default();
                hist.push("clear");
                if cloned_from.values().any(|&o| o == *h) {
                    hist.push("clear-original-of-a-live-clone");
                }
                mutated = true;
                "u".into()
            }
            Op::Clone(h) => {
                let l = sets[*h].as_ref().unwrap();
                let c = Live { set: l.set.clone(), r: l.r.clone() };
                sets.push(Some(c));
                cloned_from.insert(sets.len() - 1, *h);
                hist.push("clone");
                mutated = true;
                format!("h{}", sets.len() - 1)
            }
            Op::Drop(h) => {
                let l = sets[*h].take().unwrap();
                drop(l);
                hist.push("drop");
                if cloned_from.iter().any(|(c, &o)| o == *h && sets[*c].is_some()) {
                    hist.push("drop-original-of-a-live-clone");
                }
                mutated = true;
                "u".into()
            }
            Op::Lay(h) => {
                hist.push("layout");
                layout_token(&sets[*h].as_ref().unwrap().set)
            }
        };
        imp.push(ans);
        if !fails.is_empty() {
            // an answer contradicts the reference: this set can no longer be trusted (it may hold a stale
            // pointer), so the history stops here and nothing is dropped
            hist.push("abandoned:answer-contradicts-reference");
            for s in sets.iter_mut() {
                if let Some(l) = s.take() {
                    std::mem::forget(l);
                }
            }
            break;
        }
        if mutated {
            if let Err(e) = check_layout(&sets) {
                fails.push(format!("{}: {e}", descr(k + 1)));
                hist.push("abandoned:pointer-invariant-broken");
                // do not go on: the next operation could dereference the dangling pointer for real
                for s in sets.iter_mut() {
                    if let Some(l) = s.take() {
                        std::mem::forget(l);
                    }
                }
                break;
            }
        }
    }
    HistResult { req, imp: imp.join(" "), fails, hist }
}

fn regression<T: Val>() -> Vec<Vec<Op<T>>> {
    let p = T::pool();
    vec![
        // D13: insert, clone, drop the original, look up in the clone
        vec![Op::New, Op::Ins(0, p[1].clone()), Op::Clone(0), Op::Drop(0), Op::Get(1, p[1].clone()), Op::Idx(1, 0), Op::Iter(1), Op::Lay(1)],
        // clone, clear the original, keep using both
        vec![
            Op::New, Op::Ins(0, p[1].clone()), Op::Ins(0, p[2].clone()), Op::Ins(0, p[3].clone()), Op::Clone(0), Op::Clear(0),
            Op::Get(1, p[2].clone()), Op::Ins(1, p[2].clone()), Op::Ins(1, p[4].clone()), Op::Ins(0, p[4].clone()), Op::Idx(1, 2),
            Op::Iter(0), Op::Iter(1), Op::Lay(0), Op::Lay(1),
        ],
        // clear, then insert the value that was inserted last before the clear: id 0 again, len 1, stored anew
        vec![
            Op::New, Op::Ins(0, p[1].clone()), Op::Ins(0, p[2].clone()), Op::Clear(0), Op::Ins(0, p[2].clone()), Op::Len(0),
            Op::Idx(0, 0), Op::Get(0, p[2].clone()), Op::Get(0, p[1].clone()), Op::Iter(0), Op::Lay(0), Op::Ins(0, p[1].clone()),
            Op::Ins(0, p[1].clone()), Op::Iter(0),
        ],
        // clone, clear the original, re-insert the last value into both
        vec![
            Op::New, Op::Ins(0, p[1].clone()), Op::Ins(0, p[2].clone()), Op::Clone(0), Op::Clear(0), Op::Ins(0, p[2].clone()),
            Op::Ins(1, p[2].clone()), Op::Len(0), Op::Len(1), Op::Iter(0), Op::Iter(1), Op::Lay(0), Op::Lay(1),
        ],
        // the same value inserted several times in a row, across a buffer switch
        vec![
            Op::New, Op::Ins(0, p[1].clone()), Op::Ins(0, p[1].clone()), Op::Ins(0, p[2].clone()), Op::Ins(0, p[2].clone()),
            Op::Ins(0, p[2].clone()), Op::Ins(0, p[3].clone()), Op::Ins(0, p[3].clone()), Op::Iter(0), Op::Lay(0),
        ],
        // duplicate insert exactly when the buffer is full (switches buffers, then pops)
        vec![
            Op::New, Op::Ins(0, p[1].clone()), Op::Ins(0, p[2].clone()), Op::Lay(0), Op::Ins(0, p[1].clone()), Op::Lay(0),
            Op::Ins(0, p[3].clone()), Op::Lay(0), Op::Iter(0),
        ],
    ]
}

fn parse_op<T: Val>(tok: &str) -> Op<T> {
    let mut p = tok.splitn(3, ':');
    let name = p.next().unwrap();
    let h: usize = p.next().map(|x| x.parse().unwrap()).unwrap_or(0);
    let rest = p.next();
    match name {
        "new" => Op::New,
        "ins" => Op::Ins(h, T::parse(rest.unwrap())),
        "get" => Op::Get(h, T::parse(rest.unwrap())),
        "has" => Op::Has(h, T::parse(rest.unwrap())),
        "idx" => Op::Idx(h, rest.unwrap().parse().unwrap()),
        "len" => Op::Len(h),
        "iter" => Op::Iter(h),
        "into" => Op::Into(h),
        "clear" => Op::Clear(h),
        "clone" => Op::Clone(h),
        "drop" => Op::Drop(h),
        "lay" => Op::Lay(h),
        x => panic!("bad op {x}"),
    }
}

/// Child process: runs the histories it reads (`<type>\t<idx>\t<op tokens>`) on the real IdSet.  A defect in the
/// set can be a real use-after-free, which may kill the process: every history is announced (`B`) before it
/// runs and its findings are flushed as soon as they are known, so the parent can name the history.
fn child() {
    use std::io::{BufRead, Write};
    std::panic::set_hook(Box::new(|_| {}));
    let stdin = std::io::stdin();
    let out = std::io::stdout();
    for line in stdin.lock().lines() {
        let line = line.unwrap();
        let mut p = line.splitn(3, '\t');
        let ty = p.next().unwrap().to_string();
        let idx: usize = p.next().unwrap().parse().unwrap();
        let toks: Vec<String> = p.next().unwrap().split(' ').map(|x| x.to_string()).collect();
        {
            let mut o = out.lock();
            writeln!(o, "B\t{idx}").unwrap();
            o.flush().unwrap();
        }
        let r = if ty == "String" {
            let ops: Vec<Op<String>> = toks.iter().map(|t| parse_op(t)).collect();
            catch_unwind(AssertUnwindSafe(|| run_history(&ops)))
        } else {
            let ops: Vec<Op<i64>> = toks.iter().map(|t| parse_op(t)).collect();
            catch_unwind(AssertUnwindSafe(|| run_history(&ops)))
        };
        let mut o = out.lock();
        match r {
            Ok(r) => {
                for f in &r.fails {
                    writeln!(o, "F\t{idx}\t{}", f.replace('\n', " ")).unwrap();
                }
                for h in &r.hist {
                    writeln!(o, "H\t{h}").unwrap();
                }
                writeln!(o, "C\t{idx}\t{}\t{}", r.req, r.imp).unwrap();
            }
            Err(e) => writeln!(o, "F\t{idx}\tIdSet<{ty}> history [{}] panicked: {}", toks.join(" "), panic_msg(e)).unwrap(),
        }
        writeln!(o, "E\t{idx}").unwrap();
        o.flush().unwrap();
    }
}

struct Hist {
    ty: &'static str,
    toks: Vec<String>,
}

fn collect<T: Val>(ctx: &mut Ctx, n: usize, max_ops: usize, out: &mut Vec<Hist>) {
    for ops in regression::<T>() {
        out.push(Hist { ty: T::NAME, toks: ops.iter().map(op_token).collect() });
    }
    for _ in 0..n {
        let ops = gen_history::<T>(&mut ctx.rng, max_ops);
        out.push(Hist { ty: T::NAME, toks: ops.iter().map(op_token).collect() });
    }
}

fn main() {
    use std::io::Write;
    if std::env::args().nth(1).as_deref() == Some("--child") {
        child();
        return;
    }
    let mut ctx = Ctx::from_env("C37");
    let (n, max_ops) = if ctx.quick() { (400, 40) } else { (6000, 160) };
    let mut hs: Vec<Hist> = vec![];
    collect::<String>(&mut ctx, n, max_ops, &mut hs);
    collect::<i64>(&mut ctx, n, max_ops, &mut hs);
    let exe = std::env::current_exe().unwrap();
    let mut next = 0usize;
    let mut deaths = 0usize;
    while next < hs.len() {
        let input: String = (next..hs.len()).map(|i| format!("{}\t{}\t{}\n", hs[i].ty, i, hs[i].toks.join(" "))).collect();
        let mut ch = std::process::Command::new(&exe)
            .arg("--child")
            .stdin(std::process::Stdio::piped())
            .stdout(std::process::Stdio::piped())
            .stderr(std::process::Stdio::null())
            .spawn()
            .expect("spawn child");
        let mut stdin = ch.stdin.take().unwrap();
        let w = std::thread::spawn(move || {
            let _ = stdin.write_all(input.as_bytes());
        });
        let outp = ch.wait_with_output().unwrap();
        let _ = w.join();
        let text = String::from_utf8_lossy(&outp.stdout).to_string();
        let mut begun: Option<usize> = None;
        let mut ended: Option<usize> = None;
        for l in text.lines() {
            let f: Vec<&str> = l.splitn(4, '\t').collect();
            match f[0] {
                "B" => begun = f[1].parse().ok(),
                "E" => ended = f[1].parse().ok(),
                "H" => ctx.count(f[1]),
                "F" => {
                    if ctx.spec_failures.len() < 100 {
                        ctx.spec_fail(f[2..].join(" "));
                    }
                    ctx.count("spec-failures");
                }
                "C" if f.len() == 4 => {
                    let i: usize = f[1].parse().unwrap_or(0);
                    ctx.case(format!("{} #{}-{}", f[2], hs[i].ty, i), f[3].to_string());
                }
                _ => {}
            }
        }
        match (begun, ended) {
            (Some(b), Some(e)) if b == e => next = b + 1,
            (Some(b), _) => {
                deaths += 1;
                if ctx.spec_failures.len() < 100 {
                    ctx.spec_fail(format!(
                        "IdSet<{}> history [{}]: the process running this history died ({}) — a safe operation sequence must not crash (use of freed memory?)",
                        hs[b].ty,
                        hs[b].toks.join(" "),
                        outp.status
                    ));
                }
                ctx.count("spec-failures");
                next = b + 1;
                if deaths >= 25 {
                    ctx.notes.push(format!("stopped after {deaths} histories killed the process; {} histories not run", hs.len() - next));
                    break;
                }
            }
            (None, _) => {
                ctx.spec_fail(format!("child produced no output: {}", outp.status));
                break;
            }
        }
        if outp.status.success() {
            break;
        }
    }
    if deaths > 0 {
        ctx.notes.push(format!("{deaths} child processes died inside a history"));
    }
    if !ctx.quick() {
        miri_stage(&mut ctx);
    }
    ctx.finish();
}

/// thorough tier: histories of the same shape under Miri (the implementation-side UB oracle)
fn miri_stage(ctx: &mut Ctx) {
    let Some(dir) = miri_crate_dir() else {
        ctx.notes.push("miri stage: driver crate missing".into());
        return;
    };
    let seed = ctx.rng.next() >> 1;
    let out = std::process::Command::new("cargo")
        .args(["+nightly", "miri", "run", "--offline", "--quiet", "--bin", "idset_miri"])
        .current_dir(&dir)
        .env("MIRIFLAGS", "-Zmiri-tree-borrows -Zmiri-disable-isolation")
        .env("VERIF_MIRI_SEED", seed.to_string())
        .env("VERIF_MIRI_CASES", "60")
        .env_remove("RUSTFLAGS")
        .output();
    match out {
        Err(e) => ctx.notes.push(format!("miri stage skipped: {e}")),
        Ok(o) => {
            let text = format!("{}{}", String::from_utf8_lossy(&o.stdout), String::from_utf8_lossy(&o.stderr));
            if o.status.success() {
                ctx.count("miri-histories-clean");
                ctx.notes.push(format!("miri: {}", text.lines().find(|l| l.contains("_miri:")).unwrap_or("")));
            } else if text.contains("Undefined Behavior") {
                let hist = text.lines().filter(|l| l.starts_with("HISTORY")).last().unwrap_or("");
                let ub = text.lines().find(|l| l.contains("Undefined Behavior")).unwrap_or("");
                ctx.spec_fail(format!("Miri reports undefined behaviour in IdSet (VERIF_MIRI_SEED={seed}): {hist} => {ub}"));
            } else {
                ctx.notes.push(format!("miri stage did not run: {}", text.lines().rev().take(3).collect::<Vec<_>>().join(" | ")));
            }
        }
    }
}

/// The Miri driver crate lives next to this crate's sources; against a scratch copy of the repository
/// (VERIF_REPO) a copy whose path dependency points at that copy is written next to the alternate harness.
fn miri_crate_dir() -> Option<std::path::PathBuf> {
    let manifest = std::path::Path::new(env!("CARGO_MANIFEST_DIR"));
    let src = std::fs::canonicalize(manifest.join("src")).ok()?;
    let real = src.parent()?.join("miri_utils");
    if !real.exists() {
        return None;
    }
    let repo = std::env::var("VERIF_REPO").unwrap_or_else(|_| "/repo".into());
    let repo = repo.trim_end_matches('/').to_string();
    let dir = if repo == "/repo" {
        real
    } else {
        let alt = manifest.join("miri_utils");
        std::fs::create_dir_all(alt.join("src/bin")).ok()?;
        for f in ["Cargo.toml", "src/lib.rs", "src/bin/arena_miri.rs", "src/bin/idset_miri.rs"] {
            let text = std::fs::read_to_string(real.join(f)).ok()?.replace("/repo/", &format!("{repo}/"));
            std::fs::write(alt.join(f), text).ok()?;
        }
        alt
    };
    let _ = std::fs::copy(format!("{repo}/Cargo.lock"), dir.join("Cargo.lock"));
    Some(dir)
}
