//! C35 correspondence: go-to-definition and hover on generated programs with nested scopes and shadowing.
//!
//! Per generated program (one or two files; functions, lambdas, blocks, match arms, for/while loops,
//! struct fields, enum variants, every import form; names drawn from a pool of nine so that shadowing is
//! the rule) and per file of it:
//! * vs the Lean model (`spantree ident|inner …`): the parsed file is rendered structurally from its derived
//!   `Debug` text (hook `verif_ast_debug`), and at EVERY byte offset 0..=len+2 the node picked by the real
//!   `find_identifier_at_offset` / `find_innermost_node_at_offset` (hooks `verif_find_*`) must be the node
//!   the model's walk picks.
//! * vs the property itself (`spec_fail`): at every byte offset of every identifier use `definition_at`
//!   must answer with the declaration the generator's own scope stack says is innermost visible there
//!   (same file, same range, text = the name); at every offset outside identifiers it must answer nothing;
//!   at every offset of every expression position the generator typed (variables, literals, operator gaps,
//!   call/array/tuple brackets, member dots, binding sites) `type_at` must print that type.
use abra_core::{check_lsp, LspAnalysisResult};
use std::panic::{AssertUnwindSafe, catch_unwind};
use std::path::Path;
use vh::*;

#[path = "../lspgen.rs"]
mod lspgen;
use lspgen::*;

struct Job {
    idx: usize,
    prog: Prog,
    /// function body blocks carry byte spans (D60 repaired): the nesting hypothesis of the hover search is claimed too
    f6_fixed: bool,
}

#[derive(Default)]
struct Out {
    cases: Vec<(String, String)>,
    spec: Vec<String>,
    counts: Vec<(String, u64)>,
    rejected: Option<String>,
}

fn analyze(prog: &Prog) -> LspAnalysisResult {
    let extra: Vec<(String, String)> = prog.files.iter().skip(1).map(|f| (format!("{}.abra", f.name), f.src.clone())).collect();
    check_lsp("main.abra", provider(&prog.files[0].src, &extra))
}

fn render_ids(v: &[Option<(u32, usize, usize)>]) -> String {
    let mut s = String::from("ok ");
    for (i, x) in v.iter().enumerate() {
        if i > 0 {
            s.push(',');
        }
        match x {
            Some((id, _, _)) => s.push_str(&id.to_string()),
            None => s.push('-'),
        }
    }
    s
}

fn show_prog(prog: &Prog) -> String {
    prog.files.iter().map(|f| format!("--- {}.abra ---\n{}", f.name, f.src)).collect::<Vec<_>>().join("\n")
}

fn run(job: &Job) -> Out {
    let mut out = Out::default();
    let prog = &job.prog;
    let mut bump = |out: &mut Out, k: &str, n: u64| {
        if let Some(e) = out.counts.iter_mut().find(|e| e.0 == k) {
            e.1 += n;
        } else {
            out.counts.push((k.to_string(), n));
        }
    };
    let a = match catch_unwind(AssertUnwindSafe(|| analyze(prog))) {
        Ok(a) => a,
        Err(p) => {
            out.spec.push(format!("check_lsp panics ({}) on\n{}", panic_msg(p), show_prog(prog)));
            return out;
        }
    };
    let errs = a.errors();
    if !errs.is_empty() {
        out.rejected = Some(format!("{} @{:?} in\n{}", errs[0].message, errs[0].range, show_prog(prog)));
    }
    let prelude = abra_core::PRELUDE;
    for (fi, f) in prog.files.iter().enumerate() {
        let fid = if fi == 0 { 0 } else { match a.file_id_for_path(Path::new(&format!("{}.abra", f.name))) { Some(x) => x, None => continue } };
        let len = f.src.len();
        // ---- model correspondence: every offset, both searches
        let dbg = a.verif_ast_debug(fid).unwrap_or_default();
        let mut tree = String::new();
        let mut var_ids = std::collections::HashSet::new();
        match parse_debug(&dbg) {
            Some(dv) => {
                variable_ids(&dv, &mut var_ids);
                let n = render_tree(&dv, &mut tree);
                bump(&mut out, "ast-nodes", n as u64);
            }
            None => {
                out.spec.push(format!("harness: cannot parse the Debug text of {}.abra of\n{}", f.name, show_prog(prog)));
                continue;
            }
        }
        let maxoff = len + 2;
        let r = catch_unwind(AssertUnwindSafe(|| {
            let idents: Vec<_> = (0..=maxoff).map(|o| a.verif_find_identifier(fid, o)).collect();
            let inners: Vec<_> = (0..=maxoff).map(|o| a.verif_find_innermost(fid, o)).collect();
            (idents, inners)
        }));
        let (idents, inners) = match r {
            Ok(x) => x,
            Err(p) => {
                out.spec.push(format!("offset search panics ({}) on {}.abra of\n{}", panic_msg(p), f.name, show_prog(prog)));
                continue;
            }
        };
        out.cases.push((format!("spantree ident {maxoff} {tree}#p{} {}", job.idx, f.name), render_ids(&idents)));
        out.cases.push((format!("spantree inner {maxoff} {tree}#p{} {}", job.idx, f.name), render_ids(&inners)));
        // the hypotheses of the search theorems (children inside their parents' ranges, arms disjoint from
        // later arms, identifier spans pairwise disjoint) are claimed for every parsed file; the model decides them
        out.cases.push((format!("spantree wf 0 {tree}#p{} {}", job.idx, f.name), "wf nested=1 cut=1 unique=1".to_string()));
        if job.f6_fixed {
            out.cases.push((format!("spantree wfi 0 {tree}#p{} {}", job.idx, f.name), "wfi inner=1".to_string()));
        }
        bump(&mut out, "search:ident-some", idents.iter().filter(|x| x.is_some()).count() as u64);
        bump(&mut out, "search:ident-none", idents.iter().filter(|x| x.is_none()).count() as u64);
        bump(&mut out, "search:inner-some", inners.iter().filter(|x| x.is_some()).count() as u64);
        bump(&mut out, "search:inner-none", inners.iter().filter(|x| x.is_none()).count() as u64);
        // the node returned must contain the offset (direct statement of `…_sound` on the real answer)
        // (the identifier search may answer with an identifier for an offset next to it: `.Variant` answers
        // with `Variant` on its dot — the model has that; counted, not a failure)
        for (o, x) in inners.iter().enumerate() {
            if let Some((id, lo, hi)) = x {
                if !(*lo <= o && o < *hi) && out.spec.len() < 3 {
                    out.spec.push(format!("hover search at {o} of {}.abra returns node {id} with range {lo}..{hi} that does not contain the offset; program\n{}", f.name, show_prog(prog)));
                }
            }
        }
        // agreement: wherever hover lands on an identifier expression, the go-to-definition search lands on the same node
        let mut disagree = 0;
        for o in 0..=maxoff {
            if let Some((hid, lo, hi)) = inners[o] {
                if var_ids.contains(&(hid as usize)) {
                    bump(&mut out, "agree:hover-on-identifier", 1);
                    if idents[o].map(|x| x.0) != Some(hid) {
                        disagree += 1;
                        if disagree <= 2 {
                            out.spec.push(format!(
                                "at byte offset {o} of {}.abra hover lands on the identifier `{}` ({lo}..{hi}) but the go-to-definition search returns {:?}; program\n{}",
                                f.name, f.src.get(lo..hi).unwrap_or("?"), idents[o], show_prog(prog)
                            ));
                        }
                    }
                }
            }
        }
        let outside = idents.iter().enumerate().filter(|(o, x)| matches!(x, Some((_, lo, hi)) if !(*lo <= *o && *o < *hi))).count();
        bump(&mut out, "search:ident-answer-for-adjacent-offset", outside as u64);
        if out.rejected.is_some() {
            continue;
        }
        // ---- the property: definition_at / type_at against the generator's own knowledge
        let mut occ_at: Vec<Option<usize>> = vec![None; len + 3];
        for (k, o) in f.occs.iter().enumerate() {
            for p in o.lo..o.hi {
                occ_at[p] = Some(k);
            }
        }
        let mut fails = 0;
        for off in 0..=maxoff {
            let d = a.definition_at(fid, off);
            match occ_at[off].map(|k| &f.occs[k]) {
                None if prog.lenient => bump(&mut out, "def:witness-unlisted", 1),
                None => {
                    bump(&mut out, "def:outside-identifier", 1);
                    if let Some(d) = d {
                        fails += 1;
                        if fails <= 2 {
                            out.spec.push(format!("definition_at({}.abra, {off}) = file {} {:?} but offset {off} is not on an identifier; program\n{}", f.name, d.file_id, d.range, show_prog(prog)));
                        }
                    }
                }
                Some(o) => match &o.decl {
                    None => bump(&mut out, &format!("def:unconstrained:{}", o.what), 1),
                    Some(dr) => {
                        bump(&mut out, &format!("def:{}", o.what), 1);
                        let ok = match &d {
                            None => false,
                            Some(d) => {
                                if dr.file == PRELUDE_FILE {
                                    d.file_id == 1 && prelude.get(d.range.clone()) == Some(o.name.as_str())
                                } else {
                                    let want_fid = if dr.file == 0 { Some(0) } else { a.file_id_for_path(Path::new(&format!("{}.abra", prog.files[dr.file].name))) };
                                    let text = prog.files[dr.file].src.get(d.range.clone()).unwrap_or("");
                                    Some(d.file_id) == want_fid
                                        && d.range.start == dr.lo
                                        && d.range.end == dr.hi
                                        && (if dr.variant { text.starts_with(o.name.as_str()) } else { text == o.name })
                                }
                            }
                        };
                        if !ok {
                            fails += 1;
                            if fails <= 2 {
                                let got = match &d {
                                    None => "nothing".to_string(),
                                    Some(d) => format!("file {} {:?}", d.file_id, d.range),
                                };
                                let want = if dr.file == PRELUDE_FILE { "the prelude's declaration".to_string() } else { format!("{}.abra {}..{}", prog.files[dr.file].name, dr.lo, dr.hi) };
                                out.spec.push(format!(
                                    "definition_at({}.abra, {off}) on `{}` ({}) = {got}, but the innermost visible declaration is {want}; program\n{}",
                                    f.name, o.name, o.what, show_prog(prog)
                                ));
                            }
                        }
                    }
                },
            }
        }
        for p in &f.probes {
            if p.ty == NO_TYPE && !job.f6_fixed {
                // D60: the body block's span swallows the header until the fix lands
                continue;
            }
            for off in p.lo..p.hi {
                bump(&mut out, &format!("type:{}", p.what), 1);
                let t = a.type_at(fid, off);
                let want = if p.ty == NO_TYPE { None } else { Some(p.ty.as_str()) };
                if t.as_deref() != want {
                    fails += 1;
                    if fails <= 2 {
                        out.spec.push(format!(
                            "type_at({}.abra, {off}) = {:?} but the {} there has type `{}`; program\n{}",
                            f.name, t, p.what, p.ty, show_prog(prog)
                        ));
                    }
                }
            }
        }
    }
    out
}

#[derive(Clone, Copy)]
enum Expect {
    /// the n-th occurrence of this text in the same file is the declaration
    Decl(&'static str, usize),
    /// a declaration of the prelude with this name
    Prelude(&'static str),
}

fn nth_find(src: &str, needle: &str, n: usize) -> usize {
    let mut from = 0;
    for _ in 0..n {
        from += src[from..].find(needle).expect("witness needle") + needle.len();
    }
    from + src[from..].find(needle).expect("witness needle")
}

/// Hand-written programs for the constructs of `lsp_helper.rs` that no generated program contains (coverage
/// analysis 2026-09-22: constraint arguments in parameter annotations, interface definitions with output types,
/// constraints on type parameters of type definitions, struct names in `for` patterns, qualified variant patterns,
/// interface methods): every-offset model correspondence like any generated file, plus the listed go-to-definition
/// answers at every byte of the listed occurrence.
fn witnesses() -> Vec<Prog> {
    use Expect::*;
    let ws: Vec<(&str, &str, Vec<(&str, usize, Expect)>, Vec<(&str, usize, &str)>)> = vec![
        ("constraint-args-in-parameter", "fn f(it: T Iterator<IteratorItem=int>) -> int { 1 }\nfn g(xs: T Iterable<IterableItem=string>, k: U Ord) -> int { 2 }\n",
         vec![("Iterator", 0, Prelude("Iterator")), ("IteratorItem", 0, Prelude("IteratorItem")), ("Iterable", 0, Prelude("Iterable")),
              ("IterableItem", 0, Prelude("IterableItem")), ("Ord", 0, Prelude("Ord")), ("T", 0, Decl("T", 0))],
         vec![("1", 0, "int")]),
        ("interface-with-output-types", "interface It3 {\n    outputtype Item3\n    outputtype Iter3 impl Iterator<IteratorItem=Item3>\n    fn mk(self) -> Iter3\n    fn first(self, d: Item3) -> Item3\n}\n",
         vec![("Iterator", 0, Prelude("Iterator")), ("IteratorItem", 0, Prelude("IteratorItem")), ("Item3", 1, Decl("Item3", 0)), ("Iter3", 1, Decl("Iter3", 0)),
              ("Item3", 2, Decl("Item3", 0)), ("Item3", 3, Decl("Item3", 0))],
         vec![]),
        ("constraints-on-type-parameters", "type Bx<T Ord> = { v: T }\ntype By<U Iterator<IteratorItem=int>> = { w: U }\ntype Ez<V Ord Hash> = Lf | Nd(V)\nlet b = Bx(1)\n",
         vec![("Ord", 0, Prelude("Ord")), ("T", 1, Decl("T", 0)), ("Iterator", 0, Prelude("Iterator")), ("IteratorItem", 0, Prelude("IteratorItem")), ("U", 1, Decl("U", 0)),
              ("Ord", 1, Prelude("Ord")), ("Hash", 0, Prelude("Hash")), ("V", 1, Decl("V", 0)), ("Bx", 1, Decl("Bx", 0))],
         vec![("1", 0, "int")]),
        ("struct-name-in-for-pattern", "type Pt = { x: int, y: int }\nfor Pt(a, b) in [Pt(1, 2)] { println(a + b) }\nlet Pt(c, d) = Pt(3, 4)\nprintln(c)\n",
         vec![("Pt", 1, Decl("Pt", 0)), ("Pt", 2, Decl("Pt", 0)), ("a", 1, Decl("a", 0)), ("b", 1, Decl("b", 0)), ("Pt", 3, Decl("Pt", 0)), ("Pt", 4, Decl("Pt", 0)), ("c", 1, Decl("c", 0))],
         vec![("a + b", 0, "int"), ("1", 0, "int")]),
        ("qualified-variant-pattern", "type Cl = Rd | Gn(int)\nlet r = match Cl.Rd {\n  Cl.Rd -> 1\n  Cl.Gn(k) -> k\n}\n",
         // D106: the qualifier of an arm pattern answers the enum (the pattern's span covers `Cl.Rd`)
         vec![("Cl", 1, Decl("Cl", 0)), ("Cl", 2, Decl("Cl", 0)), ("Cl", 3, Decl("Cl", 0)), ("Rd", 1, Decl("Rd", 0)), ("Rd", 2, Decl("Rd", 0)), ("k", 1, Decl("k", 0))],
         vec![("k", 1, "int")]),
        ("interface-method-and-impl", "interface It2 {\n  outputtype Item2\n  fn nxt(self) -> Item2\n}\nimplement It2 for int {\n  fn nxt(self) -> string { \"s\" }\n}\nlet q = It2.nxt(1)\n",
         vec![("Item2", 1, Decl("Item2", 0)), ("It2", 1, Decl("It2", 0))],
         vec![("\"s\"", 0, "string"), ("q", 0, "string")]),
    ];
    let mut v = vec![];
    for (name, src, defs, types) in ws {
        let mut f = FileOut { name: "main".into(), src: src.to_string(), ..Default::default() };
        for (needle, nth, e) in defs {
            let lo = nth_find(src, needle, nth);
            let decl = match e {
                Prelude(_) => DeclRef { file: PRELUDE_FILE, lo: 0, hi: 0, variant: false },
                Decl(d, k) => {
                    let dl = nth_find(src, d, k);
                    // an enum variant's definition range is the whole variant
                    let mut dh = dl + d.len();
                    let variant = src[..dl].lines().last().map(|l| l.contains(" = ") && (l.contains('|') || src[dh..].trim_start().starts_with('|') || src[dh..].starts_with('('))).unwrap_or(false)
                        && !src[..dl].ends_with("type ") && !src[..dl].ends_with('<');
                    if variant && src[dh..].starts_with('(') {
                        dh += src[dh..].find(')').unwrap() + 1;
                    }
                    DeclRef { file: 0, lo: dl, hi: dh, variant }
                }
            };
            let nm = match e { Prelude(n) => n, Decl(..) => needle };
            f.occs.push(Occ { lo, hi: lo + needle.len(), name: nm.to_string(), decl: Some(decl), what: "witness-use" });
        }
        for (needle, nth, ty) in types {
            let lo = nth_find(src, needle, nth);
            f.probes.push(TyProbe { lo, hi: lo + needle.len(), ty: ty.to_string(), what: "witness-hover" });
        }
        let _ = name;
        v.push(Prog { files: vec![f], feats: vec!["witness"], lenient: true });
    }
    v
}

/// does the implementation answer inside a task block (D45 repaired)?
fn probe_task() -> bool {
    catch_unwind(|| {
        let a = check_lsp("main.abra", provider("let q = 1\ntask {\n  println(q)\n}\n", &[]));
        let _ = a.definition_at(0, 27);
        let _ = a.type_at(0, 27);
    })
    .is_ok()
}

/// are ranges after non-ASCII text byte offsets (D12 repaired)?
fn probe_d12() -> bool {
    catch_unwind(|| {
        let src = "let s = \"é日\"\nlet y = 1\nprintln(y)\n";
        let a = check_lsp("main.abra", provider(src, &[]));
        let off = src.rfind('y').unwrap();
        let decl = src.find("y =").unwrap();
        matches!(a.definition_at(0, off), Some(d) if d.range == (decl..decl + 1))
    })
    .unwrap_or(false)
}

/// does a function body block start where its `{` is (D60 repaired: parse_func_def used the token index as byte offset)?
fn probe_f6() -> bool {
    catch_unwind(|| {
        let src = "// a comment line to push offsets up\nfn f(a: string) -> int {\n  let x = 1\n}\n";
        let a = check_lsp("main.abra", provider(src, &[]));
        let brace = src.find('{').unwrap();
        a.errors().iter().all(|e| e.range.start >= brace || e.range.start >= src.find("fn").unwrap())
            && a.type_at(0, src.find("fn").unwrap()).is_none()
    })
    .unwrap_or(false)
}

fn main() {
    let mut ctx = Ctx::from_env("C35");
    // D45 / D12 / D60 have landed: their probes are hard regression inputs, and the shapes are always in the stream
    if !probe_task() {
        ctx.spec_fail("regression of D45: definition_at / type_at panic inside a task block: \"let q = 1\\ntask {\\n  println(q)\\n}\\n\" at offset 27".to_string());
    }
    if !probe_d12() {
        ctx.spec_fail("regression of D12: definition_at after non-ASCII text does not return the byte range of the declaration: \"let s = \\\"é日\\\"\\nlet y = 1\\nprintln(y)\\n\"".to_string());
    }
    if !probe_f6() {
        ctx.spec_fail("regression of D60: a function body block's span does not start at its brace (diagnostic range / hover on the header): \"// a comment line to push offsets up\\nfn f(a: string) -> int {\\n  let x = 1\\n}\\n\"".to_string());
    }
    let f6_fixed = true;
    let opts = Opts { task_blocks: true, non_ascii: true };
    let n = if ctx.quick() { 500 } else { 6000 };
    let mut jobs = vec![];
    for idx in 0..n {
        let seed = ctx.rng.next();
        let mut rng = Rng::new(seed);
        let prog = Gen::new(&mut rng, &opts).program();
        jobs.push(Job { idx, prog, f6_fixed });
    }
    for (k, prog) in witnesses().into_iter().enumerate() {
        jobs.push(Job { idx: 100000 + k, prog, f6_fixed });
    }
    let outs = par_map(&jobs, run);
    let mut rejected = 0;
    for (j, o) in jobs.iter().zip(outs) {
        for f in &j.prog.feats {
            ctx.count(&format!("gen:{f}"));
        }
        ctx.count("programs");
        ctx.count(&format!("files:{}", j.prog.files.len()));
        for (k, n) in &o.counts {
            *ctx.hist.entry(k.clone()).or_insert(0) += n;
        }
        if let Some(r) = &o.rejected {
            rejected += 1;
            if rejected <= 3 {
                ctx.notes.push(format!("generated program not accepted (searches still compared): {r}"));
            }
        }
        for s in o.spec.into_iter().take(3) {
            if ctx.spec_failures.len() < 12 {
                ctx.spec_fail(s);
            } else {
                ctx.count("spec-failures-not-listed");
            }
        }
        for (req, imp) in o.cases {
            ctx.case(req, imp);
        }
    }
    ctx.notes.push(format!("programs={} not accepted by the checker (excluded from the definition/type checks)={}", jobs.len(), rejected));
    *ctx.hist.entry("programs-rejected".into()).or_insert(0) += rejected;
    ctx.finish();
}
