//! C05 correspondence.
//!  (1) model tie: for every program of the corpus (raw string literals of
//!      /repo/abra_core/tests/integration/e2e_bytecode.rs, read from the current tree) and of a typed
//!      generator aimed at every peephole rule, the real assembly before `optimize` (hook
//!      `verif_asm::start_optimize_trace`) is given to the Lean model `Opt.optimize` / `Opt.pass` and the
//!      result must equal the real optimized assembly line for line (instructions AND annotations);
//!  (2) oracle on/off: every program is executed with the optimizer on and off
//!      (`verif_asm::set_skip_optimize`); output, final value and error (kind + message) must agree;
//!  (3) oracle literal/variable: every int arithmetic/comparison operator on the boundary grid of c15 and
//!      every float operator on a boundary set (±0, subnormals, 2^53±1, ±MAX, ±inf, NaN), in the operand
//!      forms variable/variable, literal/literal (constant folded), variable/literal (`*Imm`),
//!      literal/variable, compound assignment; all forms must give the same result or the same error.
//! (2) and (3) are implementation-vs-implementation statements of the property (`spec_fail`).
use abra_core::vm::Runtime;
use std::collections::BTreeSet;
use vh::*;

// ------------------------------------------------------------------ running
#[derive(Clone, Debug, PartialEq)]
struct Canon {
    /// "done" | "error:<first line of VmError>" | "rejected" | "crash:<msg>" | "timeout"
    status: String,
    out: String,
    /// rendering of the value left on top of main's stack after `Done` ("-" otherwise)
    top: String,
}

fn render_top(rt: &Runtime) -> String {
    let r = std::panic::catch_unwind(std::panic::AssertUnwindSafe(|| {
        let v = rt.top();
        let d = format!("{v:?}");
        if d.ends_with(", Int)") || d.ends_with(", Float)") || d.ends_with(", Bool)") {
            d
        } else if d.ends_with(", String)") {
            format!("String({:?})", v.view_string(rt.main()))
        } else {
            // a pointer: only the tag is comparable between runs
            d.rsplit(", ").next().unwrap_or("?").trim_end_matches(')').to_string()
        }
    }));
    r.unwrap_or_else(|_| "empty".into())
}

fn run_rt(mut rt: Runtime) -> Canon {
    let mut out = String::new();
    let opts = RunOpts { max_steps: 2_000_000, ..Default::default() };
    let r = std::panic::catch_unwind(std::panic::AssertUnwindSafe(|| drive(&mut rt, &opts, &mut out)));
    match r {
        Ok((Outcome::Done, _, _)) => {
            let top = render_top(&rt);
            Canon { status: "done".into(), out, top }
        }
        Ok((Outcome::Error(_), text, _)) => {
            Canon { status: format!("error:{}", text.lines().next().unwrap_or("")), out, top: "-".into() }
        }
        Ok((o, _, _)) => Canon { status: o.tag(), out, top: "-".into() },
        Err(p) => {
            std::mem::forget(rt);
            Canon { status: format!("crash:{}", panic_msg(p)), out, top: "-".into() }
        }
    }
}

fn run_canon(src: &str, skip: bool) -> Canon {
    abra_core::verif_asm::set_skip_optimize(skip);
    let r = std::panic::catch_unwind(std::panic::AssertUnwindSafe(|| {
        match abra_core::compile_bytecode("main.abra", provider(src, &[])) {
            Ok(p) => run_rt(Runtime::new(p)),
            Err(_) => Canon { status: "rejected".into(), out: String::new(), top: "-".into() },
        }
    }));
    abra_core::verif_asm::set_skip_optimize(false);
    r.unwrap_or_else(|p| Canon { status: format!("crash:{}", panic_msg(p)), out: String::new(), top: "-".into() })
}

/// optimizer on, one compilation: the outcome, the optimizer trace and the compiled program's dump
fn run_traced(src: &str) -> (Canon, Option<Dump>, Option<abra_core::verif_asm::ProgramDump>) {
    let r = std::panic::catch_unwind(std::panic::AssertUnwindSafe(|| {
        abra_core::verif_asm::start_optimize_trace();
        let p = abra_core::compile_bytecode("main.abra", provider(src, &[]));
        let tr = abra_core::verif_asm::take_optimize_trace();
        match p {
            Ok(p) => {
                let d = abra_core::verif_asm::dump_program(&p);
                (run_rt(Runtime::new(p)), Some(Dump { trace: tr }), Some(d))
            }
            Err(_) => (Canon { status: "rejected".into(), out: String::new(), top: "-".into() }, None, None),
        }
    }));
    match r {
        Ok(x) => x,
        Err(p) => {
            let _ = abra_core::verif_asm::take_optimize_trace();
            (Canon { status: format!("crash:{}", panic_msg(p)), out: String::new(), top: "-".into() }, None, None)
        }
    }
}

// ------------------------------------------------------------------ assembly tokens
/// Debug text of an instruction → one word: blanks removed, quoted payloads as `$<hex>`.
fn compact_instr(d: &str) -> String {
    let b = d.as_bytes();
    let mut o = String::new();
    let mut i = 0;
    while i < b.len() {
        let c = b[i];
        if c == b'"' {
            let mut j = i + 1;
            let mut raw = vec![];
            while j < b.len() && b[j] != b'"' {
                if b[j] == b'\\' && j + 1 < b.len() {
                    raw.push(b[j]);
                    j += 1;
                }
                raw.push(b[j]);
                j += 1;
            }
            o.push('$');
            if !raw.is_empty() {
                o.push_str(&hex(&raw));
            }
            i = j + 1;
        } else if c == b' ' {
            i += 1;
        } else {
            o.push(c as char);
            i += 1;
        }
    }
    o
}

fn token_of_line(l: &str) -> String {
    if let Some(lbl) = l.strip_prefix("L ") {
        format!("L:${}", hex(lbl.as_bytes()))
    } else {
        let w: Vec<&str> = l.splitn(5, ' ').collect();
        format!("I:{}:{}:{}:{}", w[1], w[2], w[3], compact_instr(w[4]))
    }
}

fn instr_text(l: &str) -> Option<&str> {
    if l.starts_with("I ") { l.splitn(5, ' ').nth(4) } else { None }
}

fn quoted(d: &str) -> Option<&str> {
    let a = d.find('"')?;
    let b = d.rfind('"')?;
    if b > a { Some(&d[a + 1..b]) } else { None }
}

fn lit_token(s: &str) -> String {
    if s.is_empty() { "$".into() } else { format!("${}", hex(s.as_bytes())) }
}

/// fold table for one pass input: every adjacent PushFloat, PushFloat, <arith>Float(Top, Top, Top)
fn fold_table(lines: &[String], acc: &mut BTreeSet<String>) {
    for w in lines.windows(3) {
        let (Some(a), Some(b), Some(c)) = (instr_text(&w[0]), instr_text(&w[1]), instr_text(&w[2])) else { continue };
        if !(a.starts_with("PushFloat(") && b.starts_with("PushFloat(")) {
            continue;
        }
        let op = match c {
            "AddFloat(Top, Top, Top)" => "add",
            "SubFloat(Top, Top, Top)" => "sub",
            "MulFloat(Top, Top, Top)" => "mul",
            "DivFloat(Top, Top, Top)" => "div",
            "PowFloat(Top, Top, Top)" => "pow",
            _ => continue,
        };
        let (Some(sa), Some(sb)) = (quoted(a), quoted(b)) else { continue };
        let (Ok(x), Ok(y)) = (sa.parse::<f64>(), sb.parse::<f64>()) else { continue };
        if y == 0.0 {
            acc.insert(format!("Z:{}", lit_token(sb)));
        }
        let r = match op {
            "add" => x + y,
            "sub" => x - y,
            "mul" => x * y,
            "div" => x / y,
            _ => x.powf(y),
        };
        let c = if r.is_nan() { "NAN".to_string() } else { lit_token(&r.to_string()) };
        acc.insert(format!("F:{op}:{}:{}:{c}", lit_token(sa), lit_token(sb)));
    }
}

struct Dump {
    /// trace[0] = before, … , last = optimized
    trace: Vec<Vec<String>>,
}

fn dump(src: &str) -> Option<Dump> {
    let r = std::panic::catch_unwind(std::panic::AssertUnwindSafe(|| {
        abra_core::verif_asm::start_optimize_trace();
        let p = abra_core::compile_bytecode("main.abra", provider(src, &[]));
        let tr = abra_core::verif_asm::take_optimize_trace();
        p.ok().map(|_| Dump { trace: tr })
    }));
    match r {
        Ok(d) => d,
        Err(_) => {
            let _ = abra_core::verif_asm::take_optimize_trace();
            None
        }
    }
}

/// does the program end in an expression statement (so that its value is left on the stack)?
fn ends_with_value(src: &str) -> bool {
    let Some(last) = src.lines().map(|l| l.trim()).filter(|l| !l.is_empty()).last() else { return false };
    const NOT: [&str; 20] = ["println", "print(", "assert", "let ", "var ", "fn ", "type ", "use ", "}", "//", "if ", "while ",
        "for ", "match ", "break", "continue", "return", "eprint", "implement", "extend"];
    let paren = last.starts_with('(');
    if NOT.iter().any(|k| last.starts_with(k)) || last.ends_with('{') || (last.ends_with(')') && !paren) {
        // a trailing call may be void; only operator/identifier/literal/index/field expressions are trusted
        return false;
    }
    let stripped = last.replace("==", "").replace("<=", "").replace(">=", "").replace("!=", "");
    !stripped.contains('=')
}

// ------------------------------------------------------------------ corpus
fn corpus() -> Vec<String> {
    let text = std::fs::read_to_string("/repo/abra_core/tests/integration/e2e_bytecode.rs").unwrap_or_default();
    let mut v = vec![];
    let mut rest = text.as_str();
    while let Some(a) = rest.find("r#\"") {
        let after = &rest[a + 3..];
        let Some(b) = after.find("\"#") else { break };
        v.push(after[..b].to_string());
        rest = &after[b + 2..];
    }
    v
}

// ------------------------------------------------------------------ generator
const INT_POOL: [i64; 16] =
    [0, 1, -1, 2, 3, 7, 10, 63, 64, 100, 2147483647, 4294967296, 3037000500, i64::MAX, i64::MAX - 1, i64::MIN + 1];

fn int_lit(n: i64) -> String {
    if n < 0 { format!("({n})") } else { format!("{n}") }
}

fn float_lit(x: f64) -> String {
    let s = x.abs().to_string();
    let s = if s.contains('.') { s } else { format!("{s}.0") };
    if x.is_sign_negative() { format!("(-{s})") } else { s }
}

struct PG<'a> {
    rng: &'a mut Rng,
    ints: Vec<String>,
    mut_ints: Vec<String>,
    floats: Vec<String>,
    mut_floats: Vec<String>,
    bools: Vec<String>,
    arrs: Vec<String>,
    has_struct: bool,
    uid: usize,
    lines: Vec<String>,
}

impl<'a> PG<'a> {
    fn fresh(&mut self, p: &str) -> String {
        self.uid += 1;
        format!("{p}{}", self.uid)
    }
    fn int_expr(&mut self, d: u32) -> String {
        let c = self.rng.below(if d == 0 { 3 } else { 12 });
        match c {
            0 => int_lit(*self.rng.pick(&INT_POOL)),
            1 => int_lit(self.rng.range(-20, 20)),
            2 => {
                if self.ints.is_empty() { int_lit(self.rng.range(0, 9)) } else { self.rng.pick(&self.ints).clone() }
            }
            3..=6 => {
                let op = *self.rng.pick(&["+", "-", "*", "/", "%", "+", "-", "*"]);
                format!("({} {op} {})", self.int_expr(d - 1), self.int_expr(d - 1))
            }
            7 => format!("({} ^ {})", self.int_expr(d - 1), self.rng.range(0, 5)),
            8 => {
                if self.arrs.is_empty() {
                    self.int_expr(d - 1)
                } else {
                    let a = self.rng.pick(&self.arrs).clone();
                    if self.rng.chance(1, 3) { format!("{a}.len()") } else { format!("{a}[{}]", self.small_index(d - 1)) }
                }
            }
            9 => {
                if self.has_struct { "pt.x".into() } else { self.int_expr(d - 1) }
            }
            10 => format!("(if {} {{ {} }} else {{ {} }})", self.bool_expr(d - 1), self.int_expr(d - 1), self.int_expr(d - 1)),
            _ => format!("(-{})", self.int_expr(d - 1)),
        }
    }
    fn small_index(&mut self, d: u32) -> String {
        match self.rng.below(4) {
            0 => "0".into(),
            1 => format!("{}", self.rng.range(0, 3)),
            2 if !self.ints.is_empty() => format!("({} % 3)", self.rng.pick(&self.ints).clone()),
            _ => {
                if d == 0 { "1".into() } else { format!("({} % 4)", self.int_expr(d - 1)) }
            }
        }
    }
    fn float_expr(&mut self, d: u32) -> String {
        const FP: [f64; 12] = [0.0, 1.0, 1.5, 2.0, 0.5, -1.0, -0.0, 3.25, 100.0, 1e300, 1e-300, 9007199254740993.0];
        let c = self.rng.below(if d == 0 { 2 } else { 8 });
        match c {
            0 => float_lit(*self.rng.pick(&FP)),
            1 => {
                if self.floats.is_empty() { float_lit(2.5) } else { self.rng.pick(&self.floats).clone() }
            }
            2..=5 => {
                let op = *self.rng.pick(&["+", "-", "*", "/", "+", "*", "^"]);
                format!("({} {op} {})", self.float_expr(d - 1), self.float_expr(d - 1))
            }
            6 => {
                if self.has_struct { "pt.y".into() } else { self.float_expr(d - 1) }
            }
            _ => format!("sqrt({})", self.float_expr(d - 1)),
        }
    }
    fn bool_expr(&mut self, d: u32) -> String {
        let c = self.rng.below(if d == 0 { 3 } else { 9 });
        match c {
            0 => "true".into(),
            1 => "false".into(),
            2 => {
                if self.bools.is_empty() { "true".into() } else { self.rng.pick(&self.bools).clone() }
            }
            3 | 4 => {
                let op = *self.rng.pick(&["<", "<=", ">", ">=", "=="]);
                format!("({} {op} {})", self.int_expr(d - 1), self.int_expr(d - 1))
            }
            5 => {
                let op = *self.rng.pick(&["<", "<=", ">", ">=", "=="]);
                format!("({} {op} {})", self.float_expr(d - 1), self.float_expr(d - 1))
            }
            6 => format!("(not {})", self.bool_expr(d - 1)),
            7 => format!("({} and {})", self.bool_expr(d - 1), self.bool_expr(d - 1)),
            _ => format!("({} or {})", self.bool_expr(d - 1), self.bool_expr(d - 1)),
        }
    }
    fn stmt(&mut self, ind: &str, depth: u32) {
        let c = self.rng.below(if depth == 0 { 14 } else { 18 });
        match c {
            0 => {
                let v = self.fresh("i");
                let e = self.int_expr(2);
                self.lines.push(format!("{ind}let {v} = {e}"));
                self.ints.push(v);
            }
            1 => {
                let v = self.fresh("m");
                let e = self.int_expr(1);
                self.lines.push(format!("{ind}var {v} = {e}"));
                self.ints.push(v.clone());
                self.mut_ints.push(v);
            }
            2 => {
                let v = self.fresh("f");
                let e = self.float_expr(2);
                self.lines.push(format!("{ind}let {v} = {e}"));
                self.floats.push(v);
            }
            3 => {
                let v = self.fresh("g");
                let e = self.float_expr(1);
                self.lines.push(format!("{ind}var {v} = {e}"));
                self.floats.push(v.clone());
                self.mut_floats.push(v);
            }
            4 => {
                let v = self.fresh("b");
                let e = self.bool_expr(2);
                self.lines.push(format!("{ind}let {v} = {e}"));
                self.bools.push(v);
            }
            5 => {
                if let Some(v) = self.mut_ints.last().cloned() {
                    let e = self.int_expr(2);
                    if self.rng.chance(1, 2) {
                        self.lines.push(format!("{ind}{v} = {e}"));
                    } else {
                        let op = *self.rng.pick(&["+", "-", "*", "/"]);
                        self.lines.push(format!("{ind}{v} {op}= {e}"));
                    }
                }
            }
            6 => {
                if let Some(v) = self.mut_floats.last().cloned() {
                    let e = self.float_expr(1);
                    let op = *self.rng.pick(&["+", "-", "*", "/"]);
                    self.lines.push(format!("{ind}{v} {op}= {e}"));
                }
            }
            7 => {
                let e = match self.rng.below(3) {
                    0 => self.int_expr(2),
                    1 => self.float_expr(2),
                    _ => self.bool_expr(2),
                };
                self.lines.push(format!("{ind}println({e})"));
            }
            8 => {
                // bare expression statement: push/pop cancellation
                let e = match self.rng.below(6) {
                    0 => int_lit(self.rng.range(-5, 50)),
                    1 => "true".into(),
                    2 => "2.5".into(),
                    3 => "\"lit\"".into(),
                    4 => self.int_expr(1),
                    _ => self.bool_expr(1),
                };
                self.lines.push(format!("{ind}{e}"));
            }
            9 => {
                let v = self.fresh("a");
                let n = 1 + self.rng.below(3);
                let es: Vec<String> = (0..n).map(|_| self.int_expr(1)).collect();
                self.lines.push(format!("{ind}let {v} = [{}]", es.join(", ")));
                self.arrs.push(v);
            }
            10 => {
                if let Some(a) = self.arrs.last().cloned() {
                    match self.rng.below(4) {
                        0 => {
                            let e = self.int_expr(1);
                            self.lines.push(format!("{ind}{a}.push({e})"));
                        }
                        1 => {
                            let k = self.rng.range(-3, 40);
                            self.lines.push(format!("{ind}{a}.push({})", int_lit(k)));
                        }
                        2 => {
                            let i = self.small_index(1);
                            let e = self.int_expr(1);
                            self.lines.push(format!("{ind}{a}[{i}] = {e}"));
                        }
                        _ => {
                            let i = self.small_index(1);
                            let e = self.int_expr(1);
                            self.lines.push(format!("{ind}{a}[{i}] += {e}"));
                        }
                    }
                }
            }
            11 => {
                if self.has_struct {
                    if self.rng.chance(1, 2) {
                        let e = self.int_expr(1);
                        self.lines.push(format!("{ind}pt.x = {e}"));
                    } else {
                        let e = self.float_expr(1);
                        self.lines.push(format!("{ind}pt.y = {e}"));
                    }
                }
            }
            12 => {
                let e = self.float_expr(1);
                let v = self.fresh("f");
                match self.rng.below(12) {
                    0 => {
                        // two-operand math intrinsic: operands in locals / on the stack, result into a local
                        let e2 = self.float_expr(1);
                        self.lines.push(format!("{ind}let {v} = atan2({e}, {e2})"));
                        self.floats.push(v);
                    }
                    1 => {
                        // conversion results stored straight into a local
                        self.lines.push(format!("{ind}let {v} = int_from_float({e})"));
                        self.lines.push(format!("{ind}println({v})"));
                        self.ints.push(v);
                    }
                    2 => {
                        let conv = if self.rng.chance(1, 2) { format!("string_from_float({e})") } else { format!("({e}).str()") };
                        self.lines.push(format!("{ind}let {v} = {conv}"));
                        self.lines.push(format!("{ind}println({v})"));
                    }
                    _ => {
                        let f = *self.rng.pick(&["sqrt", "sin", "cos", "floor", "ceil", "round", "tan", "asin", "acos", "atan", "log", "log2", "log10"]);
                        self.lines.push(format!("{ind}let {v} = {f}({e})"));
                        self.floats.push(v);
                    }
                }
            }
            13 => {
                let e = self.int_expr(1);
                let v = self.fresh("f");
                self.lines.push(format!("{ind}let {v} = float_from_int({e})"));
                self.floats.push(v);
            }
            14 | 15 => {
                let c = match self.rng.below(5) {
                    0 => "true".to_string(),
                    1 => "false".to_string(),
                    2 => format!("not {}", self.bool_expr(1)),
                    _ => self.bool_expr(2),
                };
                self.lines.push(format!("{ind}if {c} {{"));
                let save = (self.ints.len(), self.floats.len(), self.bools.len(), self.arrs.len(), self.mut_ints.len(), self.mut_floats.len());
                let n = 1 + self.rng.below(2);
                for _ in 0..n {
                    self.stmt(&format!("{ind}  "), depth - 1);
                }
                let e = self.int_expr(1);
                self.lines.push(format!("{ind}  println({e})"));
                self.restore(save);
                if self.rng.chance(1, 2) {
                    self.lines.push(format!("{ind}}} else {{"));
                    self.stmt(&format!("{ind}  "), depth - 1);
                    let e = self.bool_expr(1);
                    self.lines.push(format!("{ind}  println({e})"));
                    self.restore(save);
                }
                self.lines.push(format!("{ind}}}"));
            }
            _ => {
                let w = self.fresh("w");
                let k = self.rng.range(1, 4);
                self.lines.push(format!("{ind}var {w} = 0"));
                let cond = match self.rng.below(3) {
                    0 => format!("{w} < {k}"),
                    1 => format!("not ({w} >= {k})"),
                    _ => format!("{k} > {w}"),
                };
                self.lines.push(format!("{ind}while {cond} {{"));
                let save = (self.ints.len(), self.floats.len(), self.bools.len(), self.arrs.len(), self.mut_ints.len(), self.mut_floats.len());
                self.ints.push(w.clone());
                self.stmt(&format!("{ind}  "), depth - 1);
                self.restore(save);
                self.lines.push(format!("{ind}  {w} = {w} + 1"));
                self.lines.push(format!("{ind}}}"));
            }
        }
    }
    fn restore(&mut self, s: (usize, usize, usize, usize, usize, usize)) {
        self.ints.truncate(s.0);
        self.floats.truncate(s.1);
        self.bools.truncate(s.2);
        self.arrs.truncate(s.3);
        self.mut_ints.truncate(s.4);
        self.mut_floats.truncate(s.5);
    }
}

fn gen_program(rng: &mut Rng) -> String {
    let has_struct = rng.chance(1, 3);
    let mut g = PG {
        rng,
        ints: vec![],
        mut_ints: vec![],
        floats: vec![],
        mut_floats: vec![],
        bools: vec![],
        arrs: vec![],
        has_struct,
        uid: 0,
        lines: vec![],
    };
    if has_struct {
        g.lines.push("type Pt = {".into());
        g.lines.push("  x: int".into());
        g.lines.push("  y: float".into());
        g.lines.push("}".into());
    }
    let in_fn = g.rng.chance(1, 2);
    let ind = if in_fn { "  " } else { "" };
    if in_fn {
        g.lines.push("fn body(p: int, q: float) -> int {".into());
        g.ints.push("p".into());
        g.floats.push("q".into());
    }
    if has_struct {
        g.lines.push(format!("{ind}let pt = Pt(3, 1.5)"));
    }
    let n = 4 + g.rng.below(8);
    for _ in 0..n {
        g.stmt(ind, 2);
    }
    if in_fn {
        let e = g.int_expr(1);
        g.lines.push(format!("  {e}"));
        g.lines.push("}".into());
        g.lines.push(format!("println(body({}, {}))", int_lit(g.rng.range(-3, 9)), float_lit(*g.rng.pick(&[0.0, 1.5, -2.0]))));
    } else {
        let e = g.int_expr(1);
        g.lines.push(e);
    }
    let mut s = g.lines.join("\n");
    s.push('\n');
    s
}

// ------------------------------------------------------------------ literal / variable forms
fn int_grid() -> Vec<i64> {
    let mut v: Vec<i64> = vec![0, 1, -1, 2, -2, 3, -3, 7, -7, 10, 62, 63, 64, 65];
    for p in [31u32, 32, 53, 62] {
        let x = 1i64 << p;
        v.extend_from_slice(&[x - 1, x, x + 1, -(x - 1), -x, -(x + 1)]);
    }
    v.extend_from_slice(&[(1i64 << 32) + 2, 3037000499, 3037000500, -3037000500, 2097151, 2097152]);
    v.extend_from_slice(&[i64::MAX, i64::MAX - 1, i64::MIN, i64::MIN + 1]);
    v.sort();
    v.dedup();
    v
}

/// float operands: (tag, literal-only expression, is a plain literal)
fn float_set() -> Vec<(String, String)> {
    let mx = float_lit(f64::MAX);
    let mut v: Vec<(String, String)> = vec![];
    for x in [0.0f64, -0.0, 5e-324, -5e-324, 2.2250738585072009e-308, 2.2250738585072014e-308, 1.0, -1.0, 1.5, 0.1,
        3.0, -2.0, 0.5, 9007199254740991.0, 9007199254740992.0, 9007199254740993.0, f64::MAX, -f64::MAX, 1e300, 1e-300]
    {
        v.push((format!("{x:e}"), float_lit(x)));
    }
    v.push(("inf".into(), format!("({mx} * 10.0)")));
    v.push(("-inf".into(), format!("({mx} * (-10.0))")));
    v.push(("nan".into(), format!("({mx} * 10.0 - {mx} * 10.0)")));
    v
}

struct FormGroup {
    what: String,
    /// (form name, program with variable suffix `k`) — element 0 is variable/variable
    forms: Vec<(&'static str, String)>,
}

fn forms_int(op: &str, a: i64, b: i64) -> FormGroup {
    let (la, lb) = (int_lit(a), int_lit(b));
    let cmp = matches!(op, "<" | "<=" | ">" | ">=" | "==");
    let mut v: Vec<(&'static str, String)> = vec![
        ("vv", format!("let a@ = {la}\nlet b@ = {lb}\nlet r@ = a@ {op} b@\nprintln(r@)\n")),
        ("ll", format!("let r@ = {la} {op} {lb}\nprintln(r@)\n")),
        ("vl", format!("let a@ = {la}\nlet r@ = a@ {op} {lb}\nprintln(r@)\n")),
        ("lv", format!("let b@ = {lb}\nlet r@ = {la} {op} b@\nprintln(r@)\n")),
        ("ll-arg", format!("println({la} {op} {lb})\n")),
    ];
    if !cmp && op != "^" {
        v.push(("cl", format!("var a@ = {la}\na@ {op}= {lb}\nprintln(a@)\n")));
        v.push(("cv", format!("var a@ = {la}\nlet b@ = {lb}\na@ {op}= b@\nprintln(a@)\n")));
    }
    FormGroup { what: format!("int {a} {op} {b}"), forms: v }
}

fn forms_float(op: &str, a: &(String, String), b: &(String, String)) -> FormGroup {
    let (la, lb) = (&a.1, &b.1);
    let cmp = matches!(op, "<" | "<=" | ">" | ">=" | "==");
    // the result is printed, and for floats its sign class too (NaN sign and zero sign are otherwise invisible)
    let tail = if cmp {
        "println(r@)\n".to_string()
    } else {
        "println(r@)\nprintln(r@ < 0.0)\nprintln(r@ > 0.0)\nprintln(r@ == 0.0)\nprintln(1.0 / (r@ + r@ * r@ * 0.0 + 1.0) < 0.0)\n".to_string()
    };
    let mut v: Vec<(&'static str, String)> = vec![
        ("vv", format!("let a@ = {la}\nlet b@ = {lb}\nlet r@ = a@ {op} b@\n{tail}")),
        ("ll", format!("let r@ = {la} {op} {lb}\n{tail}")),
        ("vl", format!("let a@ = {la}\nlet r@ = a@ {op} {lb}\n{tail}")),
        ("lv", format!("let b@ = {lb}\nlet r@ = {la} {op} b@\n{tail}")),
    ];
    if !cmp && op != "^" {
        v.push(("cl", format!("var r@ = {la}\nr@ {op}= {lb}\n{tail}")));
        v.push(("cv", format!("var r@ = {la}\nlet b@ = {lb}\nr@ {op}= b@\n{tail}")));
    }
    FormGroup { what: format!("float {} {op} {}", a.0, b.0), forms: v }
}

fn forms_neg(int: Option<i64>, fl: Option<&(String, String)>) -> FormGroup {
    if let Some(a) = int {
        let la = int_lit(a);
        return FormGroup {
            what: format!("int neg {a}"),
            forms: vec![
                ("vv", format!("let a@ = {la}\nlet r@ = -a@\nprintln(r@)\n")),
                ("ll", format!("let r@ = -{la}\nprintln(r@)\n")),
            ],
        };
    }
    let a = fl.unwrap();
    // the sign of a zero result is made visible through total_cmp against 0.0 and -0.0
    let tail = "println(r@)\nprintln(r@ < 0.0)\nprintln(r@ > 0.0)\nprintln(r@ == 0.0)\n";
    FormGroup {
        what: format!("float neg {}", a.0),
        forms: vec![
            ("vv", format!("let a@ = {}\nlet r@ = -a@\n{tail}", a.1)),
            ("ll", format!("let r@ = -{}\n{tail}", a.1)),
        ],
    }
}

/// chains `v op1 A op2 B [op3 C]` with a non-literal head and literal tail (adjacent `*Imm` instructions
/// after optimization): a reassociating rewrite changes float rounding and which int operation overflows.
fn chain_tail(float: bool) -> &'static str {
    if float {
        "println(r@ < 0.0)\nprintln(r@ > 0.0)\nprintln(r@ == 0.0)\nprintln(1.0 / (r@ + r@ * r@ * 0.0 + 1.0) < 0.0)\n"
    } else {
        ""
    }
}

fn forms_chain(float: bool, v: &str, lits: &[String], ops: &[&str], tag: &str) -> Vec<FormGroup> {
    let tail = chain_tail(float);
    let ty = if float { "float" } else { "int" };
    // expression `head op lit op lit ...` with literals / with variables
    let mut e_lit = String::from("v@");
    let mut e_var = String::from("v@");
    let mut decl = String::new();
    for (k, (l, op)) in lits.iter().zip(ops).enumerate() {
        e_lit.push_str(&format!(" {op} {l}"));
        e_var.push_str(&format!(" {op} c{k}_@"));
        decl.push_str(&format!("let c{k}_@ = {l}\n"));
    }
    let what = format!("{ty} chain{tag} {v} {}", lits.iter().zip(ops).map(|(l, o)| format!("{o} {l}")).collect::<Vec<_>>().join(" "));
    let mut out = vec![FormGroup {
        what: what.clone(),
        forms: vec![
            ("vvv", format!("let v@ = {v}\n{decl}let r@ = {e_var}\nprintln(r@)\n{tail}")),
            ("vll", format!("let v@ = {v}\nlet r@ = {e_lit}\nprintln(r@)\n{tail}")),
            ("vll-arg", format!("let v@ = {v}\nprintln({e_lit})\nlet r@ = {e_lit}\n{tail}")),
            ("vll-fn", format!("fn ch@(v@: {ty}) -> {ty} {{\n  {e_lit}\n}}\nlet r@ = ch@({v})\nprintln(r@)\n{tail}")),
        ],
    }];
    // compound assignment `x op1= A op2 B` (right operand is itself a literal chain)
    if lits.len() == 2 && ops[0] != "%" {
        let (a, b) = (&lits[0], &lits[1]);
        out.push(FormGroup {
            what: format!("{ty} chain-compound {v} {}= {a} {} {b}", ops[0], ops[1]),
            forms: vec![
                ("cvv", format!("var r@ = {v}\nlet a@ = {a}\nlet b@ = {b}\nr@ {}= a@ {} b@\nprintln(r@)\n{tail}", ops[0], ops[1])),
                ("cll", format!("var r@ = {v}\nr@ {}= {a} {} {b}\nprintln(r@)\n{tail}", ops[0], ops[1])),
                ("cvl", format!("var r@ = {v}\nlet a@ = {a}\nr@ {}= a@ {} {b}\nprintln(r@)\n{tail}", ops[0], ops[1])),
            ],
        });
    }
    out
}

/// one program holding every operator pair of a triple in literal form (for the exact optimize tie)
fn chain_bundle(_float: bool, v: &str, a: &str, b: &str, ops: &[&str]) -> String {
    let mut s = format!("let v = {v}\nvar x = {v}\n");
    for o1 in ops {
        for o2 in ops {
            s.push_str(&format!("println(v {o1} {a} {o2} {b})\n"));
            s.push_str(&format!("let r_{}_{} = v {o1} {a} {o2} {b} {o1} {a}\n", opname(o1), opname(o2)));
            if *o1 != "%" {
                s.push_str(&format!("x {o1}= {a} {o2} {b}\n"));
            }
        }
    }
    s.push_str("println(x)\n");
    s
}

fn opname(o: &str) -> &'static str {
    match o {
        "+" => "add",
        "-" => "sub",
        "*" => "mul",
        "/" => "div",
        "%" => "mod",
        _ => "pow",
    }
}

fn chain_triples(rng: &mut Rng, quick: bool) -> (Vec<(String, String, String)>, Vec<(String, String, String)>) {
    let il = |n: i64| int_lit(n);
    let mut ints: Vec<(String, String, String)> = vec![
        (il(i64::MAX), il(1), il(-1)), (il(i64::MAX), il(1), il(1)), (il(i64::MIN), il(-1), il(1)), (il(i64::MAX - 1), il(1), il(1)),
        (il(i64::MAX), il(2), il(2)), (il(4611686018427387904), il(2), il(2)), (il(7), il(2), il(3)), (il(-7), il(2), il(2)),
        (il(3037000500), il(3037000500), il(2)), (il(i64::MIN), il(2), il(-1)), (il(10), il(0), il(5)), (il(i64::MIN + 1), il(-1), il(-1)),
    ];
    let fl = |x: f64| float_lit(x);
    let mut floats: Vec<(String, String, String)> = vec![
        (fl(9007199254740992.0), fl(1.0), fl(1.0)), (fl(1.0), fl(6e-17), fl(6e-17)), (fl(f64::MAX), fl(f64::MAX), fl(f64::MAX)),
        (fl(1e308), fl(10.0), fl(10.0)), (fl(0.1), fl(0.2), fl(0.3)), (fl(-0.0), fl(0.0), fl(-0.0)), (fl(0.0), fl(-0.0), fl(0.0)),
        (fl(5e-324), fl(2.0), fl(2.0)), (fl(1e-300), fl(1e-300), fl(1e300)), (fl(-9007199254740992.0), fl(-1.0), fl(-1.0)),
        (fl(3.0), fl(0.0), fl(1.5)), (fl(1.0), fl(1e16), fl(-1e16)),
    ];
    let n = if quick { 6 } else { 80 };
    let ig = int_grid();
    const FV: [f64; 14] = [0.0, -0.0, 1.0, -1.0, 0.1, 6e-17, 9007199254740992.0, 9007199254740993.0, 1e308, f64::MAX, 5e-324, 1e-300, 3.0, 0.5];
    for _ in 0..n {
        ints.push((il(*rng.pick(&ig)), il(*rng.pick(&ig)), il(*rng.pick(&ig))));
        floats.push((fl(*rng.pick(&FV)), fl(*rng.pick(&FV)), fl(*rng.pick(&FV))));
    }
    (ints, floats)
}

struct GroupRes {
    /// reference: variable/variable form, optimizer off
    reference: Canon,
    /// disagreements found: description
    bad: Vec<String>,
    runs: usize,
}

fn run_group(g: &FormGroup) -> GroupRes {
    let inst = |s: &str, k: usize| s.replace('@', &k.to_string());
    let reference = run_canon(&inst(&g.forms[0].1, 0), true);
    let mut bad = vec![];
    let mut runs = 1;
    let vv_on = run_canon(&inst(&g.forms[0].1, 0), false);
    runs += 1;
    if vv_on.status != reference.status || vv_on.out != reference.out {
        bad.push(format!("form vv (optimizer on): {} {:?}", vv_on.status, vv_on.out));
    }
    let mut individually = reference.status != "done";
    if !individually {
        // all remaining forms in one program: the expected output is the reference output once per form
        let mut src = String::new();
        for (k, f) in g.forms.iter().enumerate().skip(1) {
            src.push_str(&inst(&f.1, k));
        }
        let expect: String = reference.out.repeat(g.forms.len() - 1);
        for skip in [false, true] {
            let c = run_canon(&src, skip);
            runs += 1;
            if c.status != "done" || c.out != expect {
                individually = true;
            }
        }
    }
    if individually {
        for (k, f) in g.forms.iter().enumerate().skip(1) {
            for skip in [false, true] {
                let c = run_canon(&inst(&f.1, k), skip);
                runs += 1;
                if c.status != reference.status || c.out != reference.out {
                    bad.push(format!("form {} (optimizer {}): {} {:?}", f.0, if skip { "off" } else { "on" }, c.status, c.out));
                }
            }
        }
    }
    GroupRes { reference, bad, runs }
}

// ------------------------------------------------------------------ *Imm sweep
/// Each `*Imm` instruction the optimizer introduces, sampled at a spread of NON-literal operand values
/// (random mantissas and boundary values) against the un-fused pair (variable second operand, optimizer
/// off).  Floats are compared through `to_string` (shortest round trip: distinct non-NaN bits print
/// differently) plus a sign probe for NaN.
struct ImmJob {
    float: bool,
    op: &'static str,
    imm_name: &'static str,
    lit: String,
    vals: Vec<String>,
}

struct ImmRes {
    bad: Vec<String>,
    has_imm: bool,
    runs: usize,
}

fn imm_programs(j: &ImmJob, vals: &[String]) -> (String, String, String) {
    let ty = if j.float { "float" } else { "int" };
    let cmp = matches!(j.op, "<" | "<=" | ">" | ">=" | "==");
    let probe = j.float && !cmp;
    // reference: variable second operand; A: dest Top, first operand a local; B: dest a local, first operand on Top
    let mut r = format!("let c = {}\n", j.lit);
    let mut a = String::new();
    let mut b = format!("fn idf(x: {ty}) -> {ty} {{\n  x\n}}\n");
    for (i, v) in vals.iter().enumerate() {
        r.push_str(&format!("let v{i} = {v}\nprintln(v{i} {} c)\n", j.op));
        a.push_str(&format!("let v{i} = {v}\nprintln(v{i} {} {})\n", j.op, j.lit));
        b.push_str(&format!("let v{i} = {v}\nlet r{i} = idf(v{i}) {} {}\nprintln(r{i})\n", j.op, j.lit));
        if probe {
            r.push_str(&format!("println((v{i} {} c) < 0.0)\n", j.op));
            a.push_str(&format!("println((v{i} {} {}) < 0.0)\n", j.op, j.lit));
            b.push_str(&format!("println(r{i} < 0.0)\n"));
        }
    }
    (r, a, b)
}

fn run_imm(j: &ImmJob) -> ImmRes {
    let mut runs = 0;
    let mut bad = vec![];
    let (r, a, b) = imm_programs(j, &j.vals);
    let has_imm = dump(&a).map(|d| d.trace.last().map(|t| t.iter().any(|l| l.contains(j.imm_name))).unwrap_or(false)).unwrap_or(false);
    let reference = run_canon(&r, true);
    runs += 1;
    let mut all_ok = reference.status == "done";
    for (src, skip) in [(&a, false), (&b, false), (&a, true), (&r, false)] {
        let c = run_canon(src, skip);
        runs += 1;
        if c.status != reference.status || c.out != reference.out {
            all_ok = false;
        }
    }
    if !all_ok {
        // an error stops a program: look at every operand value on its own
        for v in &j.vals {
            let one = vec![v.clone()];
            let (r, a, b) = imm_programs(j, &one);
            let reference = run_canon(&r, true);
            runs += 1;
            // (the literal form with the optimizer off and the variable form with it on are part (3))
            for (name, src, skip) in [("imm, dest top (optimizer on)", &a, false), ("imm, operand on top (optimizer on)", &b, false)] {
                let c = run_canon(src, skip);
                runs += 1;
                if c.status != reference.status || c.out != reference.out {
                    bad.push(format!(
                        "{} {} {}: form {name} gives {} {:?}, variable operand with the optimizer off gives {} {:?}\n--- {name}\n{src}--- reference\n{r}",
                        v, j.op, j.lit, c.status, c.out, reference.status, reference.out
                    ));
                }
            }
        }
    }
    ImmRes { bad, has_imm, runs }
}

fn random_float(rng: &mut Rng) -> f64 {
    let frac = (rng.next() >> 12) as f64 / (1u64 << 52) as f64;
    let k = rng.range(-4, 6) as i32;
    let x = (1.0 + frac) * 2f64.powi(k);
    if rng.chance(1, 3) { -x } else { x }
}

fn imm_jobs(rng: &mut Rng, quick: bool) -> Vec<ImmJob> {
    let mx = float_lit(f64::MAX);
    let nrand = if quick { 8 } else { 60 };
    let mut fvals: Vec<String> = vec![];
    for x in [0.0f64, -0.0, 1.2, 0.1, -1.5, 3.0, 5e-324, 2.2250738585072014e-308, 9007199254740993.0, 1e300, f64::MAX, -f64::MAX] {
        fvals.push(float_lit(x));
    }
    fvals.push(format!("({mx} * 10.0)"));
    fvals.push(format!("({mx} * (-10.0))"));
    fvals.push(format!("({mx} * 10.0 - {mx} * 10.0)"));
    for _ in 0..nrand {
        fvals.push(float_lit(random_float(rng)));
    }
    let mut ivals: Vec<String> = [0i64, 1, -1, 2, -2, 3, 7, -7, 63, 64, 2147483647, 4294967296, 3037000500, i64::MAX, i64::MAX - 1, i64::MIN, i64::MIN + 1]
        .iter().map(|n| int_lit(*n)).collect();
    for _ in 0..nrand {
        let n = match rng.below(3) {
            0 => rng.next() as i64,
            1 => rng.range(-1000, 1000),
            _ => rng.range(-(1 << 40), 1 << 40),
        };
        ivals.push(int_lit(n));
    }
    let flits: Vec<String> = [2.0f64, 3.0, 4.0, 5.0, -1.0, -2.0, -3.0, 16.0, 17.0, 0.5, 1.0, 0.0, -0.0, 0.1, 1e300, 2.5]
        .iter().map(|x| float_lit(*x)).collect();
    let ilits: Vec<String> = [0i64, 1, -1, 2, 3, 5, 63, 64, 4294967296, i64::MAX, i64::MIN].iter().map(|n| int_lit(*n)).collect();
    let fops: [(&str, &str); 10] = [("+", "AddFloatImm"), ("-", "SubFloatImm"), ("*", "MulFloatImm"), ("/", "DivFloatImm"), ("^", "PowFloatImm"),
        ("<", "LessThanFloatImm"), ("<=", "LessThanOrEqualFloatImm"), (">", "GreaterThanFloatImm"), (">=", "GreaterThanOrEqualFloatImm"), ("==", "EqualFloatImm")];
    let iops: [(&str, &str); 11] = [("+", "AddIntImm"), ("-", "SubIntImm"), ("*", "MulIntImm"), ("/", "DivIntImm"), ("^", "PowIntImm"), ("%", "ModuloImm"),
        ("<", "LessThanIntImm"), ("<=", "LessThanOrEqualIntImm"), (">", "GreaterThanIntImm"), (">=", "GreaterThanOrEqualIntImm"), ("==", "EqualIntImm")];
    let mut jobs = vec![];
    for (op, name) in fops {
        for l in &flits {
            jobs.push(ImmJob { float: true, op, imm_name: name, lit: l.clone(), vals: fvals.clone() });
        }
    }
    for (op, name) in iops {
        for l in &ilits {
            jobs.push(ImmJob { float: false, op, imm_name: name, lit: l.clone(), vals: ivals.clone() });
        }
    }
    jobs
}

// ------------------------------------------------------------------ regression probes
fn big_frame_program(n: usize) -> String {
    let mut s = String::from("let x0 = 1\n");
    for i in 1..n {
        s.push_str(&format!("let x{i} = x{} + 1\n", i - 1));
    }
    // operands and destinations beyond the 15-bit register range, in every fusable position
    s.push_str(&format!("println(x{})\n", n - 1));
    s.push_str(&format!("let y = 0 - x{} + x0\nprintln(y)\n", n - 1));
    s
}

/// Table-driven: every `*Imm` instruction kind once with a literal that is FIRST mentioned after more than
/// 65536 other distinct constants of its type (so `expand_immediates` / `without_imm` handles it), executed
/// with run-time operands that tell the instruction from its neighbours (comparisons: below, equal, above;
/// arithmetic: non-commutative values). Returns the program and its known output.
fn big_pool_probe(n: usize) -> (String, String) {
    let ints: Vec<String> = (0..n).map(|i| i.to_string()).collect();
    let floats: Vec<String> = (0..n).map(|i| format!("{i}.5")).collect();
    let mut src = format!("let a = [{}]\nlet f = [{}]\nlet n = a.len()\n", ints.join(", "), floats.join(", "));
    let mut exp = String::new();
    let nn = n as i64;
    // ---- ints: literal K = n + d is late (not an array element); operands are built from n and early literals
    let int_ops = ["+", "-", "*", "/", "%", "<", "<=", ">", ">=", "=="];
    for (j, op) in int_ops.iter().enumerate() {
        let d = 1000 * (j as i64 + 1) + 7;
        let k = nn + d;
        for (t, x) in [k - 1, k, k + 1, 3 * k + 5, -(k + 2)].iter().enumerate() {
            // x without mentioning K: multiples of n plus an early literal
            let q = x.div_euclid(nn);
            let r = x.rem_euclid(nn);
            src.push_str(&format!("let xi{j}_{t} = n * {} + {r}\n", int_lit(q)));
            src.push_str(&format!("println(xi{j}_{t} {op} {k})\n"));
            let v: String = match *op {
                "+" => (x + k).to_string(),
                "-" => (x - k).to_string(),
                "*" => (x * k).to_string(),
                "/" => (x / k).to_string(),
                "%" => x.rem_euclid(k).to_string(),
                "<" => (*x < k).to_string(),
                "<=" => (*x <= k).to_string(),
                ">" => (*x > k).to_string(),
                ">=" => (*x >= k).to_string(),
                _ => (*x == k).to_string(),
            };
            exp.push_str(&v);
            exp.push('\n');
        }
    }
    // power with a late exponent: bases 1, -1, 0 (anything else overflows)
    let kp = nn + 20001; // odd or even decides the sign for base -1
    src.push_str(&format!("let one = n - {}\nlet mone = {} - n\nlet zero = n - n\n", nn - 1, nn - 1));
    src.push_str(&format!("println(one ^ {kp})\nprintln(mone ^ {kp})\nprintln(zero ^ {kp})\n"));
    exp.push_str(&format!("1\n{}\n0\n", if kp % 2 == 0 { 1 } else { -1 }));
    // store and array push with late literals
    let (ks, ka) = (nn + 30001, nn + 30002);
    src.push_str(&format!("var m = n\nm = {ks}\nprintln(m)\na.push({ka})\nprintln(a[a.len() - 1])\nprintln(a.len())\n"));
    exp.push_str(&format!("{ks}\n{ka}\n{}\n", nn + 1));
    // ---- floats: literal K = 70000.5 + j is late (pool entries are i.5 with i < n only up to n - 0.5: keep K above)
    let float_ops = ["+", "-", "*", "/", "<", "<=", ">", ">=", "=="];
    for (j, op) in float_ops.iter().enumerate() {
        let k = nn as f64 + 1000.25 + j as f64; // .25: never an array element
        // operands from array elements: base = f[n-1] + f[i] + f[0] ... exact binary fractions
        // K = (n - 0.5) + (1000.5 + j) + 0.25 is not reachable from .5 values alone, so use quarter = f[0] * f[0]
        for (t, delta) in [-1.0f64, 0.0, 1.0, 2.5].iter().enumerate() {
            let i = 1000 + j; // f[i] = 1000.5 + j
            src.push_str(&format!("let yf{j}_{t} = f[{}] + f[{i}] + f[0] * f[0] + {}\n", n - 1, float_lit(*delta)));
            let y = (nn as f64 - 0.5) + (i as f64 + 0.5) + 0.25 + delta;
            src.push_str(&format!("println(yf{j}_{t} {op} {})\n", float_lit(k)));
            let v: String = match *op {
                "+" => (y + k).to_string(),
                "-" => (y - k).to_string(),
                "*" => (y * k).to_string(),
                "/" => (y / k).to_string(),
                "<" => (y < k).to_string(),
                "<=" => (y <= k).to_string(),
                ">" => (y > k).to_string(),
                ">=" => (y >= k).to_string(),
                _ => (y == k).to_string(),
            };
            exp.push_str(&v);
            exp.push('\n');
        }
    }
    // ---- the boundary of the 16-bit immediate index: the literals at pool indices 65534, 65535 (last one that
    // fits), 65536 (first one that does not; `as u16` would wrap it to constant #0) and 65537, of both pools;
    // each as arithmetic right operand, comparison right operand, stored literal and pushed literal
    for k in 65534i64..=65537 {
        let d = nn - k; // early literal
        src.push_str(&format!("let yb{k} = n - {d}\n"));
        src.push_str(&format!("println(yb{k} + {k})\nprintln(yb{k} - {k})\nprintln(yb{k} == {k})\nprintln(yb{k} >= {k})\nprintln(yb{k} < {k})\n"));
        src.push_str(&format!("var mb{k} = 0\nmb{k} = {k}\nprintln(mb{k})\nlet lb{k} = {k}\nprintln(lb{k})\nprintln({k})\n"));
        exp.push_str(&format!("{}\n0\ntrue\ntrue\nfalse\n{k}\n{k}\n{k}\n", 2 * k));
        let kf = k as f64 + 0.5;
        src.push_str(&format!("let yf{k} = f[{k}]\n"));
        src.push_str(&format!("println(yf{k} + {kf})\nprintln(yf{k} - {kf})\nprintln(yf{k} == {kf})\nprintln(yf{k} <= {kf})\nprintln(yf{k} > {kf})\n"));
        src.push_str(&format!("let lf{k} = {kf}\nprintln(lf{k})\nprintln({kf})\n"));
        exp.push_str(&format!("{}\n0\ntrue\ntrue\nfalse\n{kf}\n{kf}\n", kf + kf));
    }
    // float power with a late exponent
    let kpf = 2.25f64;
    src.push_str(&format!("let b1 = f[1]\nlet b3 = f[3]\nprintln(b1 ^ {kpf})\nprintln(b3 ^ {kpf})\n"));
    exp.push_str(&format!("{}\n{}\n", 1.5f64.powf(kpf), 3.5f64.powf(kpf)));
    (src, exp)
}

/// the constant pool exactly as `gather_constants` numbers it (order of first occurrence)
fn gather_pool(lines: &[String]) -> (Vec<i64>, Vec<String>) {
    let (mut ints, mut floats): (Vec<i64>, Vec<String>) = (vec![], vec![]);
    let (mut iseen, mut fseen) = (std::collections::HashSet::new(), std::collections::HashSet::new());
    for l in lines {
        let Some(t) = instr_text(l) else { continue };
        let name = t.split('(').next().unwrap_or("");
        let is_float = name == "PushFloat" || (name.ends_with("FloatImm"));
        let is_int = name == "PushInt" || name == "StoreOffsetImm" || name == "ArrayPushIntImm" || name == "ModuloImm" || name.ends_with("IntImm");
        if is_float {
            if let Some(q) = quoted(t) {
                if fseen.insert(q.to_string()) {
                    floats.push(q.to_string());
                }
            }
        } else if is_int {
            let last = t.trim_end_matches(')').rsplit(|c| c == ',' || c == '(').next().unwrap_or("").trim();
            if let Ok(v) = last.parse::<i64>() {
                if iseen.insert(v) {
                    ints.push(v);
                }
            }
        }
    }
    (ints, floats)
}

/// the `expand_immediates` tie for one program: request for the model and the implementation's final
/// instruction list (`Name` / `Name:<constant>` per VM instruction, assembly names)
fn expand_case(dump: &Dump, d: &abra_core::verif_asm::ProgramDump, name: &str, spec: &mut Vec<String>) -> Option<(String, String, usize, Vec<String>)> {
    let last = dump.trace.last()?;
    let (ints, floats) = gather_pool(last);
    if ints != d.int_constants {
        spec.push(format!("{name}: the int constant pool is not the first-occurrence order of the optimized assembly ({} vs {} entries)", d.int_constants.len(), ints.len()));
        return None;
    }
    let fbits: Vec<u64> = floats.iter().map(|f| f.parse::<f64>().map(|x| x.to_bits()).unwrap_or(0)).collect();
    if fbits != d.float_constants_bits {
        spec.push(format!("{name}: the float constant pool is not the first-occurrence order of the optimized assembly"));
        return None;
    }
    let mut req = String::from("opt expand");
    // the pool index of every constant used by an immediate-operand instruction (the model decides what fits)
    {
        let ipos: std::collections::HashMap<i64, usize> = ints.iter().enumerate().map(|(i, v)| (*v, i)).collect();
        let fpos: std::collections::HashMap<&String, usize> = floats.iter().enumerate().map(|(i, v)| (v, i)).collect();
        let mut seen = std::collections::HashSet::new();
        for l in last {
            let Some(t) = instr_text(l) else { continue };
            let nm = t.split('(').next().unwrap_or("");
            if !nm.ends_with("Imm") {
                continue;
            }
            if nm.ends_with("FloatImm") {
                if let Some(q) = quoted(t) {
                    if let Some(i) = fpos.get(&q.to_string()) {
                        if seen.insert(format!("f{q}")) {
                            req.push_str(&format!(" CF:{}:{i}", lit_token(q)));
                        }
                    }
                }
            } else if let Some(v) = t.trim_end_matches(')').rsplit(|c| c == ',' || c == '(').next().and_then(|x| x.trim().parse::<i64>().ok()) {
                if let Some(i) = ipos.get(&v) {
                    if seen.insert(format!("i{v}")) {
                        req.push_str(&format!(" CI:{v}:{i}"));
                    }
                }
            }
        }
    }
    if name == "probebigpool" {
        // the boundary literals must sit at pool indices 65534..65537 of both pools
        for k in 65534usize..=65537 {
            if ints.get(k) != Some(&(k as i64)) {
                spec.push(format!("probebigpool: int pool index {k} holds {:?}, the probe expects the literal {k} there (boundary of the 16-bit immediate index)", ints.get(k)));
            }
            if floats.get(k).map(|s| s.as_str()) != Some(format!("{k}.5").as_str()) {
                spec.push(format!("probebigpool: float pool index {k} holds {:?}, the probe expects the literal {k}.5 there", floats.get(k)));
            }
        }
    }
    for l in last {
        req.push(' ');
        req.push_str(&token_of_line(l));
    }
    req.push_str(&format!(" #{name}.expand"));
    let rename = |n: &str| -> String {
        match n {
            "SubtractInt" => "SubInt".into(),
            "DivideInt" => "DivInt".into(),
            "DivideIntImm" => "DivIntImm".into(),
            "PowerInt" => "PowInt".into(),
            "PowerIntImm" => "PowIntImm".into(),
            "PowerFloat" => "PowFloat".into(),
            "PowerFloatImm" => "PowFloatImm".into(),
            o => o.to_string(),
        }
    };
    let mut expanded = 0usize;
    let mut out: Vec<String> = vec![];
    for t in &d.instructions {
        let name = rename(t.split(|c| c == '(' || c == ' ' || c == '{').next().unwrap_or(""));
        let last_arg = t.trim_end_matches(')').rsplit(|c| c == ',' || c == '(').next().unwrap_or("").trim().to_string();
        let idx = last_arg.parse::<usize>().ok();
        let is_float = name == "PushFloat" || name.ends_with("FloatImm");
        let is_int = name == "PushInt" || name == "StoreOffsetImm" || name == "ArrayPushIntImm" || name == "ModuloImm" || name.ends_with("IntImm");
        if is_float {
            out.push(format!("{name}:{}", idx.and_then(|i| floats.get(i)).map(|f| lit_token(f)).unwrap_or("?".into())));
        } else if is_int {
            out.push(format!("{name}:{}", idx.and_then(|i| ints.get(i)).map(|v| v.to_string()).unwrap_or("?".into())));
        } else {
            out.push(name);
        }
    }
    let n_lines = last.iter().filter(|l| l.starts_with("I ")).count();
    if out.len() > n_lines {
        expanded = out.len() - n_lines;
    }
    // which immediate-operand instruction kinds carry a constant without a 16-bit index
    let late_i: std::collections::HashSet<i64> = ints.iter().skip(65536).cloned().collect();
    let late_f: std::collections::HashSet<&String> = floats.iter().skip(65536).collect();
    let mut kinds: Vec<String> = vec![];
    for l in last {
        let Some(t) = instr_text(l) else { continue };
        let nm = t.split('(').next().unwrap_or("");
        if !nm.ends_with("Imm") {
            continue;
        }
        let late = if nm.ends_with("FloatImm") {
            quoted(t).map(|q| late_f.contains(&q.to_string())).unwrap_or(false)
        } else {
            t.trim_end_matches(')').rsplit(|c| c == ',' || c == '(').next().and_then(|x| x.trim().parse::<i64>().ok()).map(|v| late_i.contains(&v)).unwrap_or(false)
        };
        if late && !kinds.iter().any(|k| k == nm) {
            kinds.push(nm.to_string());
        }
    }
    Some((req, out.join(" "), expanded, kinds))
}

// ------------------------------------------------------------------ main
fn main() {
    let mut ctx = Ctx::from_env("C05");
    let quick = ctx.quick();

    // ---------- (1) + (2): corpus and generated programs
    let mut programs: Vec<(String, String)> = corpus().into_iter().enumerate().map(|(i, s)| (format!("corpus{i}"), s)).collect();
    let n_gen = if quick { 160 } else { 1000 };
    for i in 0..n_gen {
        programs.push((format!("gen{i}"), gen_program(&mut ctx.rng)));
    }
    // rule-directed snippets (every literal pattern of peephole2/3 at least once)
    let directed = [
        "5\ntrue\n1.5\n\"s\"\nlet a = 3\nif not (a < 2) { println(1) }\nif true { println(2) }\nif false { println(3) } else { println(4) }\nwhile true { break }\nprintln(not true)\nprintln(not false)\n",
        "println(2 + 3)\nprintln(7 - 9)\nprintln(6 * 7)\nprintln(7 / 2)\nprintln(2 ^ 10)\nprintln(7 % 3)\nprintln(1.5 + 2.25)\nprintln(1.5 - 2.25)\nprintln(1.5 * 2.0)\nprintln(3.0 / 2.0)\nprintln(2.0 ^ 3.0)\n",
        "println(9223372036854775807 + 1)\n",
        "println(1 / 0)\n",
        "println(1.0 / 0.0)\n",
        "let x = 2.0\nprintln(x / 0.0)\n",
        "println((2 + 3) * (4 - 1) + 2 ^ 3 ^ 2)\nprintln((1.5 + 0.5) * (2.0 - 0.5) / 0.25)\n",
        "let a = 5\nlet b = 7\nlet c = a + b\nlet d = a < b\nlet e = a + 1\nlet f = 1 + a\nvar g = 0\ng = g + a\ng += 2\nprintln(c)\nprintln(d)\nprintln(e + f + g)\n",
        "let a = 1.5\nlet b = 2.5\nlet c = a * b\nlet d = a >= b\nlet e = a - 0.5\nlet f = sqrt(b)\nprintln(c)\nprintln(d)\nprintln(e)\nprintln(f)\n",
        "let arr = [1, 2, 3]\nlet i = 1\narr.push(4)\narr.push(i)\narr[i] = 9\narr[0] = i\nlet v = arr[i]\nlet n = arr.len()\nprintln(v + n + arr[2])\nprintln(arr.pop())\n",
        "type P = {\n  x: int\n  y: int\n}\nlet p = P(1, 2)\np.x = 5\nlet q = p.y\nprintln(p.x + q)\n",
    ];
    for (i, d) in directed.iter().enumerate() {
        programs.push((format!("directed{i}"), d.to_string()));
    }
    // math intrinsics / conversions with local operands and `let` destinations (replace_first_arg /
    // replace_second_arg / replace_dest arms of Atan2, Tan..Log10, IntFromFloat, StringFromFloat), and the
    // instructions outside the optimizer's vocabulary (string hashing, bit ops, channels and tasks, string
    // bytes, intrinsic function values) so that they pass through the exact tie as opaque lines
    let directed2 = [
        "let y = 1.0\nlet x = 2.0\nlet half = 0.5\nlet a = atan2(y, x)\nprintln(a)\nlet b = atan2(y * 2.0, x)\nprintln(b)\nlet b2 = atan2(y, x * 2.0)\nprintln(b2)\nlet t = tan(half)\nprintln(t)\nlet asn = asin(half)\nprintln(asn)\nlet ac = acos(half)\nprintln(ac)\nlet at = atan(half)\nprintln(at)\nlet l = log(x)\nprintln(l)\nlet l2 = log2(x)\nprintln(l2)\nlet l10 = log10(x)\nprintln(l10)\nlet i = int_from_float(x)\nprintln(i)\nlet s = x.str()\nprintln(s)\nlet s2 = string_from_float(half)\nprintln(s2)\nprintln(tan(x) + asin(half) + acos(half) + atan(x) + log(x) + log2(x) + log10(x))\n",
        "let h = \"key\".hash()\nprintln(h)\nprintln(bit_xor(5, 3))\nprintln(wrapping_add(1, 2))\nprintln(wrapping_mul(3, 4))\nlet c: channel<int> = channel()\ntask { c.write(1) }\nprintln(c.read())\nprintln(string_nth_byte(\"abc\", 1))\nprintln(string_count_bytes(\"abc\"))\nprintln(int_from_float(2.5))\nfn apply(f, a, b) {\n    f(a, b)\n}\nprintln(apply(array_get, [1, 2], 1))\nprintln(apply(array_get, [1, 2], 5))\n",
    ];
    for (i, d) in directed2.iter().enumerate() {
        programs.push((format!("intrinsics{i}"), d.to_string()));
    }
    // hard regression probes with known answers (never adaptive): D90 (a frame with more than 16384 slots:
    // offsets beyond 15 bits are not fused) and constant pools with more than 65536 entries (immediates are
    // expanded back to push + plain instruction)
    let probes: Vec<(String, String, String)> = vec![
        ("probeD90".to_string(), big_frame_program(17000), "17000\n-16999\n".to_string()),
        {
            let (src, exp) = big_pool_probe(65540);
            ("probebigpool".to_string(), src, exp)
        },
    ];
    // (first in the list: they are the slowest to compile and should overlap with everything else)
    for (n, src, _) in &probes {
        programs.insert(0, (n.clone(), src.clone()));
    }
    // chains of literal operands after a variable: every operator pair, in one program per triple
    let (chain_ints, chain_floats) = chain_triples(&mut ctx.rng, quick);
    for (i, (v, a, b)) in chain_ints.iter().enumerate() {
        programs.push((format!("chainint{i}"), chain_bundle(false, v, a, b, &["+", "-", "*", "/", "%"])));
    }
    for (i, (v, a, b)) in chain_floats.iter().enumerate() {
        programs.push((format!("chainfloat{i}"), chain_bundle(true, v, a, b, &["+", "-", "*", "/"])));
    }

    struct PRes {
        on: Canon,
        off: Canon,
        dump: Option<Dump>,
        expand: Option<(String, String, usize, Vec<String>)>,
        expand_spec: Vec<String>,
    }
    let results = par_map(&programs, |(name, src)| {
        let (mut on, dump, pdump) = run_traced(src);
        let mut off = run_canon(src, true);
        // The value left on main's stack is the program's value only when the last statement is an
        // expression; otherwise it is whichever local got the last slot (hash-set order over node ids that
        // differ between compilations). Compare it only when the source ends in an expression line AND it
        // is stable over repeated compilations.
        let mut keep_top = ends_with_value(src);
        if keep_top && on.top != off.top {
            let on2 = run_canon(src, false);
            let on3 = run_canon(src, false);
            let off2 = run_canon(src, true);
            keep_top = on2.top == on.top && on3.top == on.top && off2.top == off.top;
        }
        if !keep_top {
            on.top = "n/a".into();
            off.top = "n/a".into();
        }
        // `expand_immediates` tie for the directed / intrinsics / probe programs
        let mut expand_spec = vec![];
        let want_expand = name.starts_with("probe") || name.starts_with("intrinsics") || name.starts_with("directed");
        let expand = match (&dump, &pdump) {
            (Some(d), Some(pd)) if want_expand => expand_case(d, pd, name, &mut expand_spec),
            _ => None,
        };
        PRes { on, off, dump, expand, expand_spec }
    });
    let mut rule_hist: std::collections::BTreeMap<String, u64> = Default::default();
    for ((name, src), r) in programs.iter().zip(&results) {
        let family = name.trim_end_matches(|c: char| c.is_ascii_digit());
        ctx.count(&format!("prog:{family}"));
        let st = r.on.status.split(':').next().unwrap_or("").to_string();
        ctx.count(&format!("outcome:{family}:{st}"));
        if r.on != r.off {
            let shown: String = if src.len() > 20000 { format!("(source of {} bytes omitted: see the probe's generator in c05.rs)", src.len()) } else { src.clone() };
            let (a, b): (Vec<&str>, Vec<&str>) = (r.on.out.lines().collect(), r.off.out.lines().collect());
            let at = a.iter().zip(&b).position(|(x, y)| x != y).unwrap_or(a.len().min(b.len()));
            ctx.spec_fail(format!(
                "program {name}: optimizer on → {} top {}; optimizer off → {} top {}; outputs first differ at printed line {at}: on {:?}, off {:?}\n{shown}",
                r.on.status, r.on.top, r.off.status, r.off.top, a.get(at), b.get(at)
            ));
        }
        if r.on.status == "rejected" && std::env::var("VERIF_DEBUG").is_ok() && family == "gen" {
            let rr = run_program(src);
            if let Outcome::Rejected(m) = rr.outcome {
                eprintln!("REJECTED {name}: {}\n{src}", m.chars().take(600).collect::<String>());
            }
        }
        if r.on.status.starts_with("crash") {
            ctx.notes.push(format!("{name}: {} (compiler or VM host panic; not a C05 matter unless on/off differ)", r.on.status));
        }
        let Some(d) = &r.dump else { continue };
        if d.trace.len() < 2 {
            continue;
        }
        let mut union: BTreeSet<String> = BTreeSet::new();
        let npass = d.trace.len() - 1;
        for k in 0..npass {
            let mut t = BTreeSet::new();
            fold_table(&d.trace[k], &mut t);
            union.extend(t.iter().cloned());
            let send = (!quick || k == 0 || k + 1 == npass) && d.trace[k].len() < 20000;
            if send {
                let table: Vec<String> = t.into_iter().collect();
                let lines: Vec<String> = d.trace[k].iter().map(|l| token_of_line(l)).collect();
                let after: Vec<String> = d.trace[k + 1].iter().map(|l| token_of_line(l)).collect();
                let req = format!("opt pass {} {} #{name}.pass{k}", table.join(" "), lines.join(" "));
                ctx.case(req.replace("  ", " "), if after.is_empty() { "-".into() } else { after.join(" ") });
            }
        }
        let table: Vec<String> = union.into_iter().collect();
        let lines: Vec<String> = d.trace[0].iter().map(|l| token_of_line(l)).collect();
        let after: Vec<String> = d.trace[npass].iter().map(|l| token_of_line(l)).collect();
        ctx.case(
            format!("opt full {} {} #{name}", table.join(" "), lines.join(" ")).replace("  ", " "),
            if after.is_empty() { "-".into() } else { after.join(" ") },
        );
        ctx.count(&format!("passes:{}", npass.min(6)));
        // which instruction kinds appear only after optimization = which rules fired
        let before: BTreeSet<String> = d.trace[0].iter().filter_map(|l| instr_text(l)).map(|t| t.split('(').next().unwrap_or("").to_string()).collect();
        for l in &d.trace[npass] {
            if let Some(t) = instr_text(l) {
                let n = t.split('(').next().unwrap_or("").to_string();
                if n.ends_with("Imm") || !before.contains(&n) {
                    *rule_hist.entry(format!("emitted:{n}")).or_insert(0) += 1;
                }
                if t.contains("Offset(") && !t.starts_with("LoadOffset") && !t.starts_with("StoreOffset") {
                    *rule_hist.entry("emitted:fused-offset-operand".into()).or_insert(0) += 1;
                }
            }
        }
        let shrink = d.trace[0].len() - d.trace[npass].len();
        ctx.count(if shrink == 0 { "shrink:0" } else if shrink < 10 { "shrink:1-9" } else { "shrink:10+" });
    }
    for (k, v) in rule_hist {
        *ctx.hist.entry(k).or_insert(0) += v;
    }
    // hard regression probes: known output, optimizer on and off
    for (name, _, expected) in &probes {
        let i = programs.iter().position(|p| &p.0 == name).unwrap();
        for (which, c) in [("on", &results[i].on), ("off", &results[i].off)] {
            if c.status != "done" || &c.out != expected {
                let (a, b): (Vec<&str>, Vec<&str>) = (c.out.lines().collect(), expected.lines().collect());
                let at = a.iter().zip(&b).position(|(x, y)| x != y).unwrap_or(a.len().min(b.len()));
                let src_line = programs[i].1.lines().filter(|l| l.starts_with("println(")).nth(at).unwrap_or("?");
                let shown: String = src_line.chars().take(200).collect();
                ctx.spec_fail(format!(
                    "regression probe {name} (optimizer {which}): status {}; printed line {at} is {:?}, expected {:?}; it is printed by `{shown}` (operands are built from n = the array length)",
                    c.status, a.get(at), b.get(at)
                ));
            }
        }
    }
    // `expand_immediates`: the final instruction list against Opt.expandImmediates (every directed /
    // intrinsics / probe program; only the big pool has constants beyond 16 bits)
    for ((name, _), r) in programs.iter().zip(&results) {
        for s in &r.expand_spec {
            ctx.spec_fail(s.clone());
        }
        if let Some((req, imp, expanded, kinds)) = &r.expand {
            ctx.case(req.clone(), imp.clone());
            *ctx.hist.entry("expand:immediates-expanded".into()).or_insert(0) += *expanded as u64;
            for k in kinds {
                ctx.count(&format!("expand:late-constant:{k}"));
            }
            if name == "probebigpool" {
                const ALL: [&str; 23] = ["AddIntImm", "SubIntImm", "MulIntImm", "DivIntImm", "PowIntImm", "ModuloImm", "LessThanIntImm",
                    "LessThanOrEqualIntImm", "GreaterThanIntImm", "GreaterThanOrEqualIntImm", "EqualIntImm", "StoreOffsetImm", "ArrayPushIntImm",
                    "AddFloatImm", "SubFloatImm", "MulFloatImm", "DivFloatImm", "PowFloatImm", "LessThanFloatImm", "LessThanOrEqualFloatImm",
                    "GreaterThanFloatImm", "GreaterThanOrEqualFloatImm", "EqualFloatImm"];
                let missing: Vec<&&str> = ALL.iter().filter(|k| !kinds.iter().any(|x| x == **k)).collect();
                if !missing.is_empty() || *expanded == 0 {
                    ctx.spec_fail(format!("probebigpool: these immediate-operand instructions do not occur with a constant beyond the 16-bit pool index (the probe no longer reaches without_imm for them): {missing:?}"));
                }
            }
        }
    }

    // ---------- (3): literal / variable forms
    let g = int_grid();
    let mut groups: Vec<FormGroup> = vec![];
    let int_ops = ["+", "-", "*", "/", "%", "^", "<", "<=", ">", ">=", "=="];
    let mut pairs: Vec<(i64, i64)> = vec![
        (i64::MIN, -1), (i64::MAX, 1), (i64::MIN, 1), (2, 4294967298), (2, 63), (2, 62), (-2, 63), (3037000500, 3037000500),
        (-7, 3), (7, -3), (5, 0), (0, 0), (i64::MIN, i64::MIN), (i64::MAX, i64::MAX), (1, 1), (3, 7),
    ];
    if quick {
        for _ in 0..20 {
            let a = *ctx.rng.pick(&g);
            let b = *ctx.rng.pick(&g);
            pairs.push((a, b));
        }
    } else {
        // thorough: every grid value paired with 8 seeded partners (the full 49x49 grid is C15's job)
        for &a in &g {
            for _ in 0..8 {
                let b = *ctx.rng.pick(&g);
                pairs.push((a, b));
            }
        }
    }
    for (a, b) in &pairs {
        for op in int_ops {
            groups.push(forms_int(op, *a, *b));
        }
    }
    for a in if quick { g.iter().step_by(3).cloned().collect::<Vec<_>>() } else { g.clone() } {
        groups.push(forms_neg(Some(a), None));
    }
    let fs = float_set();
    let float_ops = ["+", "-", "*", "/", "^", "<", "<=", ">", ">=", "=="];
    let mut fpairs: Vec<(usize, usize)> = vec![];
    if quick {
        // every operand against a rotating partner plus the known trouble spots
        for i in 0..fs.len() {
            fpairs.push((i, (i * 7 + 3 + ctx.rng.below(3) as usize) % fs.len()));
        }
        let idx = |t: &str| fs.iter().position(|x| x.0 == t).unwrap();
        for (a, b) in [("inf", "inf"), ("inf", "0e0"), ("nan", "nan"), ("nan", "0e0"), ("0e0", "0e0"), ("1e0", "0e0"), ("1e0", "-0e0"), ("-inf", "inf"), ("0e0", "-0e0"), ("-0e0", "0e0")] {
            fpairs.push((idx(a), idx(b)));
        }
    } else {
        for i in 0..fs.len() {
            for j in 0..fs.len() {
                fpairs.push((i, j));
            }
        }
    }
    for (i, j) in &fpairs {
        for op in float_ops {
            groups.push(forms_float(op, &fs[*i], &fs[*j]));
        }
    }
    for a in &fs {
        groups.push(forms_neg(None, Some(a)));
    }
    // chains `v op1 A op2 B` (+ a third literal for the same-operator pairs)
    for (v, a, b) in &chain_ints {
        let ops = ["+", "-", "*", "/", "%"];
        for o1 in ops {
            for o2 in ops {
                groups.extend(forms_chain(false, v, &[a.clone(), b.clone()], &[o1, o2], ""));
            }
            groups.extend(forms_chain(false, v, &[a.clone(), b.clone(), a.clone()], &[o1, o1, o1], "3"));
        }
    }
    for (v, a, b) in &chain_floats {
        let ops = ["+", "-", "*", "/"];
        for o1 in ops {
            for o2 in ops {
                groups.extend(forms_chain(true, v, &[a.clone(), b.clone()], &[o1, o2], ""));
            }
            groups.extend(forms_chain(true, v, &[a.clone(), b.clone(), a.clone()], &[o1, o1, o1], "3"));
        }
    }
    let res = par_map(&groups, run_group);
    for (grp, r) in groups.iter().zip(res) {
        for f in &grp.forms {
            ctx.count(&format!("form:{}", f.0));
        }
        *ctx.hist.entry("forms:program-runs".into()).or_insert(0) += r.runs as u64;
        let class = r.reference.status.split(':').next().unwrap_or("").to_string();
        let mut w = grp.what.split(' ');
        let (ty, x, y) = (w.next().unwrap_or(""), w.next().unwrap_or(""), w.next().unwrap_or(""));
        let opname = if x == "neg" || x.starts_with("chain") { x } else { y };
        ctx.count(&format!("forms-outcome:{ty}:{opname}:{class}"));
        if !r.bad.is_empty() {
            let mut srcs = String::new();
            for (k, f) in grp.forms.iter().enumerate() {
                srcs.push_str(&format!("--- form {}\n{}", f.0, f.1.replace('@', &k.to_string())));
            }
            ctx.spec_fail(format!(
                "{}: operand forms disagree; reference (variables, optimizer off) = {} {:?}; {}\n{srcs}",
                grp.what, r.reference.status, r.reference.out, r.bad.join("; ")
            ));
        }
    }
    // ---------- (5): every *Imm instruction at a spread of non-literal operand values
    let jobs = imm_jobs(&mut ctx.rng, quick);
    let res = par_map(&jobs, run_imm);
    for (j, r) in jobs.iter().zip(res) {
        *ctx.hist.entry(format!("imm-sweep:{}:operand-values", j.imm_name)).or_insert(0) += j.vals.len() as u64;
        *ctx.hist.entry("imm-sweep:program-runs".into()).or_insert(0) += r.runs as u64;
        if !r.has_imm {
            ctx.count(&format!("imm-sweep:{}:not-emitted", j.imm_name));
            ctx.notes.push(format!("imm sweep: `v {} {}` did not compile to {}", j.op, j.lit, j.imm_name));
        }
        for b in r.bad.iter().take(3) {
            ctx.spec_fail(format!("{} sweep: {b}", j.imm_name));
        }
    }
    ctx.finish();
}
