//! C02 correspondence: generated programs of tiers F0–F3 are compiled and run by the real compiler + VM
//! under several step budgets; output, final value and error kind are compared with the Lean reference
//! interpreter `Abra.Sem` run on the generator's own AST (end-to-end tie), and for F0 the real
//! unoptimised instruction stream of `<main>` is compared with the Lean compiler model `compileF0`
//! (codegen tie, requests `cgen …`).  A difference end to end is a concrete failing program: it is
//! shrunk and reported through `spec_fail`.  Also run: the template families of harness/src/bg9cov.rs that name C02 (Rust
//! oracles: wide calls, void field targets, wildcard annotations, D21/D91 regressions, the pending-jump family) and, for
//! the pending-jump family, the Pops the real translator emits per break/continue against the Lean model `Abra.Pending`
//! (`pending …`); the three former D21 witnesses are hard regression programs.
#[path = "../bg9cov.rs"]
mod bg9cov;
#[path = "../progen.rs"]
mod progen;
use progen::run::*;
use progen::*;
use vh::*;

struct Job {
    tier: u8,
    prog: Program,
    src: String,
    req: String,
}

/// `<main>` of the real unoptimised assembly in the canonical spelling of the `cgen` driver: labels
/// resolved to instruction indices, `call 1 prelude.println…` as `print <type>`, slots renamed in order of
/// first appearance.
fn real_main_code(src: &str) -> Result<String, String> {
    let lines = real_assembly(src)?;
    let lines = &lines;
    // main = everything up to and including the first `stop`
    let mut main: Vec<&str> = vec![];
    for l in lines {
        main.push(l.as_str());
        if l.trim() == "stop" {
            break;
        }
    }
    let mut labels = std::collections::HashMap::new();
    let mut n = 0usize;
    for l in &main {
        if let Some(name) = l.strip_suffix(':') {
            labels.insert(name.to_string(), n);
        } else {
            n += 1;
        }
    }
    let mut seen: Vec<String> = vec![];
    let mut out: Vec<String> = vec![];
    for l in &main {
        if l.ends_with(':') {
            continue;
        }
        let w: Vec<&str> = l.trim().split(' ').collect();
        let t = match w[0] {
            "jump" | "jump_if" | "jump_if_false" => match labels.get(w[1]) {
                Some(k) => format!("{} {k}", w[0]),
                None => format!("{} ?{}", w[0], w[1]),
            },
            "load_offset" | "store_offset" => {
                let k = match seen.iter().position(|x| x == w[1]) {
                    Some(k) => k,
                    None => {
                        seen.push(w[1].to_string());
                        seen.len() - 1
                    }
                };
                format!("{} {k}", w[0])
            }
            "call" if w.len() == 3 && w[1] == "1" && w[2].starts_with("prelude.println__%fn(int)->void") => "print int".to_string(),
            "call" if w.len() == 3 && w[1] == "1" && w[2].starts_with("prelude.println__%fn(bool)->void") => "print bool".to_string(),
            _ => l.trim().to_string(),
        };
        out.push(t);
    }
    Ok(out.join(";"))
}

fn d21_witnesses() -> Vec<(&'static str, &'static str, &'static str)> {
    vec![
        // (name, source, what the language reference gives)
        (
            "D21-f0-block-operand",
            "var s = 10\nlet r = 100 + { while true { s + { if true { break } else { }\n 1 } }\n 5 }\nprintln(r)\n",
            "105\n",
        ),
        (
            "D21-f1-tuple-operand",
            "var s = 10\nlet r = 100 + { while true { let t = (s, if true { break }) }\n 5 }\nprintln(r)\n",
            "105\n",
        ),
        (
            "D21-nested-for",
            "var n = 0\nfor i in 3 {\n  for j in 3 {\n    n += 1\n    let t = (j, if j == 1 { break })\n  }\n  if n > 50 { break }\n}\nprintln(n)\n",
            "6\n",
        ),
    ]
}

fn main() {
    let mut ctx = Ctx::from_env("C02");
    let debug = std::env::var("VERIF_DEBUG").is_ok();
    if debug {
        std::panic::set_hook(Box::new(|i| eprintln!("PANIC: {i}")));
    }

    // ---- D21 (repaired by 0c43abd): the former witnesses are HARD regression programs
    for (name, src, expect) in d21_witnesses() {
        let r = run_program_opts(src, &RunOpts { budgets: vec![1000], max_steps: 200_000, files: vec![] });
        let ok = r.outcome == Outcome::Done && r.out == expect;
        ctx.count(&format!("regression:{name}:{}", if ok { "ok" } else { "FAILS" }));
        if !ok {
            ctx.spec_fail(format!("regression of a repaired defect ({name}): implementation {} out={:?}, the reference gives {:?}\n{src}", r.outcome.tag(), r.out, expect));
        }
    }

    // shapes of defects being fixed: probed, switched on as soon as the implementation agrees
    let base = probe_shapes(&mut ctx);
    // coverage-guided template families with their own oracles (harness/src/bg9cov.rs)
    bg9cov::run_templates(&mut ctx, "C02");

    // ---- pending-operand tie: the number of Pops the real translator emits for every break/continue of the
    // pending-jump family (read off the unoptimised assembly, instructions carry their source line) against the Lean
    // model `Abra.Pending` (`pending …`); a difference is a desynchronised operand stack: failing input
    let pcs = bg9cov::pending_cases(ctx.quick());
    let preal = par_map(&pcs, |c| bg9cov::real_jump_pops(&c.tpl.src, &[]));
    let pmodel = model_batch(&pcs.iter().map(|c| c.request.clone()).collect::<Vec<_>>());
    for ((c, r), m) in pcs.iter().zip(preal).zip(pmodel) {
        let ans = match &r {
            Ok(v) if v.is_empty() => "-".to_string(),
            Ok(v) => v.iter().map(|n| n.to_string()).collect::<Vec<_>>().join(" "),
            Err(e) => format!("error {}", one_line(e)),
        };
        if ans == m {
            ctx.count("pending-tie:ok");
        } else {
            ctx.count("pending-tie:DIFFERS");
            ctx.spec_fail(format!(
                "{}: the translator emits Pops [{ans}] for the break/continue statements (source order), the operand stack holds [{m}] operands pushed since the loop body began (Abra.Pending)\n{}",
                c.tpl.name, c.tpl.src
            ));
        }
        ctx.case(format!("{} #{}", c.request, c.tpl.name.replace(' ', "_")), ans);
    }

    // ---- generated programs
    let per_tier: [usize; 4] = if ctx.quick() { [110, 90, 90, 90] } else { [2500, 2500, 2500, 2500] };
    let mut jobs: Vec<Job> = vec![];
    for tier in 0u8..4 {
        for k in 0..per_tier[tier as usize] {
            let mut r = Rng::new(ctx.rng.next());
            let big = ctx.quick();
            let o = GenOpts {
                tier,
                stmts: 4 + (k % 9),
                budget: if big { 40 + (k as i32 % 5) * 12 } else { 40 + (k as i32 % 9) * 20 },
                // one third keeps break/continue at statement level (the historical DepthSafe shape)
                depth_safe: k % 3 == 0,
                big_ints: if k % 7 == 0 { 12 } else { 2 },
                ..base.clone()
            };
            let (prog, hist) = generate(&mut r, o);
            for (f, n) in hist {
                *ctx.hist.entry(format!("gen:{f}")).or_insert(0) += n;
            }
            let src = program_src(&prog);
            let req = sem_request(&prog, &format!("F{tier}.{k}"));
            jobs.push(Job { tier, prog, src, req });
        }
    }
    let results = par_map(&jobs, |j| real_all_budgets(&j.src, &j.prog.final_ty));
    let model = model_batch(&jobs.iter().map(|j| j.req.clone()).collect::<Vec<_>>());
    let mut rejected = 0usize;
    let mut shown = 0usize;
    let mut to_shrink: Vec<usize> = vec![];
    for (i, (j, (real, answers))) in jobs.iter().zip(results.iter()).enumerate() {
        if !real.accepted {
            rejected += 1;
            ctx.count(&format!("F{}:generator-rejected", j.tier));
            if debug && shown < 40 {
                shown += 1;
                let _ = std::fs::create_dir_all("/tmp/bG9/rej");
                let _ = std::fs::write(format!("/tmp/bG9/rej/r{shown}.abra"), format!("{}\n/* {} */\n", j.src, real.detail));
            }
            continue;
        }
        let kind = real.answer.split(' ').next().unwrap_or("").to_string();
        ctx.count(&format!("F{}:{}", j.tier, kind));
        // budgets must not matter (C10 is the property about that; here it would make the tie ambiguous)
        if answers.iter().any(|a| a != &answers[0]) {
            ctx.spec_fail(format!("result depends on the step budget {:?}: {:?}\n{}", BUDGET_SETS, answers, j.src));
        }
        if model[i] != real.answer {
            to_shrink.push(i);
        }
        ctx.case(j.req.clone(), real.answer.clone());
    }
    // ---- codegen tie (F0): the real unoptimised `<main>` equals `compileF0`, instruction for instruction
    let f0: Vec<&Job> = jobs.iter().filter(|j| j.tier == 0).collect();
    let codes = par_map(&f0, |j| real_main_code(&j.src));
    for (j, c) in f0.iter().zip(codes) {
        match c {
            Ok(code) => {
                ctx.count("cgen:compared");
                ctx.count(&format!("cgen:len<{}", ((code.matches(';').count() / 50) + 1) * 50));
                ctx.case(format!("cgen {} #{}", program_sx(&j.prog), j.req.rsplit('#').next().unwrap_or("")), code);
            }
            Err(e) => ctx.count(&format!("cgen:{e}")),
        }
    }
    if rejected * 20 > jobs.len() {
        ctx.notes.push(format!("generator produced {rejected} programs the checker rejects (of {})", jobs.len()));
    }
    // shrink what differs (a handful: each is already a concrete failing program)
    let shrunk: Vec<(usize, Program)> = par_map(&to_shrink.iter().take(6).cloned().collect::<Vec<_>>(), |&i| (i, shrink(&jobs[i].prog, 400)));
    for (i, p) in shrunk {
        let src = program_src(&p);
        let what = still_fails(&p).unwrap_or((results[i].0.answer.clone(), model[i].clone()));
        ctx.spec_fail(format!(
            "compiled program differs from the reference interpreter (tier F{}): implementation `{}`, reference `{}`; shrunk program:\n{}\n-- term: {}",
            jobs[i].tier,
            what.0,
            what.1,
            src,
            program_sx(&p)
        ));
    }
    for &i in to_shrink.iter().skip(6) {
        ctx.spec_fail(format!(
            "compiled program differs from the reference interpreter (tier F{}): implementation `{}`, reference `{}`; program:\n{}",
            jobs[i].tier, results[i].0.answer, model[i], jobs[i].src
        ));
    }
    ctx.finish();
}
