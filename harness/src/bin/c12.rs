//! C12 correspondence: (scrutinee type, arm list) pairs from the bounded universe; the checker's
//! verdict (accepted / non-exhaustive + witness list) through the public API is compared with the
//! Lean model M9, and checked directly against brute force over every value of the domain.
#[path = "../patuniv.rs"]
mod patuniv;
use patuniv::*;
use vh::*;

fn main() {
    // `c12 --placements`: print the verdict of two fixed matches at every placement (template self-test)
    if std::env::args().nth(1).as_deref() == Some("--placements") {
        let u = universe();
        let ty = Ty::Bool;
        for arms in [vec![Pat::Bool(true), Pat::Bool(false)], vec![Pat::Bool(true), Pat::Bool(true)]] {
            for pl in 0..PLACEMENTS.len() {
                let prog = match_program_at(&u, &ty, &Val::Bool(true), &arms, pl);
                let v = std::thread::Builder::new().stack_size(256 << 20)
                    .spawn(move || checker_verdict(&prog)).unwrap().join().unwrap();
                println!("{:14} {}", PLACEMENTS[pl], verdict_key(&v));
            }
        }
        return;
    }
    let mut ctx = Ctx::from_env("C12");
    let u = universe();
    let quick = ctx.quick();
    let cases = gen_cases(&u, &mut ctx.rng, quick);
    placement_selftest(&u, &mut ctx);
    // placement dimension (D70): case i sits at placement i mod 17; every third case is also checked
    // at the let-initialiser placement and both verdicts must agree
    let idx: Vec<usize> = (0..cases.len()).collect();
    let verdicts = par_map(&idx, |&i| {
        let c = &cases[i];
        let pl = i % PLACEMENTS.len();
        let prog = match_program_at(&u, &c.ty, &some_value(&u, &c.ty), &c.arms, pl);
        let v = checker_verdict(&prog);
        let base = if i % 3 == 0 && pl != 0 {
            Some(checker_verdict(&match_program_at(&u, &c.ty, &some_value(&u, &c.ty), &c.arms, 0)))
        } else {
            None
        };
        (v, prog.src, base)
    });
    for (i, (c, (v, src, base))) in cases.iter().zip(verdicts).enumerate() {
        let pl = i % PLACEMENTS.len();
        ctx.count(&format!("placement:{}", PLACEMENTS[pl]));
        if let Some(b) = &base {
            ctx.count("placement-pairs-compared");
            if verdict_key(b) != verdict_key(&v) {
                ctx.spec_fail(format!(
                    "verdict depends on where the match stands: match on {} with arms [{}] as {}: {} / as let-init: {}",
                    u.ty_src(&c.ty), c.arms.iter().map(|p| u.pat_src(p)).collect::<Vec<_>>().join(" ; "),
                    PLACEMENTS[pl], verdict_key(&v), verdict_key(b)
                ));
            }
        }
        let req = format!("{} #pl={}", request(&u, "w", &c.ty, &c.arms), PLACEMENTS[pl]);
        ctx.count(&format!("origin:{}", c.origin));
        ctx.count(&format!("type:{}", head_kind(&c.ty)));
        ctx.count(&format!("arms:{}", c.arms.len()));
        if c.arms.iter().any(has_or) {
            ctx.count("with-or-pattern");
        }
        if let Some(p) = &v.crash {
            ctx.count("verdict:crash");
            let arms_txt = c.arms.iter().map(|p| u.pat_src(p)).collect::<Vec<_>>().join(" ; ");
            ctx.spec_fail(format!("checker panicked ({p}) on a match on {} with arms [{arms_txt}]", u.ty_src(&c.ty)));
            let _ = &src;
            ctx.case(req, format!("crash {}", p.replace('\n', " ")));
            continue;
        }
        if !v.other.is_empty() {
            // the generator is supposed to produce well-typed programs only
            ctx.count("verdict:other-diagnostic");
            ctx.case(req, format!("other {}", v.other.join(" / ").replace('\n', " ")));
            continue;
        }
        // ---- the property itself, by brute force over the whole (finite representative) domain
        let values = u.values(&c.ty, 5);
        let unmatched: Vec<&Val> = values.iter().filter(|x| first_match(&c.arms, x).is_none()).collect();
        let arms_txt = c.arms.iter().map(|p| u.pat_src(p)).collect::<Vec<_>>().join(" ; ");
        let mut canon: Vec<String> = vec![];
        if !v.nonexhaustive {
            ctx.count("verdict:accepted");
            if let Some(x) = unmatched.first() {
                ctx.spec_fail(format!(
                    "match on {} with arms [{arms_txt}] is ACCEPTED but the value {} matches no arm",
                    u.ty_src(&c.ty), u.val_src(x, &c.ty)
                ));
            }
        } else {
            ctx.count("verdict:non-exhaustive");
            ctx.count(&format!("witnesses:{}", v.witnesses.len().min(5)));
            if unmatched.is_empty() {
                ctx.spec_fail(format!(
                    "match on {} with arms [{arms_txt}] is reported NON-EXHAUSTIVE (missing {:?}) but every value matches an arm",
                    u.ty_src(&c.ty), v.witnesses
                ));
            }
            if v.witnesses.is_empty() {
                ctx.spec_fail(format!("non-exhaustive report without a missing case, arms [{arms_txt}]"));
            }
            for w in &v.witnesses {
                match parse_witness(&u, w, &c.ty) {
                    Some(wp) => {
                        if !unmatched.is_empty() && !unmatched.iter().any(|x| witness_matches(&wp, x)) {
                            ctx.spec_fail(format!(
                                "match on {} with arms [{arms_txt}]: listed missing case `{w}` covers no unmatched value",
                                u.ty_src(&c.ty)
                            ));
                        }
                        canon.push(witness_canon(&u, &wp));
                    }
                    None => canon.push(format!("unparsed<{w}>")),
                }
            }
        }
        canon.sort();
        ctx.case(req, format!("w={}", canon.join(";")));
    }
    ctx.finish();
}
