//! C12 correspondence: (scrutinee type, arm list) pairs from the bounded universe; the checker's
//! verdict (accepted / non-exhaustive + witness list) through the public API is compared with the
//! Lean model M9, and checked directly against brute force over every value of the domain.
#[path = "../patuniv.rs"]
mod patuniv;
use patuniv::*;
use vh::*;

fn main() {
    // `c12 --placements`: print the verdict of two fixed matches at every placement (template self-test)
    if std::env::args().nth(1).as_deref() == Some("--placements") {
        let u = universe();
        let ty = Ty::Bool;
        for arms in [vec![Pat::Bool(true), Pat::Bool(false)], vec![Pat::Bool(true), Pat::Bool(true)]] {
            for pl in 0..PLACEMENTS.len() {
                let prog = match_program_at(&u, &ty, &Val::Bool(true), &arms, pl);
                let v = std::thread::Builder::new().stack_size(256 << 20)
                    .spawn(move || checker_verdict(&prog)).unwrap().join().unwrap();
                println!("{:14} {}", PLACEMENTS[pl], verdict_key(&v));
            }
        }
        return;
    }
    let mut ctx = Ctx::from_env("C12");
    let u = universe();
    let quick = ctx.quick();
    let cases = gen_cases(&u, &mut ctx.rng, quick);
    placement_selftest(&u, &mut ctx);
    // placement dimension (D70): case i sits at placement i mod 17; every third case is also checked
    // at the let-initialiser placement and both verdicts must agree
    let idx: Vec<usize> = (0..cases.len()).collect();
    let verdicts = par_map(&idx, |&i| {
        let c = &cases[i];
        let pl = placement_for(&c.arms, i % PLACEMENTS.len());
        let prog = match_program_at(&u, &c.ty, &some_value(&u, &c.ty), &c.arms, pl);
        let v = checker_verdict(&prog);
        let base = if i % 3 == 0 && pl != 0 {
            Some(checker_verdict(&match_program_at(&u, &c.ty, &some_value(&u, &c.ty), &c.arms, 0)))
        } else {
            None
        };
        (v, prog.src, base)
    });
    for (i, (c, (v, src, base))) in cases.iter().zip(verdicts).enumerate() {
        let pl = placement_for(&c.arms, i % PLACEMENTS.len());
        ctx.count(&format!("placement:{}", PLACEMENTS[pl]));
        if let Some(b) = &base {
            ctx.count("placement-pairs-compared");
            if verdict_key(b) != verdict_key(&v) {
                ctx.spec_fail(format!(
                    "verdict depends on where the match stands: match on {} with arms [{}] as {}: {} / as let-init: {}",
                    u.ty_src(&c.ty), c.arms.iter().map(|p| u.pat_src(p)).collect::<Vec<_>>().join(" ; "),
                    PLACEMENTS[pl], verdict_key(&v), verdict_key(b)
                ));
            }
        }
        let req = format!("{} #pl={}", request(&u, "w", &c.ty, &c.arms), PLACEMENTS[pl]);
        ctx.count(&format!("origin:{}", c.origin));
        ctx.count(&format!("type:{}", head_kind(&c.ty)));
        ctx.count(&format!("arms:{}", c.arms.len()));
        if c.arms.iter().any(has_or) {
            ctx.count("with-or-pattern");
        }
        if let Some(p) = &v.crash {
            ctx.count("verdict:crash");
            let arms_txt = c.arms.iter().map(|p| u.pat_src(p)).collect::<Vec<_>>().join(" ; ");
            ctx.spec_fail(format!("checker panicked ({p}) on a match on {} with arms [{arms_txt}]", u.ty_src(&c.ty)));
            let _ = &src;
            ctx.case(req, format!("crash {}", p.replace('\n', " ")));
            continue;
        }
        if !v.other.is_empty() {
            // the generator is supposed to produce well-typed programs only
            ctx.count("verdict:other-diagnostic");
            ctx.case(req, format!("other {}", v.other.join(" / ").replace('\n', " ")));
            continue;
        }
        // ---- the property itself, by brute force over the whole (finite representative) domain
        let values = u.values(&c.ty, 5);
        let unmatched: Vec<&Val> = values.iter().filter(|x| first_match(&c.arms, x).is_none()).collect();
        let arms_txt = c.arms.iter().map(|p| u.pat_src(p)).collect::<Vec<_>>().join(" ; ");
        let mut canon: Vec<String> = vec![];
        if !v.nonexhaustive {
            ctx.count("verdict:accepted");
            if let Some(x) = unmatched.first() {
                ctx.spec_fail(format!(
                    "match on {} with arms [{arms_txt}] is ACCEPTED but the value {} matches no arm",
                    u.ty_src(&c.ty), u.val_src(x, &c.ty)
                ));
            }
        } else {
            ctx.count("verdict:non-exhaustive");
            ctx.count(&format!("witnesses:{}", v.witnesses.len().min(5)));
            if unmatched.is_empty() {
                ctx.spec_fail(format!(
                    "match on {} with arms [{arms_txt}] is reported NON-EXHAUSTIVE (missing {:?}) but every value matches an arm",
                    u.ty_src(&c.ty), v.witnesses
                ));
            }
            if v.witnesses.is_empty() {
                ctx.spec_fail(format!("non-exhaustive report without a missing case, arms [{arms_txt}]"));
            }
            for w in &v.witnesses {
                match parse_witness(&u, w, &c.ty) {
                    Some(wp) => {
                        if !unmatched.is_empty() && !unmatched.iter().any(|x| witness_matches(&wp, x)) {
                            ctx.spec_fail(format!(
                                "match on {} with arms [{arms_txt}]: listed missing case `{w}` covers no unmatched value",
                                u.ty_src(&c.ty)
                            ));
                        }
                        canon.push(witness_canon(&u, &wp));
                    }
                    None => canon.push(format!("unparsed<{w}>")),
                }
            }
        }
        canon.sort();
        ctx.case(req, format!("w={}", canon.join(";")));
    }
    opaque_columns(&mut ctx);
    let_checks(&u, &mut ctx, quick);
    let_regressions(&mut ctx);
    runtime_half(&u, &mut ctx, quick);
    ctx.finish();
}

/// The run-time half of C12: an accepted match selects, for every value of the scrutinee type, the
/// arm the matrix model's semantics selects (first arm whose pattern matches).  Arm lists with two or
/// more SIBLING or-patterns (tuple / struct components, fields of a variant) so that a value may need a
/// right-then-left combination of alternatives, next to ordinary generated arms.
fn runtime_half(u: &Universe, ctx: &mut Ctx, quick: bool) {
    let mut tys: Vec<Ty> = scrutinee_types().into_iter().chain(scrutinee_types_d46())
        .filter(|t| sibling_or_pat(u, t, &mut Rng::new(1)).is_some()).collect();
    tys.push(Ty::Tuple(vec![Ty::Enum(0), Ty::Bool]));
    tys.push(Ty::Tuple(vec![Ty::Bool, Ty::Bool, Ty::Bool]));
    let n_cases = if quick { 150 } else { 4000 };
    let max_vals = if quick { 12 } else { 64 };
    struct RJob { req: String, src: String, spec: String, what: String }
    let mut jobs: Vec<RJob> = vec![];
    let mut made = 0;
    let mut tries = 0;
    while made < n_cases && tries < n_cases * 20 {
        tries += 1;
        let ty = ctx.rng.pick(&tys).clone();
        let values = u.values(&ty, 3);
        // one or two arms with sibling or-patterns, some ordinary arms before/after them
        let mut arms: Vec<Pat> = vec![];
        let mut none = None;
        if ctx.rng.chance(1, 2) {
            arms.push(u.gen_pat(&ty, 2, &mut ctx.rng, &mut none, false));
        }
        for _ in 0..1 + ctx.rng.below(2) {
            if let Some(p) = sibling_or_pat(u, &ty, &mut ctx.rng) {
                arms.push(p);
            }
        }
        if ctx.rng.chance(1, 3) {
            arms.push(u.gen_pat(&ty, 2, &mut ctx.rng, &mut none, false));
        }
        // acceptable to the checker: no unreachable arm, exhaustive (closed with a wildcard if needed)
        let mut reached = vec![false; arms.len()];
        let mut open_ = false;
        for x in &values {
            match first_match(&arms, x) {
                Some(k) => reached[k] = true,
                None => open_ = true,
            }
        }
        let mut k = 0;
        arms.retain(|_| { k += 1; reached[k - 1] });
        if open_ {
            arms.push(Pat::Wild);
        }
        if !arms.iter().any(|p| or_chains(p) >= 2) {
            continue;
        }
        made += 1;
        ctx.count("runtime:arm-lists");
        // every value when the type is small, otherwise the values that need a mixed combination first
        let mut chosen: Vec<&Val> = values.iter().collect();
        if chosen.len() > max_vals {
            let mut keyed: Vec<(bool, u64, &Val)> = chosen
                .into_iter()
                .map(|x| (first_match(&arms, x).map(|k| or_chains(&arms[k]) < 2).unwrap_or(true), ctx.rng.below(1000), x))
                .collect();
            keyed.sort_by_key(|t| (t.0, t.1));
            keyed.truncate(max_vals);
            chosen = keyed.into_iter().map(|t| t.2).collect();
        }
        for x in chosen {
            let prog = match_program_at(u, &ty, x, &arms, 0);
            let arm = first_match(&arms, x);
            jobs.push(RJob {
                req: format!("pc first {} {} {} {} {}", u.env_req(), u.ty_req(&ty), arms.len(),
                    arms.iter().map(|p| u.pat_req(p)).collect::<Vec<_>>().join(" "), val_req(x)),
                src: prog.src,
                spec: match arm { Some(k) => format!("arm={k}"), None => "arm=none".into() },
                what: format!("match {} on {} with arms [{}]", u.val_src(x, &ty), u.ty_src(&ty),
                    arms.iter().map(|p| u.pat_src(p)).collect::<Vec<_>>().join(" ; ")),
            });
        }
    }
    let results = par_map(&jobs, |j| run_program(&j.src));
    for (j, r) in jobs.iter().zip(results) {
        ctx.count("runtime:values-run");
        let imp = match &r.outcome {
            Outcome::Done => format!("arm={}", r.out.trim()),
            Outcome::Rejected(e) => format!("rejected {}", e.lines().nth(1).unwrap_or("").trim()),
            o => format!("{} {}", o.tag(), r.err_text.lines().next().unwrap_or("")),
        };
        if imp != j.spec {
            ctx.spec_fail(format!(
                "{}: the checker accepts the match, at run time the implementation gives `{imp}`, the first matching arm is `{}`",
                j.what, j.spec
            ));
        }
        ctx.case(j.req.clone(), imp);
    }
}

/// Scrutinee and field types outside the model's type language (arrays, function types, generic
/// structs / enums with function-typed fields): such a column admits only wildcards and bindings, so
/// the verdict is known without the model — fixed programs with their expected verdict (Rust-side
/// oracle only; see `assumptions` in props/C12.py).
fn opaque_columns(ctx: &mut Ctx) {
    // (program, non-exhaustive?, witnesses sorted, number of arms reported redundant)
    let cases: Vec<(&str, bool, Vec<&str>, usize)> = vec![
        ("let a = [1, 2]\nlet s: int = match a {\n}\nprintln(s)\n", true, vec!["_"], 0),
        ("let a = [1, 2]\nlet s: int = match a {\n  _ -> 0\n  x -> 1\n}\nprintln(s)\n", false, vec![], 1),
        ("let a = ([1, 2], true)\nlet s: int = match a {\n  (_, true) -> 0\n}\nprintln(s)\n", true, vec!["(_, false)"], 0),
        ("let f = (x: int) -> x + 1\nlet s: int = match (f, 1) {\n  (g, 1) -> g(1)\n  (_, 1) -> 0\n  (g, _) -> g(2)\n}\nprintln(s)\n", false, vec![], 1),
        ("type Hh<T> = {\n  f: T -> T\n  tag: bool\n}\nlet h = Hh(x -> x + 1, true)\nlet r: int = match h {\n  Hh(g, true) -> g(1)\n  Hh(g, false) -> g(2)\n}\nprintln(r)\n", false, vec![], 0),
        ("type Hh<T> = {\n  f: T -> T\n  tag: bool\n}\nlet h = Hh(x -> x + 1, true)\nlet r: int = match h {\n  Hh(g, true) -> g(1)\n}\nprintln(r)\n", true, vec!["Hh(f = _, tag = false)"], 0),
        ("type Vv<T> =\n  | Fun(T -> T)\n  | Non\nlet v: Vv<int> = Vv.Fun(x -> x * 2)\nlet s: int = match v {\n  .Fun(g) -> g(4)\n  .Non -> 0\n  .Fun(_) -> 1\n}\nprintln(s)\n", false, vec![], 1),
        ("type Vv<T> =\n  | Fun(T -> T)\n  | Non\nlet v: Vv<int> = Vv.Fun(x -> x * 2)\nlet s: int = match v {\n  .Non -> 0\n}\nprintln(s)\n", true, vec!["Fun of _"], 0),
        ("type Pt = {\n  x: int\n  y: int\n}\nlet p = Pt(1, 2)\nlet r: int = match p {\n}\nprintln(r)\n", true, vec!["Pt(x = _, y = _)"], 0),
        ("let o: option<int> = .some(1)\nlet r: int = match o {\n}\nprintln(r)\n", true, vec!["none", "some of _"], 0),
        ("let i: option<bool> = .none\nlet o: option<option<bool>> = .some(i)\nlet r: int = match o {\n  .some(.some(true)) -> 0\n  .none -> 1\n}\nprintln(r)\n", true, vec!["some of none", "some of some of false"], 0),
        // generic types whose payload nests the type parameter inside another nominal type (option, a user
        // generic, a tuple inside option, a recursive reference), instantiated at bool / a small enum, with
        // arms that enumerate the constructors at that depth without a wildcard
        ("type Wrap<T> =\n  | Full(option<T>)\n  | Hollow\nlet w: Wrap<bool> = Wrap.Full(.some(true))\nlet r: int = match w {\n  .Full(.some(true)) -> 0\n  .Full(.some(false)) -> 1\n  .Full(.none) -> 2\n  .Hollow -> 3\n}\nprintln(r)\n", false, vec![], 0),
        ("type Wrap<T> =\n  | Full(option<T>)\n  | Hollow\nlet w: Wrap<bool> = Wrap.Full(.some(true))\nlet r: int = match w {\n  .Full(.some(true)) -> 0\n  .Full(.none) -> 2\n  .Hollow -> 3\n}\nprintln(r)\n", true, vec!["Full of some of false"], 0),
        ("type Col =\n  | Red\n  | Green\ntype Chain<T> =\n  | Stop\n  | Link(T, Chain<T>)\nlet c: Chain<Col> = Chain.Link(Col.Red, Chain.Stop)\nlet r: int = match c {\n  .Stop -> 0\n  .Link(.Red, .Stop) -> 1\n  .Link(.Green, .Stop) -> 2\n  .Link(_, .Link(.Red, _)) -> 3\n  .Link(_, .Link(.Green, _)) -> 4\n}\nprintln(r)\n", false, vec![], 0),
        ("type Col =\n  | Red\n  | Green\ntype Chain<T> =\n  | Stop\n  | Link(T, Chain<T>)\nlet c: Chain<Col> = Chain.Link(Col.Red, Chain.Stop)\nlet r: int = match c {\n  .Stop -> 0\n  .Link(.Red, .Stop) -> 1\n  .Link(_, .Link(.Red, _)) -> 3\n  .Link(_, .Link(.Green, _)) -> 4\n}\nprintln(r)\n", true, vec!["Link of (Green, Stop)"], 0),
        ("type Opt2<T> =\n  | Som(T)\n  | Non\ntype Pairs<T> =\n  | Both(option<(T, Opt2<T>)>)\n  | Neither\nlet p: Pairs<bool> = Pairs.Both(.some((true, Opt2.Non)))\nlet r: int = match p {\n  .Both(.some((true, .Som(true)))) -> 0\n  .Both(.some((true, .Som(false)))) -> 1\n  .Both(.some((false, .Som(_)))) -> 2\n  .Both(.some((true, .Non))) -> 3\n  .Both(.some((false, .Non))) -> 4\n  .Both(.none) -> 5\n  .Neither -> 6\n}\nprintln(r)\n", false, vec![], 0),
        ("type Box2<T> = {\n  inner: option<T>\n  flag: bool\n}\nlet b: Box2<bool> = Box2(.some(true), false)\nlet r: int = match b {\n  Box2(.some(true), _) -> 0\n  Box2(.some(false), _) -> 1\n  Box2(.none, true) -> 2\n  Box2(.none, false) -> 3\n}\nprintln(r)\n", false, vec![], 0),
    ];
    let srcs: Vec<String> = cases.iter().map(|c| c.0.to_string()).collect();
    let vs = par_map(&srcs, |s| checker_verdict(&MatchProgram { src: s.clone(), arm_spans: vec![] }));
    for ((src, nonexh, wits, nred), v) in cases.iter().zip(vs) {
        ctx.count("opaque-column-programs");
        let mut w = v.witnesses.clone();
        w.sort();
        let red = v.other.iter().filter(|m| m.starts_with("redundant label")).count();
        let stray = v.other.iter().filter(|m| !m.starts_with("redundant label")).count();
        let ok = v.crash.is_none() && stray == 0 && v.nonexhaustive == *nonexh
            && w == wits.iter().map(|s| s.to_string()).collect::<Vec<_>>() && red == *nred;
        if !ok {
            ctx.spec_fail(format!(
                "match over a column outside the model's types: expected non-exhaustive={nonexh} missing={wits:?} redundant arms={nred}, the checker gave {} for:\n{src}",
                verdict_key(&v)
            ));
        }
    }
}

/// `let` / `var` / `for` destructuring (D96): the pattern is checked like the single arm of a match —
/// accepted iff every value of the type matches it.  Compared with the model (`pm let`) and with
/// brute force.
fn let_checks(u: &Universe, ctx: &mut Ctx, quick: bool) {
    let tys: Vec<Ty> = scrutinee_types().into_iter().chain(scrutinee_types_d46()).filter(|t| *t != Ty::Void).collect();
    let n = if quick { 260 } else { 6000 };
    struct LJob { req: String, src: String, spec: String, what: String }
    let mut jobs: Vec<LJob> = vec![];
    for i in 0..n {
        let ty = ctx.rng.pick(&tys).clone();
        let mut binds: Option<Vec<(String, Ty)>> = Some(vec![]);
        let mut p = u.gen_pat(&ty, 1 + ctx.rng.below(2) as usize, &mut ctx.rng, &mut binds, false);
        // half of the stream: patterns that are irrefutable (retry a few times)
        let want_irrefutable = i % 2 == 0;
        let mut tries = 0;
        while tries < 12 && (matches!(p, Pat::Wild | Pat::Bind(_)) || irrefutable_on(u, &ty, &p) != want_irrefutable) {
            binds = Some(vec![]);
            p = u.gen_pat(&ty, 1 + ctx.rng.below(2) as usize, &mut ctx.rng, &mut binds, false);
            tries += 1;
        }
        if matches!(p, Pat::Wild | Pat::Bind(_)) {
            continue;
        }
        let irr = irrefutable_on(u, &ty, &p);
        let v = some_value(u, &ty);
        let form = i % LET_FORMS.len();
        ctx.count(&format!("let-check:{}:{}", LET_FORMS[form], if irr { "irrefutable" } else { "refutable" }));
        if has_or(&p) { ctx.count("let-check:with-or-pattern"); }
        jobs.push(LJob {
            req: format!("pm let {} {} {} #{}", u.env_req(), u.ty_req(&ty), u.pat_req(&p), LET_FORMS[form]),
            src: let_program(u, &ty, &p, &v, form, &[]),
            spec: if irr { "let=accepted".into() } else { "let=rejected".into() },
            what: format!("{} ({}) on {}", LET_FORMS[form], u.pat_src(&p), u.ty_src(&ty)),
        });
    }
    let results = par_map(&jobs, |j| {
        let src = j.src.clone();
        std::panic::catch_unwind(std::panic::AssertUnwindSafe(|| {
            abra_core::check_lsp("main.abra", provider(&src, &[])).errors().iter().map(|e| e.message.clone()).collect::<Vec<_>>()
        }))
    });
    for (j, r) in jobs.iter().zip(results) {
        let imp = match &r {
            Ok(errs) if errs.is_empty() => "let=accepted".to_string(),
            Ok(_) => "let=rejected".to_string(),
            Err(_) => "crash".to_string(),
        };
        if imp != j.spec {
            ctx.spec_fail(format!(
                "{}: the checker says `{imp}`{}, by brute force over all values it must be `{}`",
                j.what,
                match &r { Ok(e) if !e.is_empty() => format!(" ({})", e[0]), _ => String::new() },
                j.spec
            ));
        }
        ctx.case(j.req.clone(), imp);
    }
}

/// Hard regression checks for D96 (e292b84: refutable patterns in let / var / for were never checked)
/// and D97 (f04535c: an or-pattern in an un-annotated let was not unified with its alternatives).
fn let_regressions(ctx: &mut Ctx) {
    let cases: Vec<(&str, &str, bool)> = vec![
        ("D96", "let (1, y) = (5, 3)\nprintln(y)\n", false),
        ("D96", "for (true, z) in [(false, 7)] {\n  println(z)\n}\n", false),
        ("D96", "type Ee = Aa(string) | Bb\nlet (Ee.Aa(s), w) = (Ee.Bb, 3)\nprintln(w)\n", false),
        ("D96", "var (0 | 1, y) = (5, 3)\nprintln(y)\n", false),
        ("D96", "type Wrap = Wr(int)\nlet (Wrap.Wr(a), (b, _)) = (Wrap.Wr(3), (1, true))\nprintln(a + b)\n", true),
        ("D96", "let (true | false, y) = (false, 3)\nprintln(y)\n", true),
        ("D97", "let ((true | false), y) = (\"s\", 3)\nprintln(y)\n", false),
        ("D97", "let ((nil | nil), z) = (7, 3)\nprintln(z)\n", false),
        ("D97", "type Pt = {\n  x: int\n}\nlet ((Pt(a) | Pt(a)), y) = (\"str\", 3)\nprintln(a)\n", false),
        ("D97", "let (x | x, y) = (1, 2)\nprintln(x + y)\n", true),
    ];
    let srcs: Vec<String> = cases.iter().map(|c| c.1.to_string()).collect();
    let rs = par_map(&srcs, |src| {
        std::panic::catch_unwind(std::panic::AssertUnwindSafe(|| {
            abra_core::check_lsp("main.abra", provider(src, &[])).errors().iter().map(|e| e.message.clone()).collect::<Vec<_>>()
        }))
    });
    for ((id, src, accept), r) in cases.iter().zip(rs) {
        let ok = match &r { Ok(e) => e.is_empty() == *accept, Err(_) => false };
        ctx.count(&format!("regression:{id}:{}", if ok { "passes" } else { "FAILS" }));
        if !ok {
            ctx.spec_fail(format!(
                "{id} regression: the program below must be {}, the checker gave {:?}:\n{src}",
                if *accept { "accepted" } else { "rejected" }, r
            ));
        }
    }
}
