//! C12 correspondence: (scrutinee type, arm list) pairs from the bounded universe; the checker's
//! verdict (accepted / non-exhaustive + witness list) through the public API is compared with the
//! Lean model M9, and checked directly against brute force over every value of the domain.
#[path = "../patuniv.rs"]
mod patuniv;
use patuniv::*;
use vh::*;

fn main() {
    let mut ctx = Ctx::from_env("C12");
    let u = universe();
    let quick = ctx.quick();
    let cases = gen_cases(&u, &mut ctx.rng, quick);
    if avoid_d31() {
        ctx.notes.push("VERIF_AVOID=D31: positional sub-patterns on void payloads are not generated".into());
    }
    let verdicts = par_map(&cases, |c| {
        let prog = match_program(&u, &c.ty, &some_value(&u, &c.ty), &c.arms, None);
        (checker_verdict(&prog), prog.src)
    });
    for (c, (v, src)) in cases.iter().zip(verdicts) {
        let req = request(&u, "w", &c.ty, &c.arms);
        ctx.count(&format!("origin:{}", c.origin));
        ctx.count(&format!("type:{}", head_kind(&c.ty)));
        ctx.count(&format!("arms:{}", c.arms.len()));
        if c.arms.iter().any(has_or) {
            ctx.count("with-or-pattern");
        }
        if let Some(p) = &v.crash {
            ctx.count("verdict:crash");
            let arms_txt = c.arms.iter().map(|p| u.pat_src(p)).collect::<Vec<_>>().join(" ; ");
            ctx.spec_fail(format!("checker panicked ({p}) on a match on {} with arms [{arms_txt}]", u.ty_src(&c.ty)));
            let _ = &src;
            ctx.case(req, format!("crash {}", p.replace('\n', " ")));
            continue;
        }
        if !v.other.is_empty() {
            // the generator is supposed to produce well-typed programs only
            ctx.count("verdict:other-diagnostic");
            ctx.case(req, format!("other {}", v.other.join(" / ").replace('\n', " ")));
            continue;
        }
        // ---- the property itself, by brute force over the whole (finite representative) domain
        let values = u.values(&c.ty, 5);
        let unmatched: Vec<&Val> = values.iter().filter(|x| first_match(&c.arms, x).is_none()).collect();
        let arms_txt = c.arms.iter().map(|p| u.pat_src(p)).collect::<Vec<_>>().join(" ; ");
        let mut canon: Vec<String> = vec![];
        if !v.nonexhaustive {
            ctx.count("verdict:accepted");
            if let Some(x) = unmatched.first() {
                ctx.spec_fail(format!(
                    "match on {} with arms [{arms_txt}] is ACCEPTED but the value {} matches no arm",
                    u.ty_src(&c.ty), u.val_src(x, &c.ty)
                ));
            }
        } else {
            ctx.count("verdict:non-exhaustive");
            ctx.count(&format!("witnesses:{}", v.witnesses.len().min(5)));
            if unmatched.is_empty() {
                ctx.spec_fail(format!(
                    "match on {} with arms [{arms_txt}] is reported NON-EXHAUSTIVE (missing {:?}) but every value matches an arm",
                    u.ty_src(&c.ty), v.witnesses
                ));
            }
            if v.witnesses.is_empty() {
                ctx.spec_fail(format!("non-exhaustive report without a missing case, arms [{arms_txt}]"));
            }
            for w in &v.witnesses {
                match parse_witness(&u, w, &c.ty) {
                    Some(wp) => {
                        if !unmatched.is_empty() && !unmatched.iter().any(|x| witness_matches(&wp, x)) {
                            ctx.spec_fail(format!(
                                "match on {} with arms [{arms_txt}]: listed missing case `{w}` covers no unmatched value",
                                u.ty_src(&c.ty)
                            ));
                        }
                        canon.push(witness_canon(&u, &wp));
                    }
                    None => canon.push(format!("unparsed<{w}>")),
                }
            }
        }
        canon.sort();
        ctx.case(req, format!("w={}", canon.join(";")));
    }
    ctx.finish();
}
