//! C28 correspondence: random values of nested built-in types rendered by the real prelude code on the
//! real VM through `print`, `println`, `ToString.str` and `..`, against the Lean model of the ToString
//! implementations (`Abra.Lib.Render.strV`) and, independently, against the documented format written
//! in Rust (the executable statement of the property).
use vh::*;

#[derive(Clone, Debug)]
enum Ty {
    Int,
    Bool,
    Void,
    Str,
    Arr(Box<Ty>),
    Tup(Vec<Ty>),
    Opt(Box<Ty>),
    Res(Box<Ty>, Box<Ty>),
}

#[derive(Clone, Debug)]
enum V {
    Int(i64),
    Bool(bool),
    Nil,
    Str(String),
    Arr(Vec<V>),
    Tup(Vec<V>),
    Some(Box<V>),
    None,
    Ok(Box<V>),
    Err(Box<V>),
}

impl Ty {
    fn src(&self) -> String {
        match self {
            Ty::Int => "int".into(),
            Ty::Bool => "bool".into(),
            Ty::Void => "void".into(),
            Ty::Str => "string".into(),
            Ty::Arr(t) => format!("array<{}>", t.src()),
            Ty::Tup(ts) => format!("({})", ts.iter().map(|t| t.src()).collect::<Vec<_>>().join(", ")),
            Ty::Opt(t) => format!("option<{}>", t.src()),
            Ty::Res(t, e) => format!("result<{}, {}>", t.src(), e.src()),
        }
    }
}

fn escape(s: &str) -> String {
    let mut o = String::new();
    for c in s.chars() {
        match c {
            '\n' => o.push_str("\\n"),
            '\t' => o.push_str("\\t"),
            '"' => o.push_str("\\\""),
            '\\' => o.push_str("\\\\"),
            c => o.push(c),
        }
    }
    o
}

impl V {
    /// Abra expression
    fn src(&self) -> String {
        match self {
            V::Int(n) => n.to_string(),
            V::Bool(b) => b.to_string(),
            V::Nil => "nil".into(),
            V::Str(s) => format!("\"{}\"", escape(s)),
            V::Arr(xs) => format!("[{}]", xs.iter().map(|x| x.src()).collect::<Vec<_>>().join(", ")),
            V::Tup(xs) => format!("({})", xs.iter().map(|x| x.src()).collect::<Vec<_>>().join(", ")),
            V::Some(x) => format!("option.some({})", x.src()),
            V::None => "option.none".into(),
            V::Ok(x) => format!("result.ok({})", x.src()),
            V::Err(x) => format!("result.err({})", x.src()),
        }
    }
    /// request tokens for the Lean driver
    fn req(&self) -> String {
        match self {
            V::Int(n) => format!("I {n}"),
            V::Bool(b) => format!("B {}", if *b { "T" } else { "F" }),
            V::Nil => "N".into(),
            V::Str(s) => format!("S {}", hex(s.as_bytes())),
            V::Arr(xs) => {
                let mut s = format!("A {}", xs.len());
                for x in xs {
                    s.push(' ');
                    s.push_str(&x.req());
                }
                s
            }
            V::Tup(xs) => {
                let mut s = format!("T {}", xs.len());
                for x in xs {
                    s.push(' ');
                    s.push_str(&x.req());
                }
                s
            }
            V::Some(x) => format!("SOME {}", x.req()),
            V::None => "NONE".into(),
            V::Ok(x) => format!("OK {}", x.req()),
            V::Err(x) => format!("ERR {}", x.req()),
        }
    }
    /// the documented text (the property's own statement): decimal ints, true/false, nil, strings verbatim,
    /// `[ a, b ]`, `(a, b)`, `some(x)`/`none`, `ok(x)`/`err(e)`; the empty array follows the code: `[  ]`
    fn render(&self) -> String {
        match self {
            V::Int(n) => n.to_string(),
            V::Bool(b) => if *b { "true".into() } else { "false".into() },
            V::Nil => "nil".into(),
            V::Str(s) => s.clone(),
            V::Arr(xs) => format!("[ {} ]", xs.iter().map(|x| x.render()).collect::<Vec<_>>().join(", ")),
            V::Tup(xs) => format!("({})", xs.iter().map(|x| x.render()).collect::<Vec<_>>().join(", ")),
            V::Some(x) => format!("some({})", x.render()),
            V::None => "none".into(),
            V::Ok(x) => format!("ok({})", x.render()),
            V::Err(x) => format!("err({})", x.render()),
        }
    }
    fn depth(&self) -> usize {
        match self {
            V::Arr(xs) | V::Tup(xs) => 1 + xs.iter().map(|x| x.depth()).max().unwrap_or(0),
            V::Some(x) | V::Ok(x) | V::Err(x) => 1 + x.depth(),
            _ => 0,
        }
    }
    fn count(&self, hist: &mut Vec<&'static str>) {
        match self {
            V::Int(n) => hist.push(if *n < 0 { "leaf:int-negative" } else { "leaf:int" }),
            V::Bool(_) => hist.push("leaf:bool"),
            V::Nil => hist.push("leaf:nil"),
            V::Str(s) => hist.push(if s.is_empty() { "leaf:string-empty" } else { "leaf:string" }),
            V::Arr(xs) => {
                hist.push(match xs.len() { 0 => "array:empty", 1 => "array:one", _ => "array:many" });
                xs.iter().for_each(|x| x.count(hist));
            }
            V::Tup(xs) => {
                hist.push(match xs.len() { 2 => "tuple:2", 3 => "tuple:3", _ => "tuple:4" });
                xs.iter().for_each(|x| x.count(hist));
            }
            V::Some(x) => { hist.push("option:some"); x.count(hist) }
            V::None => hist.push("option:none"),
            V::Ok(x) => { hist.push("result:ok"); x.count(hist) }
            V::Err(x) => { hist.push("result:err"); x.count(hist) }
        }
    }
}

const INTS: [i64; 14] = [0, 1, -1, 7, -7, 10, 99, -100, 4294967296, -4294967297, i64::MAX, i64::MIN, i64::MIN + 1, 1000000007];
const STRS: [&str; 14] = ["", "a", "hello", ", ", "[ ]", "(1, 2)", "some(x)", "none", " ", "a\nb", "q\"uote", "tab\tx", "é日本", "back\\slash"];

fn gen_ty(rng: &mut Rng, depth: usize) -> Ty {
    let leaf = depth == 0 || rng.chance(1, 4);
    if leaf {
        return match rng.below(4) { 0 => Ty::Int, 1 => Ty::Bool, 2 => Ty::Void, _ => Ty::Str };
    }
    match rng.below(8) {
        0..=2 => Ty::Arr(Box::new(gen_ty(rng, depth - 1))),
        3 | 4 => {
            let n = 2 + rng.below(3) as usize;
            Ty::Tup((0..n).map(|_| gen_ty(rng, depth - 1)).collect())
        }
        5 | 6 => Ty::Opt(Box::new(gen_ty(rng, depth - 1))),
        _ => Ty::Res(Box::new(gen_ty(rng, depth - 1)), Box::new(gen_ty(rng, depth - 1))),
    }
}

fn gen_val(rng: &mut Rng, ty: &Ty, budget: &mut i64) -> V {
    *budget -= 1;
    match ty {
        Ty::Int => V::Int(if rng.chance(1, 3) { rng.next() as i64 } else { *rng.pick(&INTS) }),
        Ty::Bool => V::Bool(rng.chance(1, 2)),
        Ty::Void => V::Nil,
        Ty::Str => V::Str((*rng.pick(&STRS)).to_string()),
        Ty::Arr(t) => {
            let n = if *budget <= 0 { 0 } else { *rng.pick(&[0usize, 0, 1, 1, 2, 3, 4, 6]) };
            V::Arr((0..n).map(|_| gen_val(rng, t, budget)).collect())
        }
        Ty::Tup(ts) => V::Tup(ts.iter().map(|t| gen_val(rng, t, budget)).collect()),
        Ty::Opt(t) => if rng.chance(1, 3) { V::None } else { V::Some(Box::new(gen_val(rng, t, budget))) },
        Ty::Res(t, e) => if rng.chance(1, 2) { V::Ok(Box::new(gen_val(rng, t, budget))) } else { V::Err(Box::new(gen_val(rng, e, budget))) },
    }
}

struct Job { req: String, src: String, expect: String, hist: Vec<&'static str>, mode: &'static str, depth: usize }

fn main() {
    let mut ctx = Ctx::from_env("C28");
    let quick = ctx.quick();
    let max_depth = if quick { 3 } else { 4 };
    let n_cases = if quick { 1500 } else { 20000 };
    let mut jobs: Vec<Job> = vec![];

    // directed: every leaf on its own and in each container, the empty array at each depth, int boundaries
    let mut directed: Vec<(Ty, V)> = vec![];
    for &n in &INTS {
        directed.push((Ty::Int, V::Int(n)));
    }
    for s in STRS {
        directed.push((Ty::Str, V::Str(s.to_string())));
    }
    directed.push((Ty::Bool, V::Bool(true)));
    directed.push((Ty::Bool, V::Bool(false)));
    directed.push((Ty::Void, V::Nil));
    let leaves: Vec<(Ty, V)> = vec![(Ty::Int, V::Int(-3)), (Ty::Bool, V::Bool(false)), (Ty::Void, V::Nil), (Ty::Str, V::Str("s t".into()))];
    for (t, v) in &leaves {
        directed.push((Ty::Arr(Box::new(t.clone())), V::Arr(vec![])));
        directed.push((Ty::Arr(Box::new(t.clone())), V::Arr(vec![v.clone()])));
        directed.push((Ty::Arr(Box::new(t.clone())), V::Arr(vec![v.clone(), v.clone(), v.clone()])));
        directed.push((Ty::Arr(Box::new(Ty::Arr(Box::new(t.clone())))), V::Arr(vec![V::Arr(vec![]), V::Arr(vec![v.clone()]), V::Arr(vec![])])));
        directed.push((Ty::Opt(Box::new(t.clone())), V::Some(Box::new(v.clone()))));
        directed.push((Ty::Opt(Box::new(t.clone())), V::None));
        directed.push((Ty::Res(Box::new(t.clone()), Box::new(Ty::Str)), V::Ok(Box::new(v.clone()))));
        directed.push((Ty::Res(Box::new(Ty::Int), Box::new(t.clone())), V::Err(Box::new(v.clone()))));
        for n in 2..=4usize {
            directed.push((Ty::Tup(vec![t.clone(); n]), V::Tup(vec![v.clone(); n])));
        }
    }

    let modes = ["print", "println", "str", "catL", "catR", "cat"];
    let make_job = |ty: &Ty, v: &V, mode: &'static str, other: Option<(Ty, V)>| -> Job {
        let decl = format!("let v: {} = {}\n", ty.src(), v.src());
        let (req, stmt, expect) = match mode {
            "print" => (format!("render print {}", v.req()), "print(v)\n".to_string(), v.render()),
            "println" => (format!("render println {}", v.req()), "println(v)\n".to_string(), v.render() + "\n"),
            "str" => (format!("render str {}", v.req()), "let s: string = ToString.str(v)\nprint(s)\n".to_string(), v.render()),
            "catL" => (format!("render cat S {} {}", hex(b"<< "), v.req()), "print(\"<< \" .. v)\n".to_string(), format!("<< {}", v.render())),
            "catR" => (format!("render cat {} S {}", v.req(), hex(b" >>")), "print(v .. \" >>\")\n".to_string(), format!("{} >>", v.render())),
            _ => {
                let (ty2, w) = other.clone().unwrap();
                (
                    format!("render cat {} {}", v.req(), w.req()),
                    format!("let w: {} = {}\nprint(v .. w)\n", ty2.src(), w.src()),
                    format!("{}{}", v.render(), w.render()),
                )
            }
        };
        let mut hist = vec![];
        v.count(&mut hist);
        Job { req, src: decl + &stmt, expect, hist, mode, depth: v.depth() }
    };
    for (i, (ty, v)) in directed.iter().enumerate() {
        let mode = modes[i % 5];
        jobs.push(make_job(ty, v, mode, None));
        // ints and strings also as literals (the compiler inlines `str` for int/string)
        if matches!(ty, Ty::Int | Ty::Str) {
            let lit = v.src();
            jobs.push(Job {
                req: format!("render cat {} {}", v.req(), v.req()),
                src: format!("print({lit} .. {lit})\n"),
                expect: format!("{}{}", v.render(), v.render()),
                hist: vec!["literal-operands"],
                mode: "cat-literals",
                depth: 0,
            });
        }
    }
    for i in 0..n_cases {
        let depth = 1 + ctx.rng.below(max_depth as u64) as usize;
        let ty = gen_ty(&mut ctx.rng, depth);
        let mut budget = 40;
        let v = gen_val(&mut ctx.rng, &ty, &mut budget);
        let mode = modes[i % 6];
        let other = if mode == "cat" {
            let ty2 = gen_ty(&mut ctx.rng, 2);
            let mut b2 = 12;
            let w = gen_val(&mut ctx.rng, &ty2, &mut b2);
            Some((ty2, w))
        } else {
            None
        };
        jobs.push(make_job(&ty, &v, mode, other));
    }

    let srcs: Vec<&String> = jobs.iter().map(|j| &j.src).collect();
    let results = par_map(&srcs, |src| run_program(src));
    for (j, r) in jobs.iter().zip(results) {
        ctx.count(&format!("mode:{}", j.mode));
        ctx.count(&format!("depth:{}", j.depth));
        for h in &j.hist {
            ctx.count(h);
        }
        let imp = match &r.outcome {
            Outcome::Done => {
                if r.out != j.expect {
                    ctx.spec_fail(format!("rendered text differs from the documented format: program `{}`: printed {:?}, documented {:?}", j.src.trim_end().replace('\n', "; "), r.out, j.expect));
                }
                hex(r.out.as_bytes())
            }
            Outcome::Rejected(m) => {
                ctx.spec_fail(format!("program rejected: `{}`: {}", j.src.trim_end().replace('\n', "; "), m.lines().filter(|l| !l.trim().is_empty()).take(2).collect::<Vec<_>>().join(" ")));
                "rejected".into()
            }
            o => {
                ctx.spec_fail(format!("rendering did not finish normally ({}): `{}`", o.tag(), j.src.trim_end().replace('\n', "; ")));
                format!("other:{}", o.tag())
            }
        };
        ctx.case(j.req.clone(), imp);
    }
    ctx.finish();
}
