//! C28 correspondence: random values of nested built-in types rendered by the real prelude code on the
//! real VM through `print`, `println`, `ToString.str` and `..`, against the Lean model of the ToString
//! implementations (`Abra.Lib.Render.strV`) and, independently, against the documented format written
//! in Rust (the executable statement of the property).
use vh::*;

#[derive(Clone, Debug)]
enum Ty {
    Int,
    Bool,
    Void,
    Str,
    /// leaves of types outside the nested built-in ones, rendered by their own `str`: float, a user struct with a
    /// user `implement ToString`, a channel with a user `implement ToString for channel<T>`
    Float,
    Pt,
    Chan,
    Arr(Box<Ty>),
    Tup(Vec<Ty>),
    Opt(Box<Ty>),
    Res(Box<Ty>, Box<Ty>),
}

#[derive(Clone, Debug)]
enum V {
    Int(i64),
    Bool(bool),
    Nil,
    Str(String),
    /// a string built at run time and held in the variable `s<idx>` (contents known to the generator)
    Dyn(usize, String),
    /// (Abra expression, the text its own `str` yields, kind)
    Ext(String, String, &'static str),
    Arr(Vec<V>),
    Tup(Vec<V>),
    Some(Box<V>),
    None,
    Ok(Box<V>),
    Err(Box<V>),
}

impl Ty {
    fn src(&self) -> String {
        match self {
            Ty::Int => "int".into(),
            Ty::Bool => "bool".into(),
            Ty::Void => "void".into(),
            Ty::Str => "string".into(),
            Ty::Float => "float".into(),
            Ty::Pt => "Pt".into(),
            Ty::Chan => "channel<int>".into(),
            Ty::Arr(t) => format!("array<{}>", t.src()),
            Ty::Tup(ts) => format!("({})", ts.iter().map(|t| t.src()).collect::<Vec<_>>().join(", ")),
            Ty::Opt(t) => format!("option<{}>", t.src()),
            Ty::Res(t, e) => format!("result<{}, {}>", t.src(), e.src()),
        }
    }
}

fn escape(s: &str) -> String {
    let mut o = String::new();
    for c in s.chars() {
        match c {
            '\n' => o.push_str("\\n"),
            '\t' => o.push_str("\\t"),
            '"' => o.push_str("\\\""),
            '\\' => o.push_str("\\\\"),
            c => o.push(c),
        }
    }
    o
}

impl V {
    /// Abra expression
    fn src(&self) -> String {
        self.src_with("s")
    }
    /// Abra expression; run-time-built strings are referred to through the variables `<prefix><idx>`
    fn src_with(&self, p: &str) -> String {
        match self {
            V::Int(n) => n.to_string(),
            V::Bool(b) => b.to_string(),
            V::Nil => "nil".into(),
            V::Str(s) => format!("\"{}\"", escape(s)),
            V::Dyn(i, _) => format!("{p}{i}"),
            V::Ext(e, _, _) => e.clone(),
            V::Arr(xs) => format!("[{}]", xs.iter().map(|x| x.src_with(p)).collect::<Vec<_>>().join(", ")),
            V::Tup(xs) => format!("({})", xs.iter().map(|x| x.src_with(p)).collect::<Vec<_>>().join(", ")),
            V::Some(x) => format!("option.some({})", x.src_with(p)),
            V::None => "option.none".into(),
            V::Ok(x) => format!("result.ok({})", x.src_with(p)),
            V::Err(x) => format!("result.err({})", x.src_with(p)),
        }
    }
    /// request tokens for the Lean driver
    fn req(&self) -> String {
        match self {
            V::Int(n) => format!("I {n}"),
            V::Bool(b) => format!("B {}", if *b { "T" } else { "F" }),
            V::Nil => "N".into(),
            V::Str(s) | V::Dyn(_, s) => format!("S {}", hex(s.as_bytes())),
            V::Ext(_, t, _) => format!("X {}", hex(t.as_bytes())),
            V::Arr(xs) => {
                let mut s = format!("A {}", xs.len());
                for x in xs {
                    s.push(' ');
                    s.push_str(&x.req());
                }
                s
            }
            V::Tup(xs) => {
                let mut s = format!("T {}", xs.len());
                for x in xs {
                    s.push(' ');
                    s.push_str(&x.req());
                }
                s
            }
            V::Some(x) => format!("SOME {}", x.req()),
            V::None => "NONE".into(),
            V::Ok(x) => format!("OK {}", x.req()),
            V::Err(x) => format!("ERR {}", x.req()),
        }
    }
    /// the documented text (the property's own statement): decimal ints, true/false, nil, strings verbatim,
    /// `[ a, b ]`, `(a, b)`, `some(x)`/`none`, `ok(x)`/`err(e)`; the empty array follows the code: `[  ]`
    fn render(&self) -> String {
        match self {
            V::Int(n) => n.to_string(),
            V::Bool(b) => if *b { "true".into() } else { "false".into() },
            V::Nil => "nil".into(),
            V::Str(s) | V::Dyn(_, s) => s.clone(),
            V::Ext(_, t, _) => t.clone(),
            V::Arr(xs) => format!("[ {} ]", xs.iter().map(|x| x.render()).collect::<Vec<_>>().join(", ")),
            V::Tup(xs) => format!("({})", xs.iter().map(|x| x.render()).collect::<Vec<_>>().join(", ")),
            V::Some(x) => format!("some({})", x.render()),
            V::None => "none".into(),
            V::Ok(x) => format!("ok({})", x.render()),
            V::Err(x) => format!("err({})", x.render()),
        }
    }
    fn depth(&self) -> usize {
        match self {
            V::Arr(xs) | V::Tup(xs) => 1 + xs.iter().map(|x| x.depth()).max().unwrap_or(0),
            V::Some(x) | V::Ok(x) | V::Err(x) => 1 + x.depth(),
            _ => 0,
        }
    }
    fn count(&self, hist: &mut Vec<&'static str>) {
        match self {
            V::Int(n) => hist.push(if *n < 0 { "leaf:int-negative" } else { "leaf:int" }),
            V::Bool(_) => hist.push("leaf:bool"),
            V::Nil => hist.push("leaf:nil"),
            V::Str(s) => hist.push(if s.is_empty() { "leaf:string-empty" } else { "leaf:string" }),
            V::Dyn(..) => hist.push("leaf:string-built-at-run-time"),
            V::Ext(_, _, k) => hist.push(match *k { "float" => "leaf:float", "pt" => "leaf:user-struct-with-ToString", _ => "leaf:channel-with-ToString" }),
            V::Arr(xs) => {
                hist.push(match xs.len() { 0 => "array:empty", 1 => "array:one", _ => "array:many" });
                xs.iter().for_each(|x| x.count(hist));
            }
            V::Tup(xs) => {
                hist.push(match xs.len() { 2 => "tuple:2", 3 => "tuple:3", _ => "tuple:4" });
                xs.iter().for_each(|x| x.count(hist));
            }
            V::Some(x) => { hist.push("option:some"); x.count(hist) }
            V::None => hist.push("option:none"),
            V::Ok(x) => { hist.push("result:ok"); x.count(hist) }
            V::Err(x) => { hist.push("result:err"); x.count(hist) }
        }
    }
}

const INTS: [i64; 14] = [0, 1, -1, 7, -7, 10, 99, -100, 4294967296, -4294967297, i64::MAX, i64::MIN, i64::MIN + 1, 1000000007];
const STRS: [&str; 14] = ["", "a", "hello", ", ", "[ ]", "(1, 2)", "some(x)", "none", " ", "a\nb", "q\"uote", "tab\tx", "é日本", "back\\slash"];

/// float literals (spelled so that Abra and Rust read the same f64); the text is Rust's `f64::to_string`,
/// which is what `string_from_float` is defined as (trusted, like `i64::to_string`)
const FLOATS: [&str; 12] = ["0.0", "0.5", "2.0", "-1.25", "3.14159", "100.0", "0.1", "1234567.875", "1000000000000000000000.0", "0.00000015", "-0.0", "123456789012345680.0"];

/// an int next to a change of its decimal length: ±(10^k - d), ±(10^k + d), k = 0..18, d mostly 0..3,
/// up to 300 for k >= 15 (where an f64 can no longer tell 10^k - d from 10^k)
fn dec_boundary(rng: &mut Rng) -> i64 {
    let k = rng.below(19) as u32;
    let p = 10i128.pow(k);
    let d = if k >= 15 && rng.chance(1, 2) { rng.range(1, 300) } else { rng.range(0, 3) } as i128;
    let m = if rng.chance(2, 3) { p - d } else { p + d };
    let m = m.clamp(0, i64::MAX as i128) as i64;
    if rng.chance(1, 2) { -m } else { m }
}
/// an int next to a power of two
fn pow2_boundary(rng: &mut Rng) -> i64 {
    let k = rng.below(63) as u32;
    let m = (1i64 << k).wrapping_add(rng.range(-2, 2));
    if rng.chance(1, 2) { m.wrapping_neg() } else { m }
}
/// every decimal-length boundary: ±(10^k ± d) for k = 0..18, d = 0..3, and ±(10^k - d) for k = 15..18, d = 1..=`deep`
fn dec_boundaries(deep: i128) -> Vec<i64> {
    let mut v: Vec<i64> = vec![];
    for k in 0..19u32 {
        let p = 10i128.pow(k);
        for d in 0..=3i128 {
            for m in [p - d, p + d] {
                if m >= 0 && m <= i64::MAX as i128 {
                    v.push(m as i64);
                    v.push(-(m as i64));
                }
            }
        }
        if k >= 15 {
            for d in 4..=deep {
                v.push((p - d) as i64);
                v.push(-((p - d) as i64));
            }
        }
    }
    v.sort();
    v.dedup();
    v
}

fn float_val(lit: &str) -> V {
    let x: f64 = lit.parse().unwrap();
    V::Ext(lit.to_string(), x.to_string(), "float")
}

/// declarations a program needs for the foreign leaf types its value types contain
fn preamble(tys: &[&Ty]) -> String {
    fn kinds(t: &Ty, out: &mut Vec<&'static str>) {
        match t {
            Ty::Pt => out.push("pt"),
            Ty::Chan => out.push("chan"),
            Ty::Arr(t) | Ty::Opt(t) => kinds(t, out),
            Ty::Tup(ts) => ts.iter().for_each(|x| kinds(x, out)),
            Ty::Res(a, b) => { kinds(a, out); kinds(b, out) }
            _ => {}
        }
    }
    let mut ks = vec![];
    tys.iter().for_each(|t| kinds(t, &mut ks));
    let mut s = String::new();
    if ks.contains(&"pt") {
        s.push_str("type Pt = {\n  x: int\n  y: int\n}\nimplement ToString for Pt {\n  fn str(p) = \"Pt(\" .. p.x .. \", \" .. p.y .. \")\"\n}\n");
    }
    if ks.contains(&"chan") {
        s.push_str("implement ToString for channel<T> {\n  fn str(c) = \"chan\"\n}\nlet ch: channel<int> = channel()\n");
    }
    s
}

fn gen_ty(rng: &mut Rng, depth: usize) -> Ty {
    let leaf = depth == 0 || rng.chance(1, 4);
    if leaf {
        return match rng.below(11) { 0 | 1 => Ty::Int, 2 | 3 => Ty::Bool, 4 | 5 => Ty::Void, 6 | 7 => Ty::Str, 8 => Ty::Float, 9 => Ty::Pt, _ => Ty::Chan };
    }
    match rng.below(8) {
        0..=2 => Ty::Arr(Box::new(gen_ty(rng, depth - 1))),
        3 | 4 => {
            let n = 2 + rng.below(3) as usize;
            Ty::Tup((0..n).map(|_| gen_ty(rng, depth - 1)).collect())
        }
        5 | 6 => Ty::Opt(Box::new(gen_ty(rng, depth - 1))),
        _ => Ty::Res(Box::new(gen_ty(rng, depth - 1)), Box::new(gen_ty(rng, depth - 1))),
    }
}

fn gen_val(rng: &mut Rng, ty: &Ty, budget: &mut i64) -> V {
    *budget -= 1;
    match ty {
        Ty::Int => V::Int(match rng.below(6) {
            0 | 1 => rng.next() as i64,
            2 | 3 => dec_boundary(rng),
            4 => pow2_boundary(rng),
            _ => *rng.pick(&INTS),
        }),
        Ty::Bool => V::Bool(rng.chance(1, 2)),
        Ty::Void => V::Nil,
        Ty::Str => V::Str((*rng.pick(&STRS)).to_string()),
        Ty::Float => float_val(*rng.pick(&FLOATS)),
        Ty::Pt => { let (x, y) = (rng.range(-9, 9), *rng.pick(&INTS)); V::Ext(format!("Pt({x}, {y})"), format!("Pt({x}, {y})"), "pt") }
        Ty::Chan => V::Ext("ch".into(), "chan".into(), "chan"),
        Ty::Arr(t) => {
            let n = if *budget <= 0 { 0 } else { *rng.pick(&[0usize, 0, 1, 1, 2, 3, 4, 6]) };
            V::Arr((0..n).map(|_| gen_val(rng, t, budget)).collect())
        }
        Ty::Tup(ts) => V::Tup(ts.iter().map(|t| gen_val(rng, t, budget)).collect()),
        Ty::Opt(t) => if rng.chance(1, 3) { V::None } else { V::Some(Box::new(gen_val(rng, t, budget))) },
        Ty::Res(t, e) => if rng.chance(1, 2) { V::Ok(Box::new(gen_val(rng, t, budget))) } else { V::Err(Box::new(gen_val(rng, e, budget))) },
    }
}

// ---------------------------------------------------------------- rendering must be pure
fn ty_has_str(t: &Ty) -> bool {
    match t {
        Ty::Str => true,
        Ty::Arr(t) | Ty::Opt(t) => ty_has_str(t),
        Ty::Tup(ts) => ts.iter().any(ty_has_str),
        Ty::Res(a, b) => ty_has_str(a) || ty_has_str(b),
        _ => false,
    }
}
/// the prelude implements `Equal` for scalars, strings, arrays and tuples (not for option / result)
fn ty_has_equal(t: &Ty) -> bool {
    match t {
        Ty::Arr(t) => ty_has_equal(t),
        Ty::Tup(ts) => ts.iter().all(ty_has_equal),
        Ty::Opt(_) | Ty::Res(..) | Ty::Pt | Ty::Chan => false,
        _ => true,
    }
}
/// like `gen_val`, but string leaves are mostly the run-time-built strings `dyns` (so the same string object
/// occurs several times in one value and in several values); arrays of strings are never empty
fn gen_val_dyn(rng: &mut Rng, ty: &Ty, budget: &mut i64, dyns: &[String]) -> V {
    *budget -= 1;
    match ty {
        Ty::Str => {
            if rng.chance(4, 5) {
                let i = rng.below(dyns.len() as u64) as usize;
                V::Dyn(i, dyns[i].clone())
            } else {
                V::Str((*rng.pick(&STRS)).to_string())
            }
        }
        Ty::Arr(t) => {
            let n = if *budget <= 0 { 1 } else { *rng.pick(&[1usize, 2, 2, 3, 3, 4]) };
            V::Arr((0..n).map(|_| gen_val_dyn(rng, t, budget, dyns)).collect())
        }
        Ty::Tup(ts) => V::Tup(ts.iter().map(|t| gen_val_dyn(rng, t, budget, dyns)).collect()),
        Ty::Opt(t) => if rng.chance(1, 5) { V::None } else { V::Some(Box::new(gen_val_dyn(rng, t, budget, dyns))) },
        Ty::Res(t, e) => if rng.chance(1, 2) { V::Ok(Box::new(gen_val_dyn(rng, t, budget, dyns))) } else { V::Err(Box::new(gen_val_dyn(rng, e, budget, dyns))) },
        other => gen_val(rng, other, budget),
    }
}

/// One program that builds strings at run time (results of `..`, int and bool conversions, strings built from
/// other run-time strings), shares them inside and between values (array elements, tuple components,
/// option/result payloads, struct fields), renders every value several times by different routes and finally
/// compares everything with separately built equal values.  Every statement must print the documented text of
/// its operands, whatever was rendered before.
fn purity_job(rng: &mut Rng, max_depth: usize) -> Job {
    // run-time-built strings: (expression over the earlier ones with a prefix placeholder `@`, contents)
    let mut defs: Vec<(String, String)> = vec![];
    let n_dyn = 2 + rng.below(3) as usize;
    for i in 0..n_dyn {
        let kind = if i == 0 { rng.below(4) } else { rng.below(7) };
        let d = match kind {
            0 => { let n = rng.range(0, 99); (format!("\"id\" .. {n}"), format!("id{n}")) }
            1 => { let n = *rng.pick(&INTS); (format!("ToString.str({n})"), n.to_string()) }
            2 => { let (a, b) = (*rng.pick(&["ab", "x", ", ", "[ "]), *rng.pick(&["cd", "", " ]", "y"])); (format!("\"{a}\" .. \"{b}\""), format!("{a}{b}")) }
            3 => { let b = rng.chance(1, 2); (format!("\"\" .. {b}"), b.to_string()) }
            4 => { let j = rng.below(i as u64) as usize; (format!("@{j} .. \"-\""), format!("{}-", defs[j].1)) }               // left operand built at run time
            5 => { let j = rng.below(i as u64) as usize; let k = rng.below(i as u64) as usize; (format!("@{j} .. @{k}"), format!("{}{}", defs[j].1, defs[k].1)) }
            _ => { let j = rng.below(i as u64) as usize; (format!("\"<\" .. @{j} .. \">\""), format!("<{}>", defs[j].1)) }
        };
        defs.push(d);
    }
    let dyns: Vec<String> = defs.iter().map(|d| d.1.clone()).collect();
    let gen_typed = |rng: &mut Rng| -> (Ty, V) {
        let d0 = 1 + rng.below(max_depth as u64) as usize;
        let mut ty = gen_ty(rng, d0);
        for _ in 0..20 {
            if ty_has_str(&ty) { break; }
            let d1 = 1 + rng.below(max_depth as u64) as usize;
            ty = gen_ty(rng, d1);
        }
        if !ty_has_str(&ty) { ty = Ty::Arr(Box::new(Ty::Str)); }
        let mut budget = 14;
        let v = gen_val_dyn(rng, &ty, &mut budget, &dyns);
        (ty, v)
    };
    let (tv, v) = gen_typed(rng);
    let (tw, w) = gen_typed(rng);
    let with_struct = rng.chance(1, 2);
    let (hi, hj) = (rng.below(n_dyn as u64) as usize, rng.below(n_dyn as u64) as usize);
    let h_name = V::Dyn(hi, dyns[hi].clone());
    let h_items = V::Arr(vec![V::Dyn(hi, dyns[hi].clone()), V::Dyn(hj, dyns[hj].clone()), V::Dyn(hi, dyns[hi].clone())]);

    let mut src = preamble(&[&tv, &tw]);
    if with_struct {
        src.push_str("type Holder = {\n  name: string\n  items: array<string>\n}\n");
    }
    for p in ["s", "t"] {
        for (i, (e, _)) in defs.iter().enumerate() {
            src.push_str(&format!("let {p}{i} = {}\n", e.replace('@', p)));
        }
    }
    src.push_str(&format!("let v: {} = {}\nlet w: {} = {}\n", tv.src(), v.src_with("s"), tw.src(), w.src_with("s")));
    src.push_str(&format!("let v2: {} = {}\nlet w2: {} = {}\n", tv.src(), v.src_with("t"), tw.src(), w.src_with("t")));
    if with_struct {
        src.push_str(&format!("let h = Holder({}, {})\n", h_name.src_with("s"), h_items.src_with("s")));
    }

    // rendering statements: (Abra statement, model request, documented text)
    let mut stmts: Vec<(String, String, String)> = vec![];
    let sep = |stmts: &mut Vec<(String, String, String)>| stmts.push(("print(\"\\n~\\n\")".into(), format!("lit {}", hex(b"\n~\n")), "\n~\n".into()));
    let render_stmt = |rng: &mut Rng, name: &str, val: &V, other: (&str, &V)| -> (String, String, String) {
        match rng.below(7) {
            0 => (format!("println({name})"), format!("println {}", val.req()), val.render() + "\n"),
            1 => (format!("print({name})"), format!("print {}", val.req()), val.render()),
            2 => (format!("print(ToString.str({name}))"), format!("str {}", val.req()), val.render()),
            3 => (format!("print(\"<\" .. {name} .. \">\")"), format!("chain 3 S {} {} S {}", hex(b"<"), val.req(), hex(b">")), format!("<{}>", val.render())),
            4 => (format!("print({name} .. {})", other.0), format!("chain 2 {} {}", val.req(), other.1.req()), format!("{}{}", val.render(), other.1.render())),
            5 => (format!("print({} .. {name})", other.0), format!("chain 2 {} {}", other.1.req(), val.req()), format!("{}{}", other.1.render(), val.render())),
            _ => (format!("print({name} .. \"!\")"), format!("chain 2 {} S {}", val.req(), hex(b"!")), format!("{}!", val.render())),
        }
    };
    let mut targets: Vec<(String, V)> = vec![("v".into(), v.clone()), ("w".into(), w.clone())];
    for (i, d) in dyns.iter().enumerate() {
        targets.push((format!("s{i}"), V::Dyn(i, d.clone())));
    }
    if with_struct {
        targets.push(("h.name".into(), h_name.clone()));
        targets.push(("h.items".into(), h_items.clone()));
    }
    // first every target by `println` (the route that makes the value itself the left operand of `..`) …
    for (name, val) in &targets {
        stmts.push((format!("println({name})"), format!("println {}", val.req()), val.render() + "\n"));
    }
    sep(&mut stmts);
    // … then a random mix of routes, then everything once more
    let n_mix = 4 + rng.below(6) as usize;
    for _ in 0..n_mix {
        let a = rng.below(targets.len() as u64) as usize;
        let b = rng.below(targets.len() as u64) as usize;
        let st = render_stmt(rng, &targets[a].0, &targets[a].1, (&targets[b].0, &targets[b].1));
        stmts.push(st);
        sep(&mut stmts);
    }
    for (name, val) in &targets {
        stmts.push((format!("print(ToString.str({name}))"), format!("str {}", val.req()), val.render()));
        sep(&mut stmts);
        stmts.push((format!("println({name})"), format!("println {}", val.req()), val.render() + "\n"));
    }
    // the values are unchanged: equal to separately built equal values
    for (i, d) in dyns.iter().enumerate() {
        let r = format!("S {}", hex(d.as_bytes()));
        stmts.push((format!("print(s{i} == t{i})"), format!("eq {r} {r}"), "true".into()));
    }
    if ty_has_equal(&tv) {
        stmts.push(("print(v == v2)".into(), format!("eq {} {}", v.req(), v.req()), "true".into()));
    }
    if ty_has_equal(&tw) {
        stmts.push(("print(w == w2)".into(), format!("eq {} {}", w.req(), w.req()), "true".into()));
    }
    // and the separately built twins render like the originals (they were never rendered before)
    stmts.push(("println(v2)".into(), format!("println {}", v.req()), v.render() + "\n"));
    stmts.push(("println(w2)".into(), format!("println {}", w.req()), w.render() + "\n"));

    let mut expect = String::new();
    for (a, _, e) in &stmts {
        src.push_str(a);
        src.push('\n');
        expect.push_str(e);
    }
    let req = format!("render multi {}", stmts.iter().map(|s| s.1.clone()).collect::<Vec<_>>().join(" ; "));
    let mut hist = vec!["purity:program"];
    v.count(&mut hist);
    w.count(&mut hist);
    if with_struct { hist.push("purity:struct-fields"); }
    fn dyn_indices(v: &V, out: &mut Vec<usize>) {
        match v {
            V::Dyn(i, _) => out.push(*i),
            V::Arr(xs) | V::Tup(xs) => xs.iter().for_each(|x| dyn_indices(x, out)),
            V::Some(x) | V::Ok(x) | V::Err(x) => dyn_indices(x, out),
            _ => {}
        }
    }
    let (mut iv, mut iw) = (vec![], vec![]);
    dyn_indices(&v, &mut iv);
    dyn_indices(&w, &mut iw);
    if (0..n_dyn).any(|i| iv.iter().filter(|x| **x == i).count() >= 2) { hist.push("purity:same-string-several-times-in-one-value"); }
    if iv.iter().any(|i| iw.contains(i)) { hist.push("purity:same-string-in-several-values"); }
    Job { req, src, expect, hist, mode: "purity", depth: v.depth().max(w.depth()) }
}

struct Job { req: String, src: String, expect: String, hist: Vec<&'static str>, mode: &'static str, depth: usize }

fn main() {
    let mut ctx = Ctx::from_env("C28");
    let quick = ctx.quick();
    let max_depth = if quick { 3 } else { 4 };
    let n_cases = if quick { 1500 } else { 20000 };
    let mut jobs: Vec<Job> = vec![];

    // directed: every leaf on its own and in each container, the empty array at each depth, int boundaries
    let mut directed: Vec<(Ty, V)> = vec![];
    for &n in &INTS {
        directed.push((Ty::Int, V::Int(n)));
    }
    for s in STRS {
        directed.push((Ty::Str, V::Str(s.to_string())));
    }
    directed.push((Ty::Bool, V::Bool(true)));
    directed.push((Ty::Bool, V::Bool(false)));
    directed.push((Ty::Void, V::Nil));
    for f in FLOATS {
        directed.push((Ty::Float, float_val(f)));
    }
    directed.push((Ty::Pt, V::Ext("Pt(1, -2)".into(), "Pt(1, -2)".into(), "pt")));
    directed.push((Ty::Chan, V::Ext("ch".into(), "chan".into(), "chan")));
    let leaves: Vec<(Ty, V)> = vec![(Ty::Int, V::Int(-3)), (Ty::Bool, V::Bool(false)), (Ty::Void, V::Nil), (Ty::Str, V::Str("s t".into())),
        (Ty::Float, float_val("-1.25")), (Ty::Pt, V::Ext("Pt(3, 4)".into(), "Pt(3, 4)".into(), "pt")), (Ty::Chan, V::Ext("ch".into(), "chan".into(), "chan"))];
    for (t, v) in &leaves {
        directed.push((Ty::Arr(Box::new(t.clone())), V::Arr(vec![])));
        directed.push((Ty::Arr(Box::new(t.clone())), V::Arr(vec![v.clone()])));
        directed.push((Ty::Arr(Box::new(t.clone())), V::Arr(vec![v.clone(), v.clone(), v.clone()])));
        directed.push((Ty::Arr(Box::new(Ty::Arr(Box::new(t.clone())))), V::Arr(vec![V::Arr(vec![]), V::Arr(vec![v.clone()]), V::Arr(vec![])])));
        directed.push((Ty::Opt(Box::new(t.clone())), V::Some(Box::new(v.clone()))));
        directed.push((Ty::Opt(Box::new(t.clone())), V::None));
        directed.push((Ty::Res(Box::new(t.clone()), Box::new(Ty::Str)), V::Ok(Box::new(v.clone()))));
        directed.push((Ty::Res(Box::new(Ty::Int), Box::new(t.clone())), V::Err(Box::new(v.clone()))));
        for n in 2..=4usize {
            directed.push((Ty::Tup(vec![t.clone(); n]), V::Tup(vec![v.clone(); n])));
        }
    }

    let modes = ["print", "println", "str", "catL", "catR", "cat", "strlocal"];
    let make_job = |ty: &Ty, v: &V, mode: &'static str, other: Option<(Ty, V)>| -> Job {
        let mut used: Vec<&Ty> = vec![ty];
        if let Some((t2, _)) = &other { used.push(t2); }
        let decl = format!("{}let v: {} = {}\n", preamble(&used), ty.src(), v.src());
        let (req, stmt, expect) = match mode {
            // the conversion result stored straight into a local (method-call form of `ToString.str`)
            "strlocal" => (format!("render str {}", v.req()), "let s = v.str()\nprint(s)\n".to_string(), v.render()),
            "print" => (format!("render print {}", v.req()), "print(v)\n".to_string(), v.render()),
            "println" => (format!("render println {}", v.req()), "println(v)\n".to_string(), v.render() + "\n"),
            "str" => (format!("render str {}", v.req()), "let s: string = ToString.str(v)\nprint(s)\n".to_string(), v.render()),
            "catL" => (format!("render cat S {} {}", hex(b"<< "), v.req()), "print(\"<< \" .. v)\n".to_string(), format!("<< {}", v.render())),
            "catR" => (format!("render cat {} S {}", v.req(), hex(b" >>")), "print(v .. \" >>\")\n".to_string(), format!("{} >>", v.render())),
            _ => {
                let (ty2, w) = other.clone().unwrap();
                (
                    format!("render cat {} {}", v.req(), w.req()),
                    format!("let w: {} = {}\nprint(v .. w)\n", ty2.src(), w.src()),
                    format!("{}{}", v.render(), w.render()),
                )
            }
        };
        let mut hist = vec![];
        v.count(&mut hist);
        Job { req, src: decl + &stmt, expect, hist, mode, depth: v.depth() }
    };
    for (i, (ty, v)) in directed.iter().enumerate() {
        let mode = modes[i % 5];
        jobs.push(make_job(ty, v, mode, None));
        if matches!(ty, Ty::Float) {
            // `StringFromFloat` with a local destination: `let s = x.str()` and the intrinsic by name
            jobs.push(Job {
                req: format!("render multi str {q} ; lit {} ; str {q}", hex(b"|"), q = v.req()),
                src: format!("let x = {}\nlet s = x.str()\nprint(s)\nprint(\"|\")\nlet s2 = string_from_float(x)\nprint(s2)\n", v.src()),
                expect: format!("{}|{}", v.render(), v.render()),
                hist: vec!["float-to-string-into-local"],
                mode: "strlocal-float",
                depth: 0,
            });
        }
        // ints and strings also as literals (the compiler inlines `str` for int/string)
        if matches!(ty, Ty::Int | Ty::Str) {
            let lit = v.src();
            jobs.push(Job {
                req: format!("render cat {} {}", v.req(), v.req()),
                src: format!("print({lit} .. {lit})\n"),
                expect: format!("{}{}", v.render(), v.render()),
                hist: vec!["literal-operands"],
                mode: "cat-literals",
                depth: 0,
            });
        }
    }
    for i in 0..n_cases {
        let depth = 1 + ctx.rng.below(max_depth as u64) as usize;
        let ty = gen_ty(&mut ctx.rng, depth);
        let mut budget = 40;
        let v = gen_val(&mut ctx.rng, &ty, &mut budget);
        let mode = modes[i % 7];
        let other = if mode == "cat" {
            let ty2 = gen_ty(&mut ctx.rng, 2);
            let mut b2 = 12;
            let w = gen_val(&mut ctx.rng, &ty2, &mut b2);
            Some((ty2, w))
        } else {
            None
        };
        jobs.push(make_job(&ty, &v, mode, other));
    }

    // ints at every change of decimal length (the digit count is where a hand-written int-to-text goes wrong):
    // each value bare, via str into a local, via `..`, and nested in array / tuple / option / result
    {
        let vals = dec_boundaries(if quick { 300 } else { 3000 });
        for (ci, chunk) in vals.chunks(40).enumerate() {
            let mut stmts: Vec<(String, String, String)> = vec![];
            let arr = V::Arr(chunk.iter().map(|n| V::Int(*n)).collect());
            let mut src = format!("let xs: array<int> = {}\n", arr.src());
            stmts.push(("println(xs)".into(), format!("println {}", arr.req()), arr.render() + "\n"));
            for (i, n) in chunk.iter().enumerate() {
                let v = V::Int(*n);
                let lit = v.src();
                match (i + ci) % 6 {
                    0 => stmts.push((format!("print({lit})"), format!("print {}", v.req()), v.render())),
                    1 => stmts.push((format!("let s{i} = ToString.str(xs[{i}])\nprint(s{i})"), format!("str {}", v.req()), v.render())),
                    2 => stmts.push((format!("print(\"<\" .. xs[{i}] .. \">\")"), format!("chain 3 S {} {} S {}", hex(b"<"), v.req(), hex(b">")), format!("<{}>", v.render()))),
                    3 => { let t = V::Tup(vec![v.clone(), V::Bool(true), v.clone()]); stmts.push((format!("print(({lit}, true, xs[{i}]))"), format!("print {}", t.req()), t.render())) }
                    4 => { let t = V::Some(Box::new(v.clone())); stmts.push((format!("let o{i}: option<int> = option.some({lit})\nprintln(o{i})"), format!("println {}", t.req()), t.render() + "\n")) }
                    _ => { let t = V::Err(Box::new(V::Arr(vec![v.clone(), v.clone()]))); stmts.push((format!("let r{i}: result<string, array<int>> = result.err([{lit}, xs[{i}]])\nprint(r{i})"), format!("print {}", t.req()), t.render())) }
                }
                stmts.push(("print(\" \")".into(), format!("lit {}", hex(b" ")), " ".into()));
            }
            let mut expect = String::new();
            for (a, _, e) in &stmts {
                src.push_str(a);
                src.push('\n');
                expect.push_str(e);
            }
            let req = format!("render multi {}", stmts.iter().map(|s| s.1.clone()).collect::<Vec<_>>().join(" ; "));
            jobs.push(Job { req, src, expect, hist: vec!["int-decimal-length-boundaries(40 values)"], mode: "int-boundaries", depth: 2 });
        }
    }

    // rendering must be observationally pure: run-time-built, shared strings, every value rendered repeatedly
    // directed, minimal: one run-time-built string, shared, rendered twice
    {
        let d = |c: &str| V::Dyn(0, c.to_string());
        let mini: Vec<(&str, &str, V)> = vec![
            ("string", "s0", d("id7")),
            ("array<string>", "[s0, s0]", V::Arr(vec![d("id7"), d("id7")])),
            ("option<string>", "option.some(s0)", V::Some(Box::new(d("id7")))),
            ("(string, int)", "(s0, 7)", V::Tup(vec![d("id7"), V::Int(7)])),
            ("result<int, array<string>>", "result.err([s0, s0, s0])", V::Err(Box::new(V::Arr(vec![d("id7"), d("id7"), d("id7")])))),
        ];
        for (ty, e, val) in mini {
            let src = format!("let s0 = \"id\" .. 7\nlet v: {ty} = {e}\nprintln(v)\nprintln(v)\nprint(\"<\" .. v .. \">\")\nprintln(s0)\nprintln(v)\n");
            let r = val.render();
            let expect = format!("{r}\n{r}\n<{r}>id7\n{r}\n");
            let req = format!("render multi println {q} ; println {q} ; chain 3 S {} {q} S {} ; println S {} ; println {q}", hex(b"<"), hex(b">"), hex(b"id7"), q = val.req());
            jobs.push(Job { req, src, expect, hist: vec!["purity:directed-minimal"], mode: "purity", depth: val.depth() });
        }
    }
    let n_pure = if quick { 400 } else { 4000 };
    for _ in 0..n_pure {
        jobs.push(purity_job(&mut ctx.rng, max_depth.min(3)));
    }

    let srcs: Vec<&String> = jobs.iter().map(|j| &j.src).collect();
    let results = par_map(&srcs, |src| run_program(src));
    for (j, r) in jobs.iter().zip(results) {
        ctx.count(&format!("mode:{}", j.mode));
        ctx.count(&format!("depth:{}", j.depth));
        for h in &j.hist {
            ctx.count(h);
        }
        let imp = match &r.outcome {
            Outcome::Done => {
                if r.out != j.expect {
                    // the first place where the two texts part, with a little context on both sides
                    let (a, b): (Vec<char>, Vec<char>) = (r.out.chars().collect(), j.expect.chars().collect());
                    let at = a.iter().zip(b.iter()).position(|(x, y)| x != y).unwrap_or(a.len().min(b.len()));
                    let from = at.saturating_sub(24);
                    let cut = |v: &Vec<char>| v[from.min(v.len())..(at + 24).min(v.len())].iter().collect::<String>();
                    ctx.spec_fail(format!("rendered text differs from the documented format at character {at}: printed …{:?}…, documented …{:?}…; program `{}`: printed {:?}, documented {:?}", cut(&a), cut(&b), j.src.trim_end().replace('\n', "; "), r.out, j.expect));
                }
                hex(r.out.as_bytes())
            }
            Outcome::Rejected(m) => {
                ctx.spec_fail(format!("program rejected: `{}`: {}", j.src.trim_end().replace('\n', "; "), m.lines().filter(|l| !l.trim().is_empty()).take(2).collect::<Vec<_>>().join(" ")));
                "rejected".into()
            }
            o => {
                ctx.spec_fail(format!("rendering did not finish normally ({}): `{}`", o.tag(), j.src.trim_end().replace('\n', "; ")));
                format!("other:{}", o.tag())
            }
        };
        ctx.case(j.req.clone(), imp);
    }
    ctx.finish();
}
